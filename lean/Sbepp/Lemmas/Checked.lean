/-
  Lemmas for C06 (`size_bytes_checked`): the model `Rt.Checked` against the
  specification `Spec.CheckedSize`.

  * `vas_kernel`: the hand-written `vas` is the kernel extracted from
    `size_bytes_checked_visitor::validate_and_subtract` (C++ integer semantics).
  * exactness (`runMsg_exact`, `runGroup_exact`, for every layout and every
    `n < 2^64` - `n` is a `std::size_t`): mutual induction over the group tree
    with the invariant "valid → remaining size + cursor position = n".  `on_data`
    validates the length prefix and the payload one after the other, so a member
    that is accepted fits below `n < 2^64` and the cursor advance
    `sizeof(length) + length` (computed in `std::size_t` by the accessor) did not
    wrap.
  * work (`runMsg_work`, `runGroup_work`): potential function
    `steps + W * size + (valid ? W : 0)` against `W * zeroEntries`.
  * the access-log theorems are in `Lemmas/CheckedReads.lean`.
-/
import Sbepp.Rt.Checked
import Sbepp.Spec.CheckedSize
import Sbepp.Extracted.Kernels
import Sbepp.Lemmas.CInt

namespace Sbepp.Checked
open Sbepp Sbepp.Spec.CheckedSize

/-! ## `validate_and_subtract` -/

section kernel
open CVal
theorem u64_promote (b : Nat) (hb : b < 2^64) : promote ⟨.u64, b⟩ = ⟨.u64, b⟩ := by
  rw [promote_mk]
  exact conv_mk_nonneg _ _ _ (by decide) (Or.inl rfl) (by simpa [CTy.promote, CTy.rank, CTy.bits] using hb)

theorem u64_lt (a b : Nat) (ha : a < 2^64) (hb : b < 2^64) :
    CVal.binop .lt ⟨.u64, a⟩ ⟨.u64, b⟩ = some (ofBool (decide (a < b))) := by
  simp only [binop, CTy.isPtr, Bool.or_self, Bool.false_eq_true, if_false, intBinop,
    show (BinOp.lt = BinOp.shl) = False by simp, show (BinOp.lt = BinOp.shr) = False by simp,
    u64_promote a ha, u64_promote b hb]
  have hc : CTy.common .u64 .u64 = .u64 := by decide
  rw [hc]
  have h1 : conv .u64 ⟨.u64, a⟩ = ⟨.u64, a⟩ := conv_mk_nonneg _ _ _ (by decide) (Or.inl rfl) (by simpa [CTy.bits] using ha)
  have h2 : conv .u64 ⟨.u64, b⟩ = ⟨.u64, b⟩ := conv_mk_nonneg _ _ _ (by decide) (Or.inl rfl) (by simpa [CTy.bits] using hb)
  rw [h1, h2]
  simp only [arithOp, toInt_mk_unsigned _ _ (show CTy.signed .u64 = false from rfl)]
  have : decide ((a : Int) < (b : Int)) = decide (a < b) := by
    by_cases h : a < b
    · simp [h]
    · simp [h]
  rw [this]

theorem u64_sub (a b : Nat) (ha : a < 2^64) (hb : b ≤ a) :
    CVal.binop .sub ⟨.u64, a⟩ ⟨.u64, b⟩ = some ⟨.u64, a - b⟩ := by
  have hb' : b < 2^64 := by omega
  simp only [binop, CTy.isPtr, Bool.or_self, Bool.false_eq_true, if_false, intBinop,
    show (BinOp.sub = BinOp.shl) = False by simp, show (BinOp.sub = BinOp.shr) = False by simp,
    u64_promote a ha, u64_promote b hb']
  have hc : CTy.common .u64 .u64 = .u64 := by decide
  rw [hc]
  have h1 : conv .u64 ⟨.u64, a⟩ = ⟨.u64, a⟩ := conv_mk_nonneg _ _ _ (by decide) (Or.inl rfl) (by simpa [CTy.bits] using ha)
  have h2 : conv .u64 ⟨.u64, b⟩ = ⟨.u64, b⟩ := conv_mk_nonneg _ _ _ (by decide) (Or.inl rfl) (by simpa [CTy.bits] using hb')
  rw [h1, h2]
  simp only [arithOp, arith, toInt_mk_unsigned _ _ (show CTy.signed .u64 = false from rfl), CTy.signed,
    Bool.false_eq_true, if_false]
  rw [wrap_sub .u64 a b (by simpa [CTy.bits] using ha) hb]

theorem vas_kernel (size n : Nat) (valid : Bool) (hs : size < 2^64) (hn : n < 2^64) :
    Extracted.validate_and_subtract.varBits [size, n, valid.toNat] "size" = some (vas size n valid).1 ∧
    Extracted.validate_and_subtract.varBits [size, n, valid.toNat] "valid" = some (vas size n valid).2.toNat ∧
    Extracted.validate_and_subtract.retBits [size, n, valid.toNat] = some (vas size n valid).2.toNat := by
  have e1 : size % 2^64 = size := Nat.mod_eq_of_lt hs
  have e2 : n % 2^64 = n := Nat.mod_eq_of_lt hn
  have e3 : valid.toNat % 2 = valid.toNat := by cases valid <;> rfl
  by_cases h : size < n
  · simp [Kernel.varBits, Kernel.retBits, Kernel.run, Extracted.validate_and_subtract, mkEnv, execStmts, CStmt.exec,
      CExpr.eval, Env.get?, Env.set, CTy.bits, e1, e2, e3, u64_lt size n hs hn, h, vas, conv, CVal.isTrue, wrap]
    rw [toInt_mk_unsigned _ _ rfl]; omega
  · have h' : n ≤ size := by omega
    simp [Kernel.varBits, Kernel.retBits, Kernel.run, Extracted.validate_and_subtract, mkEnv, execStmts, CStmt.exec,
      CExpr.eval, Env.get?, Env.set, CTy.bits, e1, e2, e3, u64_lt size n hs hn, u64_sub size n hs h', h, vas, conv, CVal.isTrue, wrap]
    refine ⟨?_, by cases valid <;> rfl⟩
    rw [toInt_mk_unsigned _ _ rfl]; omega

end kernel

/-! ## exactness -/

/-! ### bytes read from a buffer of bytes are bounded -/

theorem isBytes_slice {buf : List Nat} (h : IsBytes buf) (p w : Nat) : IsBytes (slice buf p w) := by
  intro b hb
  exact h b (List.mem_of_mem_drop (List.mem_of_mem_take hb))

theorem slice_length_le (buf : List Nat) (p w : Nat) : (slice buf p w).length ≤ w := by
  simp [slice, List.length_take]; omega

theorem get_lt (bo : ByteOrder) (bs : List Nat) (h : IsBytes bs) : get bo bs < 256 ^ bs.length := by
  cases bo
  · exact getLE_lt bs h
  · have hr : IsBytes bs.reverse := fun x hx => h x (by simpa using hx)
    have := getLE_lt bs.reverse hr
    simpa [get, getBE] using this

theorem rd_lt (bo : ByteOrder) (buf : List Nat) (h : IsBytes buf) (p w : Nat) : rd bo buf p w < 256 ^ w := by
  have h1 := get_lt bo (slice buf p w) (isBytes_slice h p w)
  have h2 : 256 ^ (slice buf p w).length ≤ 256 ^ w := Nat.pow_le_pow_right (by decide) (slice_length_le buf p w)
  exact Nat.lt_of_lt_of_le h1 h2

/-- the cursor advance `sizeof(length) + length` does not wrap for a member that fits into `n < 2^64` bytes -/
theorem dataSizeBytes_fits (w len p n : Nat) (hN : n < 2 ^ 64) (h : p + w + len ≤ n) :
    dataSizeBytes w len = w + len := by
  unfold dataSizeBytes
  apply Nat.mod_eq_of_lt
  omega

/-! ### state bookkeeping -/

/-- what the specification says about the construct just visited: `some q'` - it
    ends at `q'` inside the buffer; `none` - it does not fit -/
def Agree (n : Nat) (s s' : St) (o : Option Nat) : Prop :=
  match o with
  | some q' => s'.valid = true ∧ s'.size + q' = n ∧ s'.gbl = s.gbl
  | none => s'.valid = false

theorem validate_fits (s : St) (k q n : Nat) (hv : s.valid = true) (hs : s.size + q = n) (hk : q + k ≤ n) :
    (s.validate k).valid = true ∧ (s.validate k).size + (q + k) = n := by
  have : ¬ s.size < k := by omega
  simp only [St.validate, vas, this, if_false, hv]
  exact ⟨trivial, by omega⟩

theorem validate_short (s : St) (k q n : Nat) (hs : s.size + q = n) (hk : ¬ q + k ≤ n) :
    (s.validate k).valid = false := by
  have : s.size < k := by omega
  simp [St.validate, vas, this]

@[simp] theorem noteZero_valid (s : St) (c : Bool) : (s.noteZero c).valid = s.valid := by cases c <;> rfl
@[simp] theorem noteZero_size (s : St) (c : Bool) : (s.noteZero c).size = s.size := by cases c <;> rfl
@[simp] theorem noteZero_ptr (s : St) (c : Bool) : (s.noteZero c).ptr = s.ptr := by cases c <;> rfl
@[simp] theorem noteZero_gbl (s : St) (c : Bool) : (s.noteZero c).gbl = s.gbl := by cases c <;> rfl
@[simp] theorem validate_gbl (s : St) (k : Nat) : (s.validate k).gbl = s.gbl := rfl
@[simp] theorem validate_ptr (s : St) (k : Nat) : (s.validate k).ptr = s.ptr := rfl

section
variable (bo : ByteOrder) (buf : List Nat) (n : Nat)

theorem visitFields_core (start wbl : Nat) (blk : List Access) (fs : List FieldA) (s : St) :
    (visitFields start wbl blk fs s).size = s.size ∧ (visitFields start wbl blk fs s).valid = s.valid ∧
    (visitFields start wbl blk fs s).gbl = s.gbl ∧
    (visitFields start wbl blk fs s).ptr = (if fs = [] then s.ptr else start + wbl) := by
  induction fs generalizing s with
  | nil => simp [visitFields]
  | cons f fs ih =>
    cases fs with
    | nil =>
      simp only [visitFields]
      refine ⟨?_, ?_, ?_, ?_⟩ <;> cases f.isValue <;> simp [St.readIf, St.read, St.readAll, St.setPtr, St.step]
    | cons g gs =>
      have := ih (((s.readIf f.isValue .field (start + f.off) f.size).setPtr (start + f.off + f.size)).step)
      simp only [visitFields] at this ⊢
      obtain ⟨h1, h2, h3, h4⟩ := this
      refine ⟨?_, ?_, ?_, ?_⟩
      · rw [h1]; cases f.isValue <;> simp [St.readIf, St.read, St.setPtr, St.step]
      · rw [h2]; cases f.isValue <;> simp [St.readIf, St.read, St.setPtr, St.step]
      · rw [h3]; cases f.isValue <;> simp [St.readIf, St.read, St.setPtr, St.step]
      · rw [h4]; simp

theorem visitDatas_exact (hN : n < 2 ^ 64) (start wbl : Nat) (blk : List Access) (ds : List DataL)
    (first : Bool) (s : St) (p : Nat)
    (hv : s.valid = true) (hp : p = if first then start + wbl else s.ptr) (hs : s.size + p = n) :
    Agree n s (visitDatas bo buf start wbl blk first ds s).1 (parseDs bo buf n ds p) ∧
    (∀ q', parseDs bo buf n ds p = some q' →
       (visitDatas bo buf start wbl blk first ds s).1.ptr = if ds = [] then s.ptr else q') ∧
    (visitDatas bo buf start wbl blk first ds s).2 = !(visitDatas bo buf start wbl blk first ds s).1.valid := by
  induction ds generalizing first s p with
  | nil => simp [visitDatas, parseDs, Agree, hv, hs]
  | cons d ds ih =>
    -- the state after the accessor's optional re-positioning
    obtain ⟨s0, hs0, h0p, h0s, h0v, h0g⟩ :
        ∃ s0 : St, s0 = (if first then (s.readAll blk).setPtr (start + wbl) else s) ∧ s0.ptr = p ∧
          s0.size = s.size ∧ s0.valid = true ∧ s0.gbl = s.gbl := by
      refine ⟨_, rfl, ?_, ?_, ?_, ?_⟩ <;> cases first <;> simp_all [St.readAll, St.setPtr]
    simp only [visitDatas, parseDs, ← hs0, h0p]
    generalize rd bo buf p d.lenSize = len
    -- the state the callback starts in: accessor done (prefix read, cursor advanced), callback counted
    obtain ⟨s1, hs1, h1p, h1s, h1v, h1g⟩ :
        ∃ s1 : St, s1 = ((s0.read .dataLength p d.lenSize).setPtr (p + dataSizeBytes d.lenSize len)).step ∧
          s1.ptr = p + dataSizeBytes d.lenSize len ∧ s1.size = s.size ∧ s1.valid = true ∧ s1.gbl = s.gbl := by
      refine ⟨_, rfl, ?_, ?_, ?_, ?_⟩ <;> simp [St.read, St.setPtr, St.step, h0s, h0v, h0g]
    rw [← hs1]
    by_cases hfit1 : p + d.lenSize ≤ n
    · -- the length prefix fits
      obtain ⟨hv2, hs2⟩ := validate_fits s1 d.lenSize p n h1v (by rw [h1s]; exact hs) hfit1
      simp only [hfit1, if_true, hv2, Bool.not_true, Bool.false_eq_true, if_false]
      by_cases hfit : p + d.lenSize + len ≤ n
      · -- the payload fits as well: the cursor advance did not wrap
        have hsb := dataSizeBytes_fits d.lenSize len p n hN hfit
        obtain ⟨hv3, hs3⟩ := validate_fits ((s1.validate d.lenSize).read .dataLength p d.lenSize) len (p + d.lenSize) n
          (by simpa [St.read] using hv2) (by simpa [St.read] using hs2) hfit
        simp only [hfit, if_true, hv3, Bool.not_true, Bool.false_eq_true, if_false]
        have := ih false _ (p + d.lenSize + len) hv3
          (by simp [St.validate, St.read, h1p, hsb]; omega) hs3
        obtain ⟨ha, hptr, hstop⟩ := this
        refine ⟨?_, ?_, hstop⟩
        · revert ha
          cases parseDs bo buf n ds (p + d.lenSize + len) with
          | none => simp [Agree]
          | some q' => simp [Agree, St.validate, St.read, h1g]
        · intro q' hq'
          have := hptr q' hq'
          rw [this]
          by_cases hds : ds = []
          · subst hds
            simp [parseDs] at hq'
            simp [St.validate, St.read, h1p, hsb]; omega
          · simp [hds]
      · have hbad := validate_short ((s1.validate d.lenSize).read .dataLength p d.lenSize) len (p + d.lenSize) n
          (by simpa [St.read] using hs2) hfit
        simp [hbad, hfit, Agree]
    · have hbad := validate_short s1 d.lenSize p n (by rw [h1s]; exact hs) hfit1
      simp [hbad, hfit1, Agree]
end


section
variable (bo : ByteOrder) (buf : List Nat) (n : Nat)

theorem agree_trans_gbl {n : Nat} {s s1 s' : St} {o : Option Nat} (h : Agree n s1 s' o) (hg : s1.gbl = s.gbl) :
    Agree n s s' o := by
  cases o with
  | none => exact h
  | some q' => exact ⟨h.1, h.2.1, by rw [h.2.2, hg]⟩

theorem loopE_exact (body : St → St × Bool) (f : Nat → Option Nat) (bl : Nat)
    (hbody : ∀ s q, s.valid = true → s.ptr = q → s.gbl = bl → s.size + q = n →
      Agree n s (body s).1 (f q) ∧ (∀ q', f q = some q' → (body s).1.ptr = q') ∧ (body s).2 = !(body s).1.valid) :
    ∀ k s q, s.valid = true → s.ptr = q → s.gbl = bl → s.size + q = n →
      Agree n s (loopE none body k s) (iterO f k q) ∧
      (∀ q', iterO f k q = some q' → (loopE none body k s).ptr = q') := by
  intro k
  induction k with
  | zero =>
    intro s q hv hp hg hs
    simp [loopE, iterO, Agree, hv, hs, hp]
  | succ k ih =>
    intro s q hv hp hg hs
    obtain ⟨ha, hptr, hstop⟩ := hbody s q hv hp hg hs
    simp only [loopE, outOfFuel, Bool.false_eq_true, if_false, iterO]
    cases hf : f q with
    | none =>
      rw [hf] at ha
      have hbad : (body s).1.valid = false := ha
      simp [hstop, hbad, Agree]
    | some q1 =>
      rw [hf] at ha
      obtain ⟨hv1, hs1, hg1⟩ := ha
      simp only [hstop, hv1, Bool.not_true, Bool.false_eq_true, if_false, Option.bind_some]
      have := ih (body s).1 q1 hv1 (hptr q1 hf) (by rw [hg1, hg]) hs1
      exact ⟨agree_trans_gbl this.1 hg1, this.2⟩


mutual
  theorem visitChildren_exact (hN : n < 2 ^ 64) (l : CLevel) (start wbl : Nat) (blk : List Access)
      (s : St) (hv : s.valid = true) (hs : s.size + (start + wbl) = n) :
      Agree n s (visitChildren bo buf none l start wbl blk s).1
        ((parseGs bo buf n (eraseGs l.groups) (start + wbl)).bind (parseDs bo buf n l.datas)) ∧
      (∀ q', (parseGs bo buf n (eraseGs l.groups) (start + wbl)).bind (parseDs bo buf n l.datas) = some q' →
        (l.emptyCtor = false ∨ s.ptr = start + wbl) → (visitChildren bo buf none l start wbl blk s).1.ptr = q') ∧
      (visitChildren bo buf none l start wbl blk s).2 = !(visitChildren bo buf none l start wbl blk s).1.valid := by
    match l with
    | .mk bl fs gs ds =>
      obtain ⟨f1, f2, f3, f4⟩ := visitFields_core start wbl blk fs s
      have hG := visitGroups_exact hN gs start wbl blk true (visitFields start wbl blk fs s) (start + wbl)
        (by rw [f2, hv]) (by simp) (by rw [f1]; exact hs)
      obtain ⟨ga, gp, gstop⟩ := hG
      simp only [visitChildren, CLevel.groups, CLevel.datas, CLevel.emptyCtor]
      cases hpg : parseGs bo buf n (eraseGs gs) (start + wbl) with
      | none =>
        rw [hpg] at ga
        have hbad : (visitGroups bo buf none gs start wbl blk true (visitFields start wbl blk fs s)).1.valid = false := ga
        simp [gstop, hbad, Agree]
      | some q1 =>
        rw [hpg] at ga
        obtain ⟨gv, gs1, gg⟩ := ga
        have gptr := gp q1 hpg
        simp only [gstop, gv, Bool.not_true, Bool.false_eq_true, if_false, Option.bind_some]
        have hD := visitDatas_exact bo buf n hN start wbl blk ds gs.isEmpty
          (visitGroups bo buf none gs start wbl blk true (visitFields start wbl blk fs s)).1 q1 gv
          (by
            cases gs with
            | nil => simp [eraseGs, parseGs] at hpg; simp [hpg]
            | cons g gs' => simp at gptr; simp [gptr]) gs1
        obtain ⟨da, dp, dstop⟩ := hD
        refine ⟨agree_trans_gbl da (by rw [gg, f3]), ?_, dstop⟩
        intro q' hq' hpre
        rw [dp q' hq']
        by_cases hds : ds = []
        · subst hds
          simp only [parseDs, Option.some.injEq] at hq'
          subst hq'
          simp only [if_true]
          rw [gptr]
          by_cases hgs : gs = []
          · subst hgs
            simp only [eraseGs, parseGs, Option.some.injEq] at hpg
            simp only [if_true, f4]
            by_cases hfs : fs = []
            · subst hfs; simp at hpre ⊢; omega
            · simp [hfs, hpg]
          · simp [hgs]
        · simp [hds]
  theorem visitGroups_exact (hN : n < 2 ^ 64) (gs : List CGroup) (start wbl : Nat)
      (blk : List Access) (first : Bool) (s : St) (p : Nat)
      (hv : s.valid = true) (hp : p = if first then start + wbl else s.ptr) (hs : s.size + p = n) :
      Agree n s (visitGroups bo buf none gs start wbl blk first s).1 (parseGs bo buf n (eraseGs gs) p) ∧
      (∀ q', parseGs bo buf n (eraseGs gs) p = some q' →
        (visitGroups bo buf none gs start wbl blk first s).1.ptr = if gs = [] then s.ptr else q') ∧
      (visitGroups bo buf none gs start wbl blk first s).2 = !(visitGroups bo buf none gs start wbl blk first s).1.valid := by
    match gs with
    | [] => simp [visitGroups, eraseGs, parseGs, Agree, hv, hs]
    | g :: gs =>
      obtain ⟨s0, hs0, h0p, h0s, h0v, h0g⟩ :
          ∃ s0 : St, s0 = (if first then (s.readAll blk).setPtr (start + wbl) else s) ∧ s0.ptr = p ∧
            s0.size = s.size ∧ s0.valid = true ∧ s0.gbl = s.gbl := by
        refine ⟨_, rfl, ?_, ?_, ?_, ?_⟩ <;> cases first <;> simp_all [St.readAll, St.setPtr]
      have hG := onGroup_exact hN g p (s0.setPtr (p + g.dim.size)) (by simp [St.setPtr, h0v])
        (by simp [St.setPtr]) (by simp [St.setPtr, h0s, hs])
      obtain ⟨ga, gp, gstop⟩ := hG
      simp only [visitGroups, eraseGs, parseGs, ← hs0, h0p]
      cases hpg : parseG bo buf n g.erase p with
      | none =>
        rw [hpg] at ga
        have hbad : (onGroup bo buf none g p (s0.setPtr (p + g.dim.size))).1.valid = false := ga
        simp [gstop, hbad, Agree]
      | some q1 =>
        rw [hpg] at ga
        obtain ⟨gv, gs1, gg⟩ := ga
        simp only [gstop, gv, Bool.not_true, Bool.false_eq_true, if_false, Option.bind_some]
        have hR := visitGroups_exact hN gs start wbl blk false
          (onGroup bo buf none g p (s0.setPtr (p + g.dim.size))).1 q1 gv (by simp [gp q1 hpg]) gs1
        obtain ⟨ra, rp, rstop⟩ := hR
        refine ⟨agree_trans_gbl ra (by rw [gg]; simp [St.setPtr, h0g]), ?_, rstop⟩
        intro q' hq'
        rw [rp q' hq']
        by_cases hgs : gs = []
        · subst hgs
          simp only [eraseGs, parseGs, Option.some.injEq] at hq'
          simp [gp q1 hpg, hq']
        · simp [hgs]
  theorem onGroup_exact (hN : n < 2 ^ 64) (g : CGroup) (p : Nat) (s : St)
      (hv : s.valid = true) (hptr : s.ptr = p + g.dim.size) (hs : s.size + p = n) :
      Agree n s (onGroup bo buf none g p s).1 (parseG bo buf n g.erase p) ∧
      (∀ q', parseG bo buf n g.erase p = some q' → (onGroup bo buf none g p s).1.ptr = q') ∧
      (onGroup bo buf none g p s).2 = !(onGroup bo buf none g p s).1.valid := by
    match g with
    | .mk dim l =>
      simp only [onGroup, CGroup.erase, parseG]
      by_cases hfit : p + dim.size ≤ n
      · obtain ⟨hv1, hs1⟩ := validate_fits s.step dim.size p n (by simp [St.step, hv]) (by simp [St.step, hs]) hfit
        simp only [hv1, Bool.not_true, Bool.false_eq_true, if_false, hfit, if_true]
        have hL := loopE_exact n (fun t => onEntry bo buf none l (rd bo buf (p + dim.blOff) dim.blSize) t)
          (fun q => parseL bo buf n l.erase q (rd bo buf (p + dim.blOff) dim.blSize))
          (rd bo buf (p + dim.blOff) dim.blSize)
          (fun t q tv tp tg ts => onEntry_exact hN l _ t q tv tp tg ts)
          (rd bo buf (p + dim.numOff) dim.numSize)
          ((((s.step.validate dim.size).read .dimBlockLength (p + dim.blOff) dim.blSize).setGbl
              (rd bo buf (p + dim.blOff) dim.blSize)).read .dimBlockLength (p + dim.blOff) dim.blSize |>.read
              .dimNumInGroup (p + dim.numOff) dim.numSize)
          (p + dim.size) (by simp [St.read, St.setGbl, hv1])
          (by simp [St.read, St.setGbl, St.step, hptr, CGroup.dim])
          (by simp [St.read, St.setGbl])
          (by simp only [St.read, St.setGbl]; exact hs1)
        obtain ⟨la, lp⟩ := hL
        refine ⟨?_, fun q' hq' => lp q' hq', trivial⟩
        cases ho : iterO (fun q => parseL bo buf n l.erase q (rd bo buf (p + dim.blOff) dim.blSize))
            (rd bo buf (p + dim.numOff) dim.numSize) (p + dim.size) with
        | none => rw [ho] at la; exact la
        | some q' => rw [ho] at la; exact ⟨la.1, la.2.1, rfl⟩
      · have hbad := validate_short s.step dim.size p n (by simp [St.step, hs]) hfit
        simp [hbad, hfit, Agree]
  theorem onEntry_exact (hN : n < 2 ^ 64) (l : CLevel) (bl : Nat) (s : St) (q : Nat)
      (hv : s.valid = true) (hptr : s.ptr = q) (hg : s.gbl = bl) (hs : s.size + q = n) :
      Agree n s (onEntry bo buf none l bl s).1 (parseL bo buf n l.erase q bl) ∧
      (∀ q', parseL bo buf n l.erase q bl = some q' → (onEntry bo buf none l bl s).1.ptr = q') ∧
      (onEntry bo buf none l bl s).2 = !(onEntry bo buf none l bl s).1.valid := by
    match l with
    | .mk cbl fs gs ds =>
      obtain ⟨s0, hs0, h0p, h0s, h0v, h0g⟩ :
          ∃ s0 : St, s0 = (if (CLevel.mk cbl fs gs ds).emptyCtor then s.setPtr (s.ptr + bl) else s) ∧
            ((CLevel.mk cbl fs gs ds).emptyCtor = false ∨ s0.ptr = q + bl) ∧
            s0.size = s.size ∧ s0.valid = true ∧ s0.gbl = bl := by
        refine ⟨_, rfl, ?_, ?_, ?_, ?_⟩ <;> cases (CLevel.mk cbl fs gs ds).emptyCtor <;> simp_all [St.setPtr]
      simp only [onEntry, onEntryWith, CLevel.erase, parseL, ← hs0, h0g]
      generalize (bl == 0 && (s0.step.validate bl).valid) = c
      by_cases hfit : q + bl ≤ n
      · obtain ⟨hv1, hs1⟩ := validate_fits s0.step bl q n (by simp [St.step, h0v]) (by simp [St.step, h0s, hs]) hfit
        simp only [noteZero_valid, hv1, Bool.not_true, Bool.false_eq_true, if_false, hfit, if_true, hptr]
        have hC := visitChildren_exact hN (CLevel.mk cbl fs gs ds) q bl []
          ((s0.step.validate bl).noteZero c)
          (by simp [hv1]) (by simp; exact hs1)
        obtain ⟨ca, cp, _⟩ := hC
        simp only [CLevel.groups, CLevel.datas] at ca cp
        refine ⟨agree_trans_gbl ca (by simp [St.step, h0g, hg]), ?_, trivial⟩
        intro q' hq'
        apply cp q' hq'
        rcases h0p with h | h
        · left; exact h
        · right; simp [St.step, h]
      · have hbad := validate_short s0.step bl q n (by simp [St.step, h0s, hs]) hfit
        simp [hbad, hfit, Agree]
end


theorem parseL_erase (l : CLevel) (pos wbl : Nat) :
    parseL bo buf n l.erase pos wbl =
      if pos + wbl ≤ n then (parseGs bo buf n (eraseGs l.groups) (pos + wbl)).bind (parseDs bo buf n l.datas) else none := by
  cases l with
  | mk bl fs gs ds => simp [CLevel.erase, parseL, CLevel.groups, CLevel.datas]

/-- what `finish` reports against a specification answer -/
def Reports (r : Result) (o : Option Nat) : Prop :=
  match o with
  | some sz => r.valid = true ∧ r.size = sz
  | none => r.valid = false ∧ r.size = 0

theorem finish_reports {s0 s : St} {o : Option Nat} (h : Agree n s0 s o) : Reports (finish n s) o := by
  cases o with
  | none =>
    have hv : s.valid = false := h
    simp [Reports, finish, hv]
  | some sz =>
    obtain ⟨hv, hs, _⟩ := h
    simp only [Reports, finish, hv, if_true]
    exact ⟨trivial, by omega⟩

theorem runMsg_exact (hN : n < 2 ^ 64) (m : CMsg) :
    Reports (runMsg bo buf none m n) (parseMsg bo buf n m.hdrSize m.blOff m.blSize m.level.erase) := by
  unfold runMsg parseMsg
  by_cases hh : n < m.hdrSize
  · have : ¬ m.hdrSize ≤ n := by omega
    simp [hh, this, Reports, rejected]
  · have hle : m.hdrSize ≤ n := by omega
    simp only [hh, if_false, hle, if_true, parseL_erase]
    obtain ⟨hv1, hs1⟩ := validate_fits (initial n m.hdrSize).step m.hdrSize 0 n (by simp [initial, St.step])
      (by simp [initial, St.step]) (by omega)
    simp only [Nat.zero_add] at hs1
    unfold onMessage
    simp only [hv1, Bool.not_true, Bool.false_eq_true, if_false]
    by_cases hfit : m.hdrSize + rd bo buf m.blOff m.blSize ≤ n
    · obtain ⟨hv2, hs2⟩ := validate_fits (((initial n m.hdrSize).step.validate m.hdrSize).read .hdrBlockLength m.blOff m.blSize)
        (rd bo buf m.blOff m.blSize) m.hdrSize n (by simpa [St.read] using hv1) (by simpa [St.read] using hs1) hfit
      simp only [hv2, Bool.not_true, Bool.false_eq_true, if_false, hfit, if_true]
      exact finish_reports n (visitChildren_exact bo buf n hN m.level m.hdrSize _ _ _ hv2 hs2).1
    · have hbad := validate_short (((initial n m.hdrSize).step.validate m.hdrSize).read .hdrBlockLength m.blOff m.blSize)
        (rd bo buf m.blOff m.blSize) m.hdrSize n (by simpa [St.read] using hs1) hfit
      simp [hbad, hfit, Reports, finish]

theorem runGroup_exact (hN : n < 2 ^ 64) (g : CGroup) :
    Reports (runGroup bo buf none g n) (parseGroup bo buf n g.erase) := by
  unfold runGroup parseGroup
  by_cases hh : n < g.dim.size
  · have : parseG bo buf n g.erase 0 = none := by
      cases g with
      | mk dim l =>
        have : ¬ dim.size ≤ n := by simp [CGroup.dim] at hh; omega
        simp [CGroup.erase, parseG, this]
    simp [hh, this, Reports, rejected]
  · simp only [hh, if_false]
    exact finish_reports n (onGroup_exact bo buf n hN g 0 (initial n g.dim.size) (by simp [initial])
      (by simp [initial]) (by simp [initial])).1
end

/-! ## work -/

/-- steps done plus the steps the remaining budget can still pay for -/
def Phi (W : Nat) (s : St) : Nat := s.steps + W * s.size + (if s.valid then W else 0)

/-- the construct that led from `s` to `s'` cost at most `c` callbacks more than
    what the consumed bytes, the loss of validity and the zero-length entries pay for -/
def Paid (W c : Nat) (s s' : St) : Prop :=
  Phi W s' + W * s.zeroEntries ≤ Phi W s + W * s'.zeroEntries + c

theorem paid_refl (W : Nat) (s : St) : Paid W 0 s s := by simp [Paid]

theorem paid_trans {W c1 c2 : Nat} {s s1 s2 : St} (h1 : Paid W c1 s s1) (h2 : Paid W c2 s1 s2) :
    Paid W (c1 + c2) s s2 := by
  unfold Paid at *; omega

theorem paid_mono {W c c' : Nat} {s s' : St} (h : Paid W c s s') (hc : c ≤ c') : Paid W c' s s' := by
  unfold Paid at *; omega

/-- changes of the cursor, the log and `group_block_length` are free -/
theorem paid_of_same {W : Nat} {s s' : St} (h1 : s'.steps = s.steps) (h2 : s'.size = s.size) (h3 : s'.valid = s.valid)
    (h4 : s'.zeroEntries = s.zeroEntries) : Paid W 0 s s' := by
  simp [Paid, Phi, h1, h2, h3, h4]

theorem validate_phi_le (W : Nat) (s : St) (k : Nat) : Phi W (s.validate k) ≤ Phi W s := by
  unfold Phi St.validate vas
  by_cases h : s.size < k
  · simp only [h, if_true]
    cases s.valid <;> simp
  · simp only [h, if_false]
    have : W * (s.size - k) ≤ W * s.size := Nat.mul_le_mul_left _ (Nat.sub_le _ _)
    omega

theorem validate_paid (W : Nat) (s : St) (k : Nat) : Paid W 0 s (s.validate k) := by
  have := validate_phi_le W s k
  have hz : (s.validate k).zeroEntries = s.zeroEntries := rfl
  unfold Paid; rw [hz]; omega

theorem step_paid (W : Nat) (s : St) : Paid W 1 s s.step := by
  have h1 : s.step.steps = s.steps + 1 := rfl
  have h2 : s.step.size = s.size := rfl
  have h3 : s.step.valid = s.valid := rfl
  have h4 : s.step.zeroEntries = s.zeroEntries := rfl
  unfold Paid Phi; rw [h1, h2, h3, h4]; omega

/-- a successful `validate_and_subtract(k)` pays `W * k` -/
theorem validate_phi_fit (W : Nat) (s : St) (k : Nat) (h : ¬ s.size < k) :
    Phi W (s.validate k) + W * k = Phi W s := by
  unfold Phi St.validate vas
  simp only [h, if_false]
  have : W * (s.size - k) + W * k = W * s.size := by
    rw [← Nat.mul_add]; congr 1; omega
  omega

/-- a failing one, from a valid state, pays `W` -/
theorem validate_phi_fail (W : Nat) (s : St) (k : Nat) (hv : s.valid = true) (h : s.size < k) :
    Phi W (s.validate k) + W = Phi W s := by
  unfold Phi St.validate vas
  simp [h, hv]


theorem read_paid (W : Nat) (s : St) (k : AKind) (o z : Nat) : Paid W 0 s (s.read k o z) := paid_of_same rfl rfl rfl rfl
theorem readIf_paid (W : Nat) (s : St) (c : Bool) (k : AKind) (o z : Nat) : Paid W 0 s (s.readIf c k o z) := by
  cases c
  · exact paid_refl W s
  · exact read_paid W s k o z
theorem readAll_paid (W : Nat) (s : St) (l : List Access) : Paid W 0 s (s.readAll l) := paid_of_same rfl rfl rfl rfl
theorem setPtr_paid (W : Nat) (s : St) (p : Nat) : Paid W 0 s (s.setPtr p) := paid_of_same rfl rfl rfl rfl
theorem setGbl_paid (W : Nat) (s : St) (g : Nat) : Paid W 0 s (s.setGbl g) := paid_of_same rfl rfl rfl rfl

section
variable (bo : ByteOrder) (buf : List Nat)

theorem visitFields_work (W start wbl : Nat) (blk : List Access) (fs : List FieldA) (s : St) :
    Paid W fs.length s (visitFields start wbl blk fs s) := by
  induction fs generalizing s with
  | nil => exact paid_refl W s
  | cons f fs ih =>
    have h1 := readIf_paid W s f.isValue .field (start + f.off) f.size
    cases fs with
    | nil =>
      simp only [visitFields, List.length_cons, List.length_nil]
      exact paid_trans (paid_trans (paid_trans h1 (readAll_paid W _ blk)) (setPtr_paid W _ _)) (step_paid W _)
    | cons g gs =>
      have h4 := ih (((s.readIf f.isValue .field (start + f.off) f.size).setPtr (start + f.off + f.size)).step)
      simp only [visitFields, List.length_cons] at h4 ⊢
      exact paid_mono (paid_trans (paid_trans (paid_trans h1 (setPtr_paid W _ _)) (step_paid W _)) h4) (by omega)

theorem visitDatas_work (W start wbl : Nat) (blk : List Access) (first : Bool) (ds : List DataL) (s : St) :
    Paid W ds.length s (visitDatas bo buf start wbl blk first ds s).1 := by
  induction ds generalizing first s with
  | nil => exact paid_refl W s
  | cons d ds ih =>
    simp only [visitDatas, List.length_cons]
    have h0 : Paid W 0 s (if first then (s.readAll blk).setPtr (start + wbl) else s) := by
      cases first
      · exact paid_refl W s
      · exact paid_trans (readAll_paid W _ blk) (setPtr_paid W _ _)
    generalize (if first then (s.readAll blk).setPtr (start + wbl) else s) = s0 at h0 ⊢
    generalize rd bo buf s0.ptr d.lenSize = len
    generalize dataSizeBytes d.lenSize len = sb
    -- accessor, the callback itself, validation of the prefix
    have h1 : Paid W 1 s0 ((((s0.read .dataLength s0.ptr d.lenSize).setPtr (s0.ptr + sb)).step).validate d.lenSize) :=
      paid_trans (paid_trans (paid_trans (read_paid W _ _ _ _) (setPtr_paid W _ _)) (step_paid W _)) (validate_paid W _ _)
    -- `d.size()` and validation of the payload
    have h2 : Paid W 0 ((((s0.read .dataLength s0.ptr d.lenSize).setPtr (s0.ptr + sb)).step).validate d.lenSize)
        ((((((s0.read .dataLength s0.ptr d.lenSize).setPtr (s0.ptr + sb)).step).validate d.lenSize).read .dataLength s0.ptr
          d.lenSize).validate len) :=
      paid_trans (read_paid W _ _ _ _) (validate_paid W _ _)
    split
    · exact paid_mono (paid_trans h0 h1) (by omega)
    · split
      · exact paid_mono (paid_trans (paid_trans h0 h1) h2) (by omega)
      · exact paid_mono (paid_trans (paid_trans (paid_trans h0 h1) h2) (ih false _)) (by omega)


theorem loopE_work (W : Nat) (body : St → St × Bool)
    (hbody : ∀ s, s.valid = true → Paid W 0 s (body s).1 ∧ ((body s).2 = false → (body s).1.valid = true)) :
    ∀ k s, s.valid = true → Paid W 0 s (loopE none body k s) := by
  intro k
  induction k with
  | zero => intro s _; exact paid_refl W s
  | succ k ih =>
    intro s hv
    obtain ⟨hp, hstop⟩ := hbody s hv
    simp only [loopE, outOfFuel, Bool.false_eq_true, if_false]
    cases hr : (body s).2 with
    | true => simpa using hp
    | false =>
      simp only [Bool.false_eq_true, if_false]
      exact paid_trans hp (ih _ (hstop hr))

theorem wmax_members {W : Nat} {bl : Nat} {fs : List FieldA} {gs : List CGroup} {ds : List DataL}
    (h : (CLevel.mk bl fs gs ds).wmax ≤ W) : 1 + fs.length + gs.length + ds.length ≤ W ∧ wmaxGs gs ≤ W := by
  simp only [CLevel.wmax] at h
  omega

mutual
  theorem visitChildren_work (W : Nat) (l : CLevel) (hW : l.wmax ≤ W) (start wbl : Nat) (blk : List Access) (s : St) :
      Paid W (l.fields.length + l.groups.length + l.datas.length) s (visitChildren bo buf none l start wbl blk s).1 := by
    match l, hW with
    | .mk bl fs gs ds, hW =>
      obtain ⟨_, hWg⟩ := wmax_members hW
      simp only [visitChildren, CLevel.fields, CLevel.groups, CLevel.datas]
      have h1 := visitFields_work W start wbl blk fs s
      have h2 := visitGroups_work W gs hWg start wbl blk true (visitFields start wbl blk fs s)
      split
      · exact paid_mono (paid_trans h1 h2) (by omega)
      · exact paid_trans (paid_trans h1 h2) (visitDatas_work bo buf W start wbl blk gs.isEmpty ds _)
  theorem visitGroups_work (W : Nat) (gs : List CGroup) (hW : wmaxGs gs ≤ W) (start wbl : Nat) (blk : List Access)
      (first : Bool) (s : St) :
      Paid W gs.length s (visitGroups bo buf none gs start wbl blk first s).1 := by
    match gs, hW with
    | [], _ => simp only [visitGroups, List.length_nil]; exact paid_refl W s
    | g :: gs, hW =>
      have hWg : g.wmax ≤ W := by simp only [wmaxGs] at hW; omega
      have hWgs : wmaxGs gs ≤ W := by simp only [wmaxGs] at hW; omega
      simp only [visitGroups, List.length_cons]
      have h0 : Paid W 0 s (if first then (s.readAll blk).setPtr (start + wbl) else s) := by
        cases first
        · exact paid_refl W s
        · exact paid_trans (readAll_paid W _ blk) (setPtr_paid W _ _)
      generalize (if first then (s.readAll blk).setPtr (start + wbl) else s) = s0 at h0 ⊢
      have h1 := onGroup_work W g hWg s0.ptr (s0.setPtr (s0.ptr + g.dim.size))
      have h01 := paid_trans (paid_trans h0 (setPtr_paid W s0 (s0.ptr + g.dim.size))) h1
      split
      · exact paid_mono h01 (by omega)
      · exact paid_mono (paid_trans h01 (visitGroups_work W gs hWgs start wbl blk false _)) (by omega)
  theorem onGroup_work (W : Nat) (g : CGroup) (hW : g.wmax ≤ W) (p : Nat) (s : St) :
      Paid W 1 s (onGroup bo buf none g p s).1 := by
    match g, hW with
    | .mk dim l, hW =>
      simp only [onGroup]
      have h1 := paid_trans (step_paid W s) (validate_paid W s.step dim.size)
      split
      · exact h1
      · rename_i hv
        have hv1 : (s.step.validate dim.size).valid = true := by simpa using hv
        have hL := loopE_work W (fun t => onEntry bo buf none l (rd bo buf (p + dim.blOff) dim.blSize) t)
          (fun t tv => onEntry_work W l hW _ t tv) (rd bo buf (p + dim.numOff) dim.numSize)
          ((((s.step.validate dim.size).read .dimBlockLength (p + dim.blOff) dim.blSize).setGbl
              (rd bo buf (p + dim.blOff) dim.blSize)).read .dimBlockLength (p + dim.blOff) dim.blSize |>.read
              .dimNumInGroup (p + dim.numOff) dim.numSize) hv1
        have h2 : Paid W 0 (s.step.validate dim.size)
            ((((s.step.validate dim.size).read .dimBlockLength (p + dim.blOff) dim.blSize).setGbl
              (rd bo buf (p + dim.blOff) dim.blSize)).read .dimBlockLength (p + dim.blOff) dim.blSize |>.read
              .dimNumInGroup (p + dim.numOff) dim.numSize) := paid_of_same rfl rfl rfl rfl
        exact paid_trans (paid_trans (paid_trans h1 h2) hL) (setGbl_paid W _ _)
  theorem onEntry_work (W : Nat) (l : CLevel) (hW : l.wmax ≤ W) (bl : Nat) (s : St) (hv : s.valid = true) :
      Paid W 0 s (onEntry bo buf none l bl s).1 ∧
      ((onEntry bo buf none l bl s).2 = false → (onEntry bo buf none l bl s).1.valid = true) := by
    match l, hW with
    | .mk cbl fs gs ds, hW =>
      obtain ⟨hWm, _⟩ := wmax_members hW
      simp only [onEntry, onEntryWith]
      have h0 : Paid W 0 s (if (CLevel.mk cbl fs gs ds).emptyCtor then s.setPtr (s.ptr + bl) else s) ∧
          (if (CLevel.mk cbl fs gs ds).emptyCtor then s.setPtr (s.ptr + bl) else s).valid = true := by
        cases (CLevel.mk cbl fs gs ds).emptyCtor
        · exact ⟨paid_refl W s, hv⟩
        · exact ⟨setPtr_paid W _ _, hv⟩
      generalize (if (CLevel.mk cbl fs gs ds).emptyCtor then s.setPtr (s.ptr + bl) else s) = s0 at h0 ⊢
      obtain ⟨h0, hv0⟩ := h0
      have hstep : Phi W s0.step = Phi W s0 + 1 ∧ s0.step.zeroEntries = s0.zeroEntries ∧ s0.step.valid = true ∧
          s0.step.size = s0.size := by
        refine ⟨?_, rfl, hv0, rfl⟩
        have h1 : s0.step.steps = s0.steps + 1 := rfl
        have h2 : s0.step.size = s0.size := rfl
        have h3 : s0.step.valid = s0.valid := rfl
        unfold Phi; rw [h1, h2, h3]; omega
      obtain ⟨hst1, hst2, hst3, hst4⟩ := hstep
      by_cases hfit : s0.size < s0.gbl
      · -- the block does not fit: the callback is paid by the loss of validity
        have hfail := validate_phi_fail W s0.step s0.gbl hst3 (by rw [hst4]; exact hfit)
        have hbad : (s0.step.validate s0.gbl).valid = false := by
          simp [St.validate, vas, hst4, hfit]
        have hz : (s0.step.validate s0.gbl).zeroEntries = s0.zeroEntries := rfl
        simp only [hbad, Bool.and_false, St.noteZero, Bool.false_eq_true, if_false, Bool.not_false, if_true]
        refine ⟨?_, by simp⟩
        unfold Paid at h0 ⊢
        rw [hz]; omega
      · have hfitv := validate_phi_fit W s0.step s0.gbl (by rw [hst4]; exact hfit)
        have hval : (s0.step.validate s0.gbl).valid = true := by
          simp [St.validate, vas, hst4, hfit, hst3]
        have hz : (s0.step.validate s0.gbl).zeroEntries = s0.zeroEntries := rfl
        simp only [hval, Bool.and_true]
        have hn1 : ((s0.step.validate s0.gbl).noteZero (s0.gbl == 0)).valid = true := by
          cases (s0.gbl == 0) <;> exact hval
        have hn2 : Phi W ((s0.step.validate s0.gbl).noteZero (s0.gbl == 0)) = Phi W (s0.step.validate s0.gbl) := by
          cases (s0.gbl == 0) <;> rfl
        simp only [hn1, Bool.not_true, Bool.false_eq_true, if_false]
        have hC := visitChildren_work W (CLevel.mk cbl fs gs ds) hW s.ptr bl []
          ((s0.step.validate s0.gbl).noteZero (s0.gbl == 0))
        simp only [CLevel.fields, CLevel.groups, CLevel.datas] at hC
        refine ⟨?_, by simp⟩
        unfold Paid at h0 hC ⊢
        rw [hn2] at hC
        by_cases hk : s0.gbl = 0
        · have hz2 : ((s0.step.validate s0.gbl).noteZero (s0.gbl == 0)).zeroEntries = s0.zeroEntries + 1 := by
            simp [hk, St.noteZero]; rfl
          have hm : W * ((s0.step.validate s0.gbl).noteZero (s0.gbl == 0)).zeroEntries = W * s0.zeroEntries + W := by
            rw [hz2, Nat.mul_add, Nat.mul_one]
          have hk0 : W * s0.gbl = 0 := by rw [hk]; rfl
          omega
        · have hz2 : ((s0.step.validate s0.gbl).noteZero (s0.gbl == 0)).zeroEntries = s0.zeroEntries := by
            have : (s0.gbl == 0) = false := by simpa using hk
            rw [this]; rfl
          have hm : W * ((s0.step.validate s0.gbl).noteZero (s0.gbl == 0)).zeroEntries = W * s0.zeroEntries := by
            rw [hz2]
          have hWk : W ≤ W * s0.gbl := Nat.le_mul_of_pos_right W (by omega)
          omega
end


theorem steps_le_of_paid {W c n p : Nat} {s' : St} (h : Paid W c (initial n p) s') :
    s'.steps + W * s'.size ≤ W * n + W + W * s'.zeroEntries + c := by
  unfold Paid Phi at h
  simp only [initial, if_true, Nat.mul_zero, Nat.zero_add, Nat.add_zero] at h
  have : 0 ≤ (if s'.valid = true then W else 0) := Nat.zero_le _
  omega

theorem onMessage_work (m : CMsg) (s : St) :
    Paid m.level.wmax (1 + (m.level.fields.length + m.level.groups.length + m.level.datas.length)) s
      (onMessage bo buf none m s) := by
  unfold onMessage
  have h1 := paid_trans (step_paid m.level.wmax s) (validate_paid m.level.wmax s.step m.hdrSize)
  simp only []
  split
  · exact paid_mono h1 (by omega)
  · have h2 := paid_trans (paid_trans h1 (read_paid _ _ .hdrBlockLength m.blOff m.blSize))
      (validate_paid m.level.wmax _ (rd bo buf m.blOff m.blSize))
    split
    · exact paid_mono h2 (by omega)
    · exact paid_trans h2 (visitChildren_work bo buf m.level.wmax m.level (Nat.le_refl _) _ _ _ _)

theorem level_wmax_members (l : CLevel) : 1 + (l.fields.length + l.groups.length + l.datas.length) ≤ l.wmax := by
  cases l with
  | mk bl fs gs ds => simp only [CLevel.wmax, CLevel.fields, CLevel.groups, CLevel.datas]; omega

theorem runMsg_work (m : CMsg) (n : Nat) :
    (runMsg bo buf none m n).steps ≤ m.level.wmax * (n + 2 + (runMsg bo buf none m n).zeroEntries) := by
  unfold runMsg
  split
  · simp [rejected]
  · have h := steps_le_of_paid (onMessage_work bo buf m (initial n m.hdrSize))
    have hw := level_wmax_members m.level
    simp only [finish]
    rw [Nat.mul_add, Nat.mul_add]
    omega

theorem runGroup_work (g : CGroup) (n : Nat) :
    (runGroup bo buf none g n).steps ≤ g.wmax * (n + 2 + (runGroup bo buf none g n).zeroEntries) := by
  unfold runGroup
  split
  · simp [rejected]
  · have h := steps_le_of_paid (onGroup_work bo buf g.wmax g (Nat.le_refl _) 0 (initial n g.dim.size))
    have hw : 1 ≤ g.wmax := by
      cases g with
      | mk dim l => have := level_wmax_members l; simp only [CGroup.wmax]; omega
    simp only [finish]
    rw [Nat.mul_add, Nat.mul_add]
    omega
end

end Sbepp.Checked
