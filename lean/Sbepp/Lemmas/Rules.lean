/-
  C08 — lemmas relating the implementation model (`Schema/Rules.lean`) to the
  declarative specification (`Spec/Rules.lean`).
-/
import Sbepp.Schema.Rules
import Sbepp.Spec.Rules
import Sbepp.Lemmas.ResolveWF

namespace Sbepp.Schema.Rules
set_option linter.unusedSectionVars false
set_option linter.unusedSimpArgs false
open Sbepp Sbepp.Schema
open Sbepp.Spec.Rules (DiagClass Path)

/-! ### `from_chars` = the decimal-literal specification -/

theorem digitVal_some (c : Char) (d : Nat) :
    digitVal c = some d ↔ Spec.Rules.isDigitChar c = true ∧ d = Spec.Rules.digitOf c := by
  unfold digitVal Spec.Rules.isDigitChar Spec.Rules.digitOf
  by_cases h : '0' ≤ c ∧ c ≤ '9'
  · simp only [h, and_self, ↓reduceIte, Option.some.injEq, decide_true, Bool.and_self, true_and]
    constructor
    · intro h'; subst h'; rfl
    · intro h'; subst h'; rfl
  · simp only [h, ↓reduceIte, reduceCtorEq, Bool.and_eq_true, decide_eq_true_eq, false_and]

theorem digitVal_none (c : Char) : digitVal c = none ↔ Spec.Rules.isDigitChar c = false := by
  unfold digitVal Spec.Rules.isDigitChar
  by_cases h : '0' ≤ c ∧ c ≤ '9'
  · simp [h]
  · simp only [h, ↓reduceIte, true_iff]
    simp only [not_and] at h
    by_cases h0 : '0' ≤ c
    · simp [h0, h h0]
    · simp [h0]

theorem decValRev_snoc (l : List Char) (c : Char) :
    Spec.Rules.decValRev (l ++ [c]) = Spec.Rules.decValRev l + 10 ^ l.length * Spec.Rules.digitOf c := by
  induction l with
  | nil => simp [Spec.Rules.decValRev]
  | cons d r ih =>
    simp only [List.cons_append, Spec.Rules.decValRev, ih, List.length_cons, Nat.pow_succ]
    rw [Nat.mul_add]
    have : 10 * (10 ^ r.length * Spec.Rules.digitOf c) = 10 ^ r.length * 10 * Spec.Rules.digitOf c := by
      rw [← Nat.mul_assoc, Nat.mul_comm 10]
    omega

theorem decVal_cons (c : Char) (ds : List Char) :
    Spec.Rules.decVal (c :: ds) = Spec.Rules.digitOf c * 10 ^ ds.length + Spec.Rules.decVal ds := by
  unfold Spec.Rules.decVal
  rw [List.reverse_cons, decValRev_snoc, List.length_reverse, Nat.mul_comm]
  omega

theorem decVal_nil : Spec.Rules.decVal [] = 0 := rfl

/-- the accumulator loop computes the positional value, and succeeds exactly on digit strings -/
theorem parseDigits_spec (ds : List Char) (acc r : Nat) :
    parseDigits ds acc = some r ↔
      (∀ c ∈ ds, Spec.Rules.isDigitChar c = true) ∧ r = acc * 10 ^ ds.length + Spec.Rules.decVal ds := by
  induction ds generalizing acc with
  | nil => simp [parseDigits, decVal_nil]; exact eq_comm
  | cons c cs ih =>
    unfold parseDigits
    cases hd : digitVal c with
    | none =>
      have := (digitVal_none c).mp hd
      simp only [reduceCtorEq, List.mem_cons, forall_eq_or_imp, this, Bool.false_eq_true, false_and]
    | some d =>
      obtain ⟨hdig, rfl⟩ := (digitVal_some c d).mp hd
      simp only [ih, List.mem_cons, forall_eq_or_imp, hdig, true_and, List.length_cons, decVal_cons]
      constructor
      · rintro ⟨h1, rfl⟩
        refine ⟨h1, ?_⟩
        rw [Nat.pow_succ, Nat.add_mul]
        have : acc * 10 * 10 ^ cs.length = acc * (10 ^ cs.length * 10) := by
          rw [Nat.mul_assoc, Nat.mul_comm 10]
        omega
      · rintro ⟨h1, rfl⟩
        refine ⟨h1, ?_⟩
        rw [Nat.pow_succ, Nat.add_mul]
        have : acc * 10 * 10 ^ cs.length = acc * (10 ^ cs.length * 10) := by
          rw [Nat.mul_assoc, Nat.mul_comm 10]
        omega

theorem parseDigits_zero (ds : List Char) (r : Nat) :
    parseDigits ds 0 = some r ↔ (∀ c ∈ ds, Spec.Rules.isDigitChar c = true) ∧ r = Spec.Rules.decVal ds := by
  rw [parseDigits_spec]; simp

/-- range of a `bits`-wide integer type -/
def InRange (bits : Nat) (signed : Bool) (v : Int) : Prop :=
  if signed then -((2 ^ (bits - 1) : Nat) : Int) ≤ v ∧ v < ((2 ^ (bits - 1) : Nat) : Int)
  else 0 ≤ v ∧ v < ((2 ^ bits : Nat) : Int)

theorem minus_not_digit : Spec.Rules.isDigitChar '-' = false := by decide

/-- **parseNum_spec**: `from_chars` as modelled accepts exactly the decimal
    literals of the specification (optional `-` on signed types only, at least
    one digit, nothing else) whose value is in the range of the type, and
    returns that value. -/
theorem parseNumL_spec (cs : List Char) (bits : Nat) (signed : Bool) (v : Int) :
    parseNumL cs bits signed = some v ↔ Spec.Rules.IsIntLiteral signed cs v ∧ InRange bits signed v := by
  unfold Spec.Rules.IsIntLiteral
  match cs with
  | [] =>
    simp only [parseNumL, reduceCtorEq, false_iff, not_and]
    rintro ⟨neg, ds, h1, h2, _⟩
    cases neg <;> simp at h1
    exact absurd h1 h2
  | c :: rest =>
    by_cases hc : c = '-'
    · subst hc
      simp only [parseNumL]
      cases signed with
      | false =>
        simp only [Bool.false_eq_true, ↓reduceIte, reduceCtorEq, false_iff, not_and]
        rintro ⟨neg, ds, h1, h2, h3, h4, _⟩
        cases neg with
        | true => simp at h4
        | false =>
          simp only [Bool.false_eq_true, ↓reduceIte, List.nil_append] at h1
          subst h1
          have := h3 '-' (by simp)
          rw [minus_not_digit] at this
          exact absurd this (by decide)
      | true =>
        simp only [↓reduceIte]
        cases rest with
        | nil =>
          simp only [reduceCtorEq, false_iff, not_and]
          rintro ⟨neg, ds, h1, h2, h3, _⟩
          cases neg with
          | true =>
            simp only [↓reduceIte, List.cons_append, List.nil_append, List.cons.injEq, true_and] at h1
            exact absurd h1.symm h2
          | false =>
            simp only [Bool.false_eq_true, ↓reduceIte, List.nil_append] at h1
            subst h1
            have := h3 '-' (by simp)
            rw [minus_not_digit] at this
            exact absurd this (by decide)
        | cons d ds' =>
          simp only
          cases hp : parseDigits (d :: ds') 0 with
          | none =>
            simp only [reduceCtorEq, false_iff, not_and]
            rintro ⟨neg, ds, h1, h2, h3, _⟩
            cases neg with
            | true =>
              simp only [↓reduceIte, List.cons_append, List.nil_append, List.cons.injEq, true_and] at h1
              subst h1
              have : parseDigits (d :: ds') 0 = some (Spec.Rules.decVal (d :: ds')) :=
                (parseDigits_zero _ _).mpr ⟨h3, rfl⟩
              rw [hp] at this; cases this
            | false =>
              simp only [Bool.false_eq_true, ↓reduceIte, List.nil_append] at h1
              subst h1
              have := h3 '-' (by simp)
              rw [minus_not_digit] at this
              exact absurd this (by decide)
          | some m =>
            obtain ⟨hdig, rfl⟩ := (parseDigits_zero _ _).mp hp
            simp only [InRange, ↓reduceIte]
            constructor
            · intro h
              split at h
              · rename_i hle
                simp only [Option.some.injEq] at h
                subst h
                refine ⟨⟨true, d :: ds', by simp, by simp, hdig, by simp, by simp⟩, ?_, ?_⟩
                · have : ((Spec.Rules.decVal (d :: ds') : Nat) : Int) ≤ ((2 ^ (bits - 1) : Nat) : Int) := by exact_mod_cast hle
                  omega
                · have h0 : (0 : Int) < ((2 ^ (bits - 1) : Nat) : Int) := by
                    have := Nat.two_pow_pos (bits - 1)
                    exact_mod_cast this
                  have : (0 : Int) ≤ ((Spec.Rules.decVal (d :: ds') : Nat) : Int) := Int.natCast_nonneg _
                  omega
              · simp at h
            · rintro ⟨⟨neg, ds, h1, h2, h3, h4, h5⟩, hr1, hr2⟩
              cases neg with
              | false =>
                simp only [Bool.false_eq_true, ↓reduceIte, List.nil_append] at h1
                subst h1
                have := h3 '-' (by simp)
                rw [minus_not_digit] at this
                exact absurd this (by decide)
              | true =>
                simp only [↓reduceIte, List.cons_append, List.nil_append, List.cons.injEq, true_and] at h1
                subst h1
                simp only [↓reduceIte] at h5
                subst h5
                have hle : Spec.Rules.decVal (d :: ds') ≤ 2 ^ (bits - 1) := by
                  have : ((Spec.Rules.decVal (d :: ds') : Nat) : Int) ≤ ((2 ^ (bits - 1) : Nat) : Int) := by omega
                  exact_mod_cast this
                simp [hle]
    · -- no sign
      have hmatch : parseNumL (c :: rest) bits signed =
          (match parseDigits (c :: rest) 0 with
           | some m => if m < (if signed then 2 ^ (bits - 1) else 2 ^ bits) then some (m : Int) else none
           | none => none) := by
        unfold parseNumL
        split
        · rename_i h; cases h
        · rename_i h; simp only [List.cons.injEq] at h; exact absurd h.1 hc
        · rfl
      rw [hmatch]
      cases hp : parseDigits (c :: rest) 0 with
      | none =>
        simp only [reduceCtorEq, false_iff, not_and]
        rintro ⟨neg, ds, h1, h2, h3, _⟩
        cases neg with
        | true =>
          simp only [↓reduceIte, List.cons_append, List.nil_append, List.cons.injEq] at h1
          exact absurd h1.1 hc
        | false =>
          simp only [Bool.false_eq_true, ↓reduceIte, List.nil_append] at h1
          subst h1
          have : parseDigits (c :: rest) 0 = some (Spec.Rules.decVal (c :: rest)) :=
            (parseDigits_zero _ _).mpr ⟨h3, rfl⟩
          rw [hp] at this; cases this
      | some m =>
        obtain ⟨hdig, rfl⟩ := (parseDigits_zero _ _).mp hp
        have hnn : (0 : Int) ≤ ((Spec.Rules.decVal (c :: rest) : Nat) : Int) := Int.natCast_nonneg _
        have hlit : ∀ w : Int, (Spec.Rules.IsIntLiteral signed (c :: rest) w ↔ w = ((Spec.Rules.decVal (c :: rest) : Nat) : Int)) := by
          intro w
          constructor
          · rintro ⟨neg, ds, h1, h2, h3, h4, h5⟩
            cases neg with
            | true =>
              simp only [↓reduceIte, List.cons_append, List.nil_append, List.cons.injEq] at h1
              exact absurd h1.1 hc
            | false =>
              simp only [Bool.false_eq_true, ↓reduceIte, List.nil_append] at h1
              subst h1
              simpa using h5
          · intro h
            exact ⟨false, c :: rest, by simp, by simp, hdig, by simp, by simpa using h⟩
        unfold Spec.Rules.IsIntLiteral at hlit
        rw [hlit v]
        unfold InRange
        cases signed with
        | true =>
          simp only [↓reduceIte]
          constructor
          · intro h
            split at h
            · rename_i hlt
              simp only [Option.some.injEq] at h
              subst h
              have : ((Spec.Rules.decVal (c :: rest) : Nat) : Int) < ((2 ^ (bits - 1) : Nat) : Int) := by exact_mod_cast hlt
              have h1 : (0 : Int) ≤ ((2 ^ (bits - 1) : Nat) : Int) := Int.natCast_nonneg _
              exact ⟨rfl, by omega, this⟩
            · cases h
          · rintro ⟨rfl, _, h2⟩
            have hlt : Spec.Rules.decVal (c :: rest) < 2 ^ (bits - 1) := by exact_mod_cast h2
            simp [hlt]
        | false =>
          simp only [Bool.false_eq_true, ↓reduceIte]
          constructor
          · intro h
            split at h
            · rename_i hlt
              simp only [Option.some.injEq] at h
              subst h
              have : ((Spec.Rules.decVal (c :: rest) : Nat) : Int) < ((2 ^ bits : Nat) : Int) := by exact_mod_cast hlt
              exact ⟨rfl, hnn, this⟩
            · cases h
          · rintro ⟨rfl, _, h2⟩
            have hlt : Spec.Rules.decVal (c :: rest) < 2 ^ bits := by exact_mod_cast h2
            simp [hlt]

/-! ### the error monad -/

theorem need_ok (c : Bool) (cls : DiagClass) (p : Path) (x : Unit) : need c cls p = .ok x ↔ c = true := by
  unfold need; cases c <;> simp [fail]

theorem need_err (c : Bool) (cls : DiagClass) (p : Path) (d : Diag) :
    need c cls p = .error d ↔ c = false ∧ d = { cls := cls, loc := p } := by
  unfold need; cases c <;> simp [fail, eq_comm]

theorem bind_ok {α β} (x : R α) (f : α → R β) (b : β) :
    (x >>= f) = .ok b ↔ ∃ a, x = .ok a ∧ f a = .ok b := by
  cases x <;> simp [bind, Except.bind]

theorem bind_err {α β} (x : R α) (f : α → R β) (d : Diag) :
    (x >>= f) = .error d ↔ x = .error d ∨ ∃ a, x = .ok a ∧ f a = .error d := by
  cases x <;> simp [bind, Except.bind]

theorem allOk_ok {α} (f : α → R Unit) (l : List α) (u : Unit) : allOk f l = .ok u ↔ ∀ x ∈ l, f x = .ok () := by
  induction l with
  | nil => simp [allOk]
  | cons x xs ih =>
    unfold allOk
    cases h : f x with
    | error d => simp [h]
    | ok u => cases u; simp [ih, h]

theorem allOk_err {α} (f : α → R Unit) (l : List α) (d : Diag) (h : allOk f l = .error d) :
    ∃ x ∈ l, f x = .error d := by
  induction l with
  | nil => simp [allOk] at h
  | cons x xs ih =>
    unfold allOk at h
    cases hx : f x with
    | error d' =>
      rw [hx] at h
      simp only [Except.error.injEq] at h
      subst h
      exact ⟨x, by simp, hx⟩
    | ok u =>
      rw [hx] at h
      obtain ⟨y, hy, hfy⟩ := ih h
      exact ⟨y, by simp [hy], hfy⟩

/-! ### the tables of the model are those of the specification -/

theorem lookup_eq (types : List Elem) (n : String) : lookup types n = Spec.Rules.findType types n := by
  unfold lookup Spec.Rules.findType
  congr 1

theorem primSize_eq (p : String) : primSize? p = Spec.Rules.primBytes p := by
  unfold primSize? Spec.Rules.primBytes
  split <;> simp_all

theorem isPrimitive_eq (p : String) : isPrimitive p = Spec.Rules.isPrim p := by
  unfold isPrimitive Spec.Rules.isPrim; rw [primSize_eq]

theorem isConst_eq (types : List Elem) (e : Elem) :
    Schema.isConstElem types e = Spec.Rules.isConstElem types e := by
  cases e with
  | ref n ty o a =>
    simp only [Schema.isConstElem, Spec.Rules.isConstElem, lookup_eq]
    cases Spec.Rules.findType types ty with
    | none => rfl
    | some t => cases t <;> rfl
  | _ => rfl

theorem offset_eq (e : Elem) : e.offset = Spec.Rules.elemOffset e := by
  cases e <;> rfl

theorem lookup_mem (types : List Elem) (n : String) (t : Elem) (h : lookup types n = some t) : t ∈ types := by
  unfold lookup at h
  exact List.mem_of_find?_eq_some h

/-! ### sizes: monotone in the unfolding depth -/

open Spec.Rules in
mutual
  theorem sizeWith_mono (types : List Elem) (j j' : Elem → Option Nat)
      (hj : ∀ t m, j t = some m → j' t = some m) :
      ∀ (e : Elem) (n : Nat), sizeWith types j e = some n → sizeWith types j' e = some n
    | .type t, n, h => by simpa [sizeWith] using h
    | .enum _ _ _ _ _, n, h => by simpa [sizeWith] using h
    | .set _ _ _ _ _, n, h => by simpa [sizeWith] using h
    | .ref _ ty _ _, n, h => by
      simp only [sizeWith] at h ⊢
      cases hf : findType types ty with
      | none => simp [hf] at h
      | some t =>
        simp only [hf, Option.bind_some] at h ⊢
        exact hj t n h
    | .composite _ _ elems _, n, h => by
      simp only [sizeWith] at h ⊢
      exact endWith_mono types j j' hj elems 0 n h
  theorem endWith_mono (types : List Elem) (j j' : Elem → Option Nat)
      (hj : ∀ t m, j t = some m → j' t = some m) :
      ∀ (elems : List Elem) (cur n : Nat), endWith types j cur elems = some n → endWith types j' cur elems = some n
    | [], cur, n, h => by simpa [endWith] using h
    | e :: rest, cur, n, h => by
      simp only [endWith] at h ⊢
      by_cases hc : Spec.Rules.isConstElem types e = true
      · simp only [hc, ↓reduceIte] at h ⊢
        exact endWith_mono types j j' hj rest cur n h
      · simp only [hc, Bool.false_eq_true, ↓reduceIte] at h ⊢
        cases hs : sizeWith types j e with
        | none => simp [hs] at h
        | some sz =>
          simp only [hs] at h
          rw [sizeWith_mono types j j' hj e sz hs]
          exact endWith_mono types j j' hj rest _ n h
end

theorem sizeK_succ (types : List Elem) (k : Nat) (e : Elem) (n : Nat)
    (h : Spec.Rules.sizeK types k e = some n) : Spec.Rules.sizeK types (k + 1) e = some n := by
  induction k generalizing e n with
  | zero => simp [Spec.Rules.sizeK] at h
  | succ k ih =>
    simp only [Spec.Rules.sizeK] at h ⊢
    exact sizeWith_mono types _ _ (fun t m hm => ih t m hm) e n h

theorem sizeK_mono (types : List Elem) (k k' : Nat) (hk : k ≤ k') (e : Elem) (n : Nat)
    (h : Spec.Rules.sizeK types k e = some n) : Spec.Rules.sizeK types k' e = some n := by
  induction hk with
  | refl => exact h
  | step _ ih => exact sizeK_succ types _ e n ih

/-! ### literals: the model's `value_fits_into_type` is the specification's `representable` -/

section Literals
open Sbepp.Spec.Rules

theorem intLiteral?_spec (allow : Bool) (cs : List Char) (v : Int) :
    intLiteral? allow cs = some v ↔ IsIntLiteral allow cs v := by
  unfold IsIntLiteral
  match cs with
  | [] =>
    simp only [intLiteral?, reduceCtorEq, false_iff]
    rintro ⟨neg, ds, h1, h2, _⟩
    cases neg <;> simp at h1
    exact absurd h1 h2
  | c :: rest =>
    by_cases hc : c = '-'
    · subst hc
      simp only [intLiteral?]
      constructor
      · intro h
        split at h
        · rename_i hcond
          simp only [Bool.and_eq_true, Bool.not_eq_eq_eq_not, Bool.not_true, List.isEmpty_eq_false_iff, List.all_eq_true] at hcond
          simp only [Option.some.injEq] at h
          exact ⟨true, rest, by simp, hcond.1.2, hcond.2, fun _ => hcond.1.1, by simp [h]⟩
        · cases h
      · rintro ⟨neg, ds, h1, h2, h3, h4, h5⟩
        cases neg with
        | false =>
          simp only [Bool.false_eq_true, ↓reduceIte, List.nil_append] at h1
          subst h1
          have := h3 '-' (by simp)
          rw [minus_not_digit] at this
          exact absurd this (by decide)
        | true =>
          simp only [↓reduceIte, List.cons_append, List.nil_append, List.cons.injEq, true_and] at h1
          subst h1
          have hall : rest.all isDigitChar = true := by simpa [List.all_eq_true] using h3
          have hne : rest.isEmpty = false := by simpa using h2
          simp only [↓reduceIte] at h5
          simp [h4 rfl, hall, hne, h5]
    · have hmatch : intLiteral? allow (c :: rest) =
          if (c :: rest).all isDigitChar then some ((decVal (c :: rest) : Nat) : Int) else none := by
        unfold intLiteral?
        split
        · rename_i h; cases h
        · rename_i h; simp only [List.cons.injEq] at h; exact absurd h.1 hc
        · rfl
      rw [hmatch]
      constructor
      · intro h
        split at h
        · rename_i hall
          simp only [Option.some.injEq] at h
          refine ⟨false, c :: rest, by simp, by simp, ?_, by simp, by simp [h]⟩
          simpa [List.all_eq_true] using hall
        · cases h
      · rintro ⟨neg, ds, h1, h2, h3, h4, h5⟩
        cases neg with
        | true =>
          simp only [↓reduceIte, List.cons_append, List.nil_append, List.cons.injEq] at h1
          exact absurd h1.1 hc
        | false =>
          simp only [Bool.false_eq_true, ↓reduceIte, List.nil_append] at h1
          subst h1
          simp only [Bool.false_eq_true, ↓reduceIte] at h5
          have hall : (c :: rest).all isDigitChar = true := by simpa [List.all_eq_true] using h3
          simp [hall, h5]

theorem intTy_cases (prim : String) (ty : Nat × Bool) (h : intTy prim = some ty) :
    ∃ lo hi, intRange prim = some (lo, hi) ∧ decide (lo < 0) = ty.2 ∧
      ∀ v : Int, InRange ty.1 ty.2 v ↔ (lo ≤ v ∧ v ≤ hi) := by
  unfold intTy at h
  split at h
  all_goals cases h
  all_goals
    refine ⟨_, _, rfl, by decide, ?_⟩
    intro v
    simp only [InRange, ↓reduceIte, Bool.false_eq_true, Nat.reduceSub, Nat.reducePow, Int.reduceNeg]
    omega

/-- the floating-point literal acceptance of the model (`strtof/strtod` transliteration)
    coincides with the specification's; checked differentially only -/
def FpAgree : Prop := ∀ lit : String,
  canBeParsedAsFp false lit = fpRepresentable fpFloat lit ∧ canBeParsedAsFp true lit = fpRepresentable fpDouble lit

theorem intFits_eq (prim : String) (ty : Nat × Bool) (h : intTy prim = some ty) (v : String) :
    (parseNum v ty).isSome = intRepresentable prim v := by
  obtain ⟨lo, hi, hr, hs, hin⟩ := intTy_cases prim ty h
  unfold intRepresentable parseNum
  rw [hr]
  simp only [hs]
  cases hl : intLiteral? ty.2 v.toList with
  | none =>
    simp only
    cases hp : parseNumL v.toList ty.1 ty.2 with
    | none => rfl
    | some w =>
      have := (parseNumL_spec _ _ _ _).mp hp
      have := (intLiteral?_spec _ _ _).mpr this.1
      rw [hl] at this; cases this
  | some w =>
    simp only
    have hw := (intLiteral?_spec _ _ _).mp hl
    by_cases hrange : lo ≤ w ∧ w ≤ hi
    · have : parseNumL v.toList ty.1 ty.2 = some w := (parseNumL_spec _ _ _ _).mpr ⟨hw, (hin w).mpr hrange⟩
      simp [this, hrange.1, hrange.2]
    · cases hp : parseNumL v.toList ty.1 ty.2 with
      | none =>
        simp only [Option.isSome_none]
        by_cases h1 : lo ≤ w
        · have h2 : ¬ w ≤ hi := fun h2 => hrange ⟨h1, h2⟩
          simp [h1, h2]
        · simp [h1]
      | some w' =>
        have := (parseNumL_spec _ _ _ _).mp hp
        have hw' := (intLiteral?_spec _ _ _).mpr this.1
        rw [hl] at hw'
        simp only [Option.some.injEq] at hw'
        subst hw'
        exact absurd ((hin w).mp this.2) hrange

theorem valueFits_eq (hfp : FpAgree) (prim v : String) (hp : isPrim prim = true) :
    valueFitsIntoType v prim = representable prim v := by
  unfold valueFitsIntoType representable
  by_cases he : v.isEmpty = true
  · have hv : v = "" := String.isEmpty_iff.mp he
    subst hv
    have h1 := (hfp "").1
    have h2 := (hfp "").2
    have c1 : canBeParsedAsFp false "" = false := by decide
    have c2 : canBeParsedAsFp true "" = false := by decide
    simp only [he, ↓reduceIte]
    by_cases hf : prim = "float"
    · subst hf; simp [← h1, c1]
    · by_cases hd : prim = "double"
      · subst hd; simp [← h2, c2]
      · simp only [beq_iff_eq, hf, ↓reduceIte, hd]
        unfold intRepresentable
        cases intRange prim with
        | none => rfl
        | some r => obtain ⟨lo, hi⟩ := r; simp [intLiteral?]
  · simp only [he, Bool.false_eq_true, ↓reduceIte]
    cases hi : intTy prim with
    | some ty =>
      have hf : prim ≠ "float" := by intro h; subst h; simp [intTy] at hi
      have hd : prim ≠ "double" := by intro h; subst h; simp [intTy] at hi
      simp only [beq_iff_eq, hf, ↓reduceIte, hd]
      exact intFits_eq prim ty hi v
    | none =>
      simp only
      by_cases hf : prim = "float"
      · subst hf; simp [(hfp v).1]
      · by_cases hd : prim = "double"
        · subst hd; simp [(hfp v).2]
        · exfalso
          unfold isPrim primBytes at hp
          unfold intTy at hi
          split at hp <;> simp_all

end Literals

section Local
open Sbepp.Spec.Rules

/-! ### names, value references, the rules of one encoding -/

theorem find?_not_isNone {α} (p : α → Bool) (l : List α) : (l.find? (fun x => !p x)).isNone = l.all p := by
  induction l with
  | nil => rfl
  | cons x xs ih =>
    simp only [List.find?, List.all_cons]
    cases h : p x <;> simp [ih]

theorem symbolic_eq (n : String) : isSbeSymbolicName n = symbolicName n := by
  unfold isSbeSymbolicName symbolicName
  cases n.toList with
  | nil => rfl
  | cons c cs =>
    simp only
    cases hd : c.isDigit
    · simp only [Bool.false_eq_true, ↓reduceIte, Bool.not_false, Bool.true_and]
      exact find?_not_isNone _ _
    · simp

theorem keywords_same : ∀ k : String, Rules.cppKeywords.contains k = Spec.Rules.cppKeywords.contains k := by
  have h1 : Rules.cppKeywords.all (fun k => Spec.Rules.cppKeywords.contains k) = true := by decide
  have h2 : Spec.Rules.cppKeywords.all (fun k => Rules.cppKeywords.contains k) = true := by decide
  intro k
  rw [List.all_eq_true] at h1 h2
  cases ha : Rules.cppKeywords.contains k with
  | true =>
    have := h1 k (by simpa using ha)
    exact this.symm
  | false =>
    cases hb : Spec.Rules.cppKeywords.contains k with
    | false => rfl
    | true =>
      have := h2 k (by simpa using hb)
      rw [ha] at this; cases this

theorem keyword_eq (n : String) : isCppKeyword n = isKeyword n := keywords_same n

theorem vName_ok (n : String) (p : Path) (x : Unit) : vName n p = .ok x ↔ symbolicName n = true := by
  unfold vName; rw [need_ok, symbolic_eq]

/-! value references -/

theorem splitAt?_takeWhile (cs : List Char) :
    splitAt? (· == '.') cs =
      (if (cs.takeWhile (· != '.')).length = cs.length then none
       else some (cs.takeWhile (· != '.'), cs.drop ((cs.takeWhile (· != '.')).length + 1))) := by
  induction cs with
  | nil => rfl
  | cons c cs ih =>
    unfold splitAt?
    by_cases hc : c = '.'
    · subst hc; simp
    · have h1 : (c == '.') = false := by simpa using hc
      have h2 : (c != '.') = true := by simpa using hc
      simp only [h1, Bool.false_eq_true, ↓reduceIte, ih, List.takeWhile_cons, h2, List.length_cons,
        Nat.add_right_cancel_iff, List.drop_succ_cons]
      split <;> simp

theorem findValueRef_eq (types : List Elem) (r : String) (p : Path) :
    findValueRef types r p =
      match resolveValueRef types r with
      | .ok x => .ok x
      | .error c => fail c p := by
  unfold findValueRef resolveValueRef splitValueRef parseValueRef
  rw [splitAt?_takeWhile]
  simp only [lookup_eq]
  by_cases hlen : (r.toList.takeWhile (· != '.')).length = r.toList.length
  · simp [hlen]
  · simp only [hlen, ↓reduceIte]
    split
    · simp
    · cases hf : findType types (String.ofList (List.takeWhile (fun x => x != '.') r.toList)) with
      | none => simp [hf]
      | some t =>
        cases t with
        | enum n enc o vs a =>
          simp only [hf]
          cases vs.find? _ <;> rfl
        | _ => simp [hf]

theorem findType_mem (types : List Elem) (n : String) (t : Elem) (h : findType types n = some t) : t ∈ types := by
  unfold findType at h
  exact List.mem_of_find?_eq_some h

theorem enumPrim_eq (types : List Elem) (enc : String) :
    getEnumPrimitiveType types enc = (underlyingPrim types enc).getD enc := by
  unfold getEnumPrimitiveType underlyingPrim
  rw [isPrimitive_eq, lookup_eq]
  by_cases hp : isPrim enc = true
  · simp [hp]
  · simp only [hp, Bool.not_false, ↓reduceIte, Bool.false_eq_true]
    cases findType types enc with
    | none => rfl
    | some t => cases t <;> rfl

theorem valueRefFits_eq (hfp : FpAgree) (types : List Elem) (r n enc prim : String)
    (v : ValidValue) (_hr : resolveValueRef types r = .ok (n, enc, v)) (hp : isPrim prim = true) :
    valueRefFitsIntoType types enc v prim =
      representable prim (enumValueLiteral ((underlyingPrim types enc).getD enc) v.value) := by
  unfold valueRefFitsIntoType enumValueLiteral firstCharAsIntString
  rw [enumPrim_eq]
  by_cases hc : ((underlyingPrim types enc).getD enc == "char") = true
  · simp only [hc, ↓reduceIte]
    rw [valueFits_eq hfp _ _ hp]
    congr 1
  · simp only [hc, Bool.false_eq_true, ↓reduceIte]
    rw [valueFits_eq hfp _ _ hp]

theorem vOptionalValue_ok (hfp : FpAgree) (v : Option String) (prim : String) (p : Path) (hp : isPrim prim = true)
    (x : Unit) :
    vOptionalValue v prim p = .ok x ↔ ∀ lit, v = some lit → representable prim lit = true := by
  unfold vOptionalValue
  cases v with
  | none => simp
  | some x => simp [need_ok, valueFits_eq hfp _ _ hp]


theorem singleByte_eq (prim : String) (hp : isPrim prim = true) : isSingleByteType prim = isSingleBytePrim prim := by
  unfold isSingleByteType isSingleBytePrim
  unfold isPrim primBytes at hp
  unfold primBytes
  split at hp <;> simp_all

theorem vConstantValue_ok (hfp : FpAgree) (types : List Elem) (p : Path) (t : TypeDef)
    (hp : isPrim t.prim = true) (x : Unit) :
    vConstantValue types p t = .ok x ↔ constViols types p t = [] := by
  unfold constViols
  unfold vConstantValue
  simp only [bind_ok, need_ok, List.append_eq_nil_iff]
  cases hv : t.valueRef with
  | none =>
    cases hc : t.constValue with
    | none => simp
    | some c =>
      simp only [Option.isSome_none, Option.isSome_some, Bool.false_bne, exists_const, Option.getD_some,
        Bool.false_or, true_and]
      by_cases hch : t.prim = "char"
      · simp [hch, need_ok]
      · have : (t.prim == "char") = false := by simpa using hch
        simp [this, need_ok, valueFits_eq hfp _ _ hp]
        intro _; simp [hch]
  | some r =>
    cases hc : t.constValue with
    | some c => simp
    | none =>
      simp only [Option.isSome_some, Option.isSome_none, Bool.true_bne, Bool.not_false, exists_const, Bool.true_or,
        Bool.true_and, true_and]
      rw [findValueRef_eq]
      unfold valueRefViols
      cases hr : resolveValueRef types r with
      | error c => simp [fail, bind, Except.bind]
      | ok x =>
        obtain ⟨n, enc, v⟩ := x
        simp only [bind, Except.bind, need_ok]
        rw [valueRefFits_eq hfp types r n enc t.prim v hr hp]
        cases representable t.prim (enumValueLiteral ((underlyingPrim types enc).getD enc) v.value) <;> simp


theorem filterMap_lits_nil (prim : String) (p : Path) (l : List (Option String)) :
    l.filterMap (litViol prim p) = [] ↔ ∀ lit, some lit ∈ l → representable prim lit = true := by
  rw [List.filterMap_eq_nil_iff]
  constructor
  · intro h lit hm
    have := h (some lit) hm
    simp only [litViol] at this
    split at this <;> simp_all
  · intro h v hv
    cases v with
    | none => rfl
    | some lit => simp [litViol, h lit hv]

theorem vType_ok (hfp : FpAgree) (types : List Elem) (p : Path) (t : TypeDef) (n : Nat) :
    vType types p t = .ok n ↔
      symbolicName t.name = true ∧ typeViols types p t = [] ∧ t.length * (primBytes t.prim).getD 0 = n := by
  unfold vType typeViols
  simp only [bind_ok, vName_ok, need_ok, isPrimitive_eq, primSize_eq, exists_const, Except.ok.injEq]
  by_cases hp : isPrim t.prim = true
  · simp only [hp, true_and, Bool.not_true, Bool.false_eq_true, ↓reduceIte]
    by_cases hc : (t.presence == Presence.constant) = true
    · simp only [hc, ↓reduceIte, vConstantValue_ok hfp types p t hp _, exists_const]
    · simp only [hc, Bool.false_eq_true, ↓reduceIte]
      by_cases hl : (t.length == 1) = true
      · simp only [hl, ↓reduceIte, bind_ok, vOptionalValue_ok hfp _ _ _ hp _, exists_const, filterMap_lits_nil]
        by_cases ho : (t.presence == Presence.optional) = true
        · simp only [ho, ↓reduceIte, vOptionalValue_ok hfp _ _ _ hp _, exists_const, List.mem_append, List.mem_cons,
            List.not_mem_nil, or_false]
          constructor
          · rintro ⟨h1, ⟨h2, h3, h4⟩, h5⟩
            refine ⟨h1, ?_, h5⟩
            rintro lit ((h | h) | h)
            · exact h2 lit h.symm
            · exact h3 lit h.symm
            · exact h4 lit h.symm
          · rintro ⟨h1, h2, h5⟩
            exact ⟨h1, ⟨fun lit h => h2 lit (Or.inl (Or.inl h.symm)), fun lit h => h2 lit (Or.inl (Or.inr h.symm)),
              fun lit h => h2 lit (Or.inr h.symm)⟩, h5⟩
        · simp only [ho, Bool.false_eq_true, ↓reduceIte, exists_const, List.append_nil, List.mem_cons,
            List.not_mem_nil, or_false]
          constructor
          · rintro ⟨h1, ⟨h2, h3, _⟩, h5⟩
            refine ⟨h1, ?_, h5⟩
            rintro lit (h | h)
            · exact h2 lit h.symm
            · exact h3 lit h.symm
          · rintro ⟨h1, h2, h5⟩
            exact ⟨h1, ⟨fun lit h => h2 lit (Or.inl h.symm), fun lit h => h2 lit (Or.inr h.symm), trivial⟩, h5⟩
      · simp only [hl, Bool.false_eq_true, ↓reduceIte, need_ok, singleByte_eq _ hp, exists_const]
        cases isSingleBytePrim t.prim <;> simp
  · simp [hp]


theorem isIntegral_eq (t : String) : isIntegralType t = isIntegralPrim t := by
  unfold isIntegralType isIntegralPrim intRange
  split <;> simp_all

theorem isUnsigned_eq (t : String) : isUnsignedPrimitiveType t = isUnsignedPrim t := by
  unfold isUnsignedPrimitiveType isUnsignedPrim
  simp only [List.contains, List.elem]
  cases (t == "uint8") <;> cases (t == "uint16") <;> cases (t == "uint32") <;> cases (t == "uint64") <;> rfl

theorem integral_isPrim (t : String) (h : isIntegralPrim t = true) : isPrim t = true := by
  unfold isIntegralPrim intRange at h
  unfold isPrim primBytes
  split at h <;> simp_all

theorem unsigned_size (t : String) (h : isUnsignedPrim t = true) : ∃ k, primBytes t = some k ∧ 1 ≤ k := by
  unfold isUnsignedPrim at h
  simp only [Bool.or_eq_true, beq_iff_eq] at h
  rcases h with ((h | h) | h) | h <;> subst h
  · exact ⟨1, rfl, by omega⟩
  · exact ⟨2, rfl, by omega⟩
  · exact ⟨4, rfl, by omega⟩
  · exact ⟨8, rfl, by omega⟩

theorem integral_size (t : String) (h : isIntegralPrim t = true) : ∃ k, primBytes t = some k := by
  have := integral_isPrim t h
  unfold isPrim at this
  exact Option.isSome_iff_exists.mp this

theorem vEncodingType_eq (types : List Elem) (p : Path) (enc : String) :
    vEncodingType types p enc =
      match resolveEncodingType types enc with
      | .ok pr => .ok pr
      | .error c => fail c p := by
  unfold vEncodingType resolveEncodingType
  simp only [isPrimitive_eq, lookup_eq]
  by_cases hp : isPrim enc = true
  · simp [hp]
  · simp only [hp, Bool.false_eq_true, ↓reduceIte]
    cases hf : findType types enc with
    | none => rfl
    | some t =>
      cases t with
      | type t => simp only; split <;> rfl
      | _ => rfl

theorem resolveEncodingType_underlying (types : List Elem) (enc prim : String)
    (h : resolveEncodingType types enc = .ok prim) : underlyingPrim types enc = some prim := by
  unfold resolveEncodingType at h
  unfold underlyingPrim
  by_cases hp : isPrim enc = true
  · simp only [hp, ↓reduceIte, Except.ok.injEq] at h ⊢; rw [h]
  · simp only [hp, Bool.false_eq_true, ↓reduceIte] at h ⊢
    cases hf : findType types enc with
    | none => simp [hf] at h
    | some t =>
      cases t with
      | type t =>
        simp only [hf] at h ⊢
        split at h
        · cases h
        · simp only [Except.ok.injEq] at h; rw [h]
      | _ => simp [hf] at h

theorem vValidValue_ok (hfp : FpAgree) (prim : String) (hi : isIntegralPrim prim = true) (p : Path) (v : ValidValue)
    (x : Unit) :
    vValidValue prim p v = .ok x ↔ symbolicName v.name = true ∧ validValueViol prim p v = none := by
  unfold vValidValue validValueViol
  simp only [bind_ok, vName_ok, need_ok, exists_const]
  rw [valueFits_eq hfp _ _ (integral_isPrim _ hi)]
  by_cases hc : prim = "char"
  · subst hc
    simp
  · have : (prim == "char") = false := by simpa using hc
    simp [this]

theorem vChoice_ok (prim : String) (k : Nat) (hk : primBytes prim = some k) (hk1 : 1 ≤ k) (p : Path) (c : Choice) (x : Unit) :
    vChoice (k * 8 - 1) p c = .ok x ↔ symbolicName c.name = true ∧ choiceViol prim p c = none := by
  unfold vChoice choiceViol
  simp only [bind_ok, vName_ok, need_ok, exists_const, hk, Option.getD_some]
  have : (!decide (c.index > k * 8 - 1)) = true ↔ c.index < 8 * k := by
    simp only [Bool.not_eq_eq_eq_not, Bool.not_true, decide_eq_false_iff_not]; omega
  rw [this]
  by_cases h : c.index < 8 * k <;> simp [h]

theorem repeats_cons_nil {α} (key : α → String) (seen : List String) (x : α) (xs : List α) :
    repeats key seen (x :: xs) = [] ↔ key x ∉ seen ∧ repeats key (key x :: seen) xs = [] := by
  by_cases hm : key x ∈ seen
  · simp [repeats, hm]
  · simp [repeats, hm]

theorem repeatsNat_cons_nil {α} (key : α → Nat) (seen : List Nat) (x : α) (xs : List α) :
    repeatsNat key seen (x :: xs) = [] ↔ key x ∉ seen ∧ repeatsNat key (key x :: seen) xs = [] := by
  by_cases hm : key x ∈ seen
  · simp [repeatsNat, hm]
  · simp [repeatsNat, hm]

theorem not_contains {α} [BEq α] [LawfulBEq α] (l : List α) (x : α) (h : x ∉ l) : (!l.contains x) = true := by
  simpa using h

theorem normalized_eq (prim : String) (v : ValidValue) : normalizedEnumValue prim v = enumValueKey prim v := by
  unfold normalizedEnumValue enumValueKey stripLeadingZeros canonInt
  rfl

theorem vValidValues_ok (hfp : FpAgree) (prim : String) (hi : isIntegralPrim prim = true) (p : Path) :
    ∀ (vs : List ValidValue) (seen : List String) (u : Unit),
      vValidValues prim p seen vs = .ok u ↔
        (∀ v ∈ vs, symbolicName v.name = true ∧ validValueViol prim p v = none) ∧
        repeats (enumValueKey prim) seen vs = [] := by
  intro vs
  induction vs with
  | nil => intro seen u; simp [vValidValues, repeats]
  | cons v rest ih =>
    intro seen u
    simp only [vValidValues, bind_ok, vValidValue_ok hfp prim hi p, need_ok, exists_const, ih, normalized_eq,
      repeats_cons_nil, List.mem_cons, forall_eq_or_imp]
    constructor
    · rintro ⟨h1, h2, h3, h4⟩
      exact ⟨⟨h1, h3⟩, by simpa using h2, h4⟩
    · rintro ⟨⟨h1, h3⟩, h2, h4⟩
      exact ⟨h1, not_contains _ _ h2, h3, h4⟩

theorem vEnum_ok (hfp : FpAgree) (types : List Elem) (p : Path) (n enc : String) (o : Option Nat)
    (vs : List ValidValue) (a : Attrs) (sz : Nat) :
    vEnum types p n enc vs = .ok sz ↔
      symbolicName n = true ∧ (∀ v ∈ vs, symbolicName v.name = true) ∧
      elemViols types p (.enum n enc o vs a) = [] ∧ (underlyingPrim types enc).bind primBytes = some sz := by
  unfold vEnum elemViols
  simp only [bind_ok, vName_ok, exists_const]
  rw [vEncodingType_eq]
  cases hr : resolveEncodingType types enc with
  | error c => simp [fail]
  | ok prim =>
    have hu := resolveEncodingType_underlying types enc prim hr
    simp only [Except.ok.injEq, exists_eq_left', need_ok, isIntegral_eq, hu, Option.bind_some, primSize_eq]
    by_cases hi : isIntegralPrim prim = true
    · obtain ⟨k, hk⟩ := integral_size prim hi
      simp only [hi, true_and, Bool.not_true, Bool.false_eq_true, ↓reduceIte, List.filterMap_eq_nil_iff, hk,
        Option.getD_some, Option.some.injEq, vValidValues_ok hfp prim hi p, exists_const, List.append_eq_nil_iff,
        List.map_eq_nil_iff]
      constructor
      · rintro ⟨h1, ⟨h2, hr⟩, h3⟩
        exact ⟨h1, fun v hv => (h2 v hv).1, ⟨fun v hv => (h2 v hv).2, hr⟩, h3⟩
      · rintro ⟨h1, h2, ⟨h3, hr⟩, h4⟩
        exact ⟨h1, ⟨fun v hv => ⟨h2 v hv, h3 v hv⟩, hr⟩, h4⟩
    · simp [hi]

theorem vSet_ok (types : List Elem) (p : Path) (n enc : String) (o : Option Nat)
    (cs : List Choice) (a : Attrs) (sz : Nat) :
    vSet types p n enc cs = .ok sz ↔
      symbolicName n = true ∧ (∀ c ∈ cs, symbolicName c.name = true) ∧
      elemViols types p (.set n enc o cs a) = [] ∧ (underlyingPrim types enc).bind primBytes = some sz := by
  unfold vSet elemViols
  simp only [bind_ok, vName_ok, exists_const]
  rw [vEncodingType_eq]
  cases hr : resolveEncodingType types enc with
  | error c => simp [fail]
  | ok prim =>
    have hu := resolveEncodingType_underlying types enc prim hr
    simp only [Except.ok.injEq, exists_eq_left', need_ok, isUnsigned_eq, hu, Option.bind_some]
    by_cases hi : isUnsignedPrim prim = true
    · obtain ⟨k, hk, hk1⟩ := unsigned_size prim hi
      simp only [hi, true_and, Bool.not_true, Bool.false_eq_true, ↓reduceIte, List.filterMap_eq_nil_iff, hk,
        Option.some.injEq]
      rw [primSize_eq, hk]
      simp only [Option.getD_some, allOk_ok, vChoice_ok prim k hk hk1 p, exists_const]
      constructor
      · rintro ⟨h1, h2, h3⟩
        exact ⟨h1, fun v hv => (h2 v hv).1, fun v hv => (h2 v hv).2, h3⟩
      · rintro ⟨h1, h2, h3, h4⟩
        exact ⟨h1, fun v hv => ⟨h2 v hv, h3 v hv⟩, h4⟩
    · simp [hi]


/-! ### what a successful `validate_encoding` establishes -/

/-- names of the parts of an encoding that are not encodings themselves -/
def subNamesOk : Elem → Prop
  | .enum _ _ _ vs _ => ∀ v ∈ vs, symbolicName v.name = true
  | .set _ _ _ cs _ => ∀ c ∈ cs, symbolicName c.name = true
  | _ => True

/-- the encoding itself (not what it contains or refers to) obeys every rule -/
def ElemGood (types : List Elem) (q : Path) (x : Elem) : Prop :=
  symbolicName x.name = true ∧ subNamesOk x ∧ elemViols types q x = []

theorem offsetMax_u64 : offsetMax = u64Max := rfl

theorem overflowViol_none (q : Path) (sz off : Nat) : overflowViol q (some sz) off = none ↔ off + sz ≤ u64Max := by
  unfold overflowViol
  by_cases h : u64Max < off + sz
  · simp [h]
  · simp [h]; omega

/-- a member obeys the two offset rules -/
theorem offsetViol_none (types : List Elem) (p : Path) (e : Elem) (cur sz : Nat)
    (hsz : Spec.Rules.sizeOf types e = some sz) :
    offsetViol types p (e, cur) = none ↔
      (∀ o, elemOffset e = some o → cur ≤ o) ∧ (elemOffset e).getD cur + sz ≤ u64Max := by
  unfold offsetViol
  simp only [hsz]
  cases ho : elemOffset e with
  | none => simp [overflowViol_none]
  | some o =>
    by_cases hlt : o < cur
    · simp [hlt]; omega
    · simp [hlt, overflowViol_none]; omega

theorem fieldOffsetViol_none (types : List Elem) (lp : Path) (f : FieldDef) (cur sz : Nat)
    (hsz : fieldSize types f = some sz) :
    fieldOffsetViol types lp (f, cur) = none ↔
      (∀ o, f.offset = some o → cur ≤ o) ∧ f.offset.getD cur + sz ≤ u64Max := by
  unfold fieldOffsetViol
  simp only [hsz]
  cases ho : f.offset with
  | none => simp [overflowViol_none]
  | some o =>
    by_cases hlt : o < cur
    · simp [hlt]; omega
    · simp [hlt, overflowViol_none]; omega

theorem vAdvance_err (p : Path) (off sz : Nat) (d : Diag) :
    vAdvance p off sz = .error d ↔ u64Max < off + sz ∧ d = { cls := .offsetOverflow, loc := p } := by
  unfold vAdvance
  rw [offsetMax_u64]
  by_cases h : u64Max < off + sz
  · simp [h, fail, eq_comm]
  · simp [h]

theorem offsetViol_overflow (types : List Elem) (p : Path) (e : Elem) (cur sz : Nat)
    (hsz : Spec.Rules.sizeOf types e = some sz) (hmin : ∀ o, elemOffset e = some o → cur ≤ o)
    (hov : u64Max < (elemOffset e).getD cur + sz) :
    offsetViol types p (e, cur) = some (.offsetOverflow, p ++ [e.name]) := by
  unfold offsetViol overflowViol
  simp only [hsz]
  cases ho : elemOffset e with
  | none => simp only [ho, Option.getD_none] at hov; simp [hov]
  | some o =>
    simp only [ho, Option.getD_some] at hov
    have := hmin o ho
    simp [hov, Nat.not_lt.mpr this]

theorem fieldOffsetViol_overflow (types : List Elem) (lp : Path) (f : FieldDef) (cur sz : Nat)
    (hsz : fieldSize types f = some sz) (hmin : ∀ o, f.offset = some o → cur ≤ o)
    (hov : u64Max < f.offset.getD cur + sz) :
    fieldOffsetViol types lp (f, cur) = some (.offsetOverflow, lp ++ [f.name]) := by
  unfold fieldOffsetViol overflowViol
  simp only [hsz]
  cases ho : f.offset with
  | none => simp only [ho, Option.getD_none] at hov; simp [hov]
  | some o =>
    simp only [ho, Option.getD_some] at hov
    have := hmin o ho
    simp [hov, Nat.not_lt.mpr this]

theorem le_getD_of_forall {o : Option Nat} {cur : Nat} (h : ∀ x, o = some x → cur ≤ x) : cur ≤ o.getD cur := by
  cases o with
  | none => simp
  | some x => simpa using h x rfl

theorem vAdvance_ok (p : Path) (off sz next : Nat) :
    vAdvance p off sz = .ok next ↔ off + sz ≤ u64Max ∧ next = off + sz := by
  unfold vAdvance
  rw [offsetMax_u64]
  by_cases h : u64Max < off + sz
  · simp [h, fail]; omega
  · simp [h, eq_comm]; omega

theorem vElementOffset_ok (types : List Elem) (p : Path) (e : Elem) (cur sz cur' : Nat) :
    vElementOffset types p e cur sz = .ok cur' ↔
      (if Spec.Rules.isConstElem types e then cur' = cur
       else (∀ o, elemOffset e = some o → cur ≤ o) ∧ (elemOffset e).getD cur + sz ≤ u64Max ∧
         cur' = (elemOffset e).getD cur + sz) := by
  unfold vElementOffset
  rw [isConst_eq, offset_eq]
  by_cases hc : Spec.Rules.isConstElem types e = true
  · simp [hc, eq_comm]
  · simp only [hc, Bool.false_eq_true, ↓reduceIte]
    cases ho : elemOffset e with
    | none => simp [vAdvance_ok]
    | some o =>
      by_cases hlt : o < cur
      · simp [hlt, fail]; omega
      · simp [hlt, vAdvance_ok]; omega

section Good
variable (hfp : FpAgree) (types : List Elem) (k : Nat) (hk : k ≤ types.length)
  (ih : ∀ vis t m, vPublic types k vis t = .ok m → sizeK types k t = some m)
include hfp hk ih

mutual
  theorem vElemWith_good :
      ∀ (e : Elem) (vis : List String) (p : Path) (n : Nat),
        vElemWith types (vPublic types k) vis p e = .ok n →
          sizeWith types (sizeK types k) e = some n ∧ ∀ q x, (q, x) ∈ subElems p e → ElemGood types q x
    | .type t, vis, p, n, h => by
      simp only [vElemWith] at h
      obtain ⟨h1, h2, h3⟩ := (vType_ok hfp types p t n).mp h
      have hprim : ∃ b, primBytes t.prim = some b := by
        unfold typeViols at h2
        by_cases hp : isPrim t.prim = true
        · exact Option.isSome_iff_exists.mp hp
        · simp [hp] at h2
      obtain ⟨b, hb⟩ := hprim
      refine ⟨by simp [sizeWith, hb, ← h3, Nat.mul_comm], ?_⟩
      intro q x hm
      simp only [subElems, List.mem_singleton, Prod.mk.injEq] at hm
      obtain ⟨rfl, rfl⟩ := hm
      exact ⟨h1, trivial, by simpa [elemViols] using h2⟩
    | .enum nm enc o vs a, vis, p, n, h => by
      simp only [vElemWith] at h
      obtain ⟨h1, h2, h3, h4⟩ := (vEnum_ok hfp types p nm enc o vs a n).mp h
      refine ⟨by simpa [sizeWith] using h4, ?_⟩
      intro q x hm
      simp only [subElems, List.mem_singleton, Prod.mk.injEq] at hm
      obtain ⟨rfl, rfl⟩ := hm
      exact ⟨h1, h2, h3⟩
    | .set nm enc o cs a, vis, p, n, h => by
      simp only [vElemWith] at h
      obtain ⟨h1, h2, h3, h4⟩ := (vSet_ok types p nm enc o cs a n).mp h
      refine ⟨by simpa [sizeWith] using h4, ?_⟩
      intro q x hm
      simp only [subElems, List.mem_singleton, Prod.mk.injEq] at hm
      obtain ⟨rfl, rfl⟩ := hm
      exact ⟨h1, h2, h3⟩
    | .ref nm ty o a, vis, p, n, h => by
      simp only [vElemWith, bind_ok, vName_ok, exists_const] at h
      obtain ⟨h1, h2⟩ := h
      rw [lookup_eq] at h2
      cases hf : findType types ty with
      | none => simp [hf, fail] at h2
      | some target =>
        simp only [hf] at h2
        split at h2
        · simp [fail] at h2
        · have := ih _ _ _ h2
          refine ⟨by simp [sizeWith, hf, this], ?_⟩
          intro q x hm
          simp only [subElems, List.mem_singleton, Prod.mk.injEq] at hm
          obtain ⟨rfl, rfl⟩ := hm
          exact ⟨h1, trivial, by simp [elemViols, hf]⟩
    | .composite nm o elems a, vis, p, n, h => by
      simp only [vElemWith, bind_ok, vName_ok, exists_const] at h
      obtain ⟨h1, h2⟩ := h
      obtain ⟨g1, g2, g3⟩ := vElemsWith_good elems vis p 0 n h2
      refine ⟨by simpa [sizeWith] using g1, ?_⟩
      intro q x hm
      simp only [subElems, List.mem_cons, Prod.mk.injEq] at hm
      rcases hm with ⟨rfl, rfl⟩ | hm
      · exact ⟨h1, trivial, by simpa [elemViols] using g3⟩
      · exact g2 q x hm
  theorem vElemsWith_good :
      ∀ (elems : List Elem) (vis : List String) (p : Path) (cur n : Nat),
        vElemsWith types (vPublic types k) vis p cur elems = .ok n →
          endWith types (sizeK types k) cur elems = some n ∧
          (∀ q x, (q, x) ∈ subElemsL p elems → ElemGood types q x) ∧
          (memberMinima types cur elems).filterMap (offsetViol types p) = []
    | [], vis, p, cur, n, h => by
      simp only [vElemsWith, Except.ok.injEq] at h
      subst h
      exact ⟨by simp [endWith], by simp [subElemsL], by simp [memberMinima]⟩
    | e :: rest, vis, p, cur, n, h => by
      simp only [vElemsWith, bind_ok] at h
      obtain ⟨sz, hsz, cur', hoff, hrest⟩ := h
      obtain ⟨e1, e2⟩ := vElemWith_good e vis (p ++ [e.name]) sz hsz
      obtain ⟨r1, r2, r3⟩ := vElemsWith_good rest vis p cur' n hrest
      rw [vElementOffset_ok] at hoff
      have hsizeOf : Spec.Rules.sizeOf types e = some sz := by
        unfold Spec.Rules.sizeOf
        exact sizeK_mono types (k + 1) (types.length + 1) (by omega) e sz (by simpa [sizeK] using e1)
      by_cases hc : Spec.Rules.isConstElem types e = true
      · simp only [hc, ↓reduceIte] at hoff
        subst hoff
        refine ⟨by simp [endWith, hc, r1], ?_, by simp [memberMinima, hc, r3]⟩
        intro q x hm
        simp only [subElemsL, List.mem_append] at hm
        rcases hm with hm | hm
        · exact e2 q x hm
        · exact r2 q x hm
      · simp only [hc, Bool.false_eq_true, ↓reduceIte] at hoff
        obtain ⟨hle, hfit, rfl⟩ := hoff
        refine ⟨by simp [endWith, hc, e1, r1], ?_, ?_⟩
        · intro q x hm
          simp only [subElemsL, List.mem_append] at hm
          rcases hm with hm | hm
          · exact e2 q x hm
          · exact r2 q x hm
        · simp only [memberMinima, hc, Bool.false_eq_true, ↓reduceIte, hsizeOf, List.filterMap_cons, r3]
          have : offsetViol types p (e, cur) = none := (offsetViol_none types p e cur sz hsizeOf).mpr ⟨hle, hfit⟩
          simp [this]
end
end Good

theorem vPublic_good (hfp : FpAgree) (types : List Elem) :
    ∀ k, k ≤ types.length + 1 → ∀ vis t m, vPublic types k vis t = .ok m →
      sizeK types k t = some m ∧ ∀ q x, (q, x) ∈ subElems ["types", t.name] t → ElemGood types q x := by
  intro k
  induction k with
  | zero => intro _ vis t m h; simp [vPublic, fail] at h
  | succ k ih =>
    intro hk vis t m h
    simp only [vPublic] at h
    have := vElemWith_good hfp types k (by omega) (fun vis t m h => (ih (by omega) vis t m h).1) t vis _ m h
    exact ⟨by simpa [sizeK] using this.1, this.2⟩

theorem anyOrder_ok (errs : List Diag) (u : Unit) : anyOrder errs = .ok u ↔ errs = [] := by
  unfold anyOrder
  cases errs <;> simp

theorem firstErrors_nil {α} (f : α → R Nat) (l : List α) :
    firstErrors f l = [] ↔ ∀ x ∈ l, ∃ n, f x = .ok n := by
  unfold firstErrors
  rw [List.filterMap_eq_nil_iff]
  constructor
  · intro h x hx
    have := h x hx
    cases hf : f x with
    | ok n => exact ⟨n, rfl⟩
    | error d => simp [hf] at this
  · intro h x hx
    obtain ⟨n, hn⟩ := h x hx
    simp [hn]

/-- after a successful `validate_types` every encoding of the schema obeys every
    rule that concerns it alone, and every public encoding has the size the
    specification assigns -/
theorem typesPhase_good (hfp : FpAgree) (s : SchemaDef)
    (h : typesPhase s = .ok ()) :
    (∀ t ∈ s.types, ∃ m, vRoot s.types t = .ok m ∧ Spec.Rules.sizeOf s.types t = some m) ∧
    (∀ q x, (q, x) ∈ allElems s → ElemGood s.types q x) := by
  have hall : ∀ t ∈ s.types, ∃ m, vRoot s.types t = .ok m := by
    unfold typesPhase at h
    rw [anyOrder_ok, firstErrors_nil] at h
    exact h
  constructor
  · intro t ht
    obtain ⟨m, hm⟩ := hall t ht
    exact ⟨m, hm, (vPublic_good hfp s.types _ (Nat.le_refl _) _ t m hm).1⟩
  · intro q x hm
    unfold allElems at hm
    rw [List.mem_flatMap] at hm
    obtain ⟨t, ht, hx⟩ := hm
    obtain ⟨m, hm⟩ := hall t ht
    exact (vPublic_good hfp s.types _ (Nat.le_refl _) _ t m hm).2 q x hx


end Local

section Cycles
open Sbepp.Spec.Rules

/-! ### reference cycles -/

/-- `ty` (a name written in some `<ref>`) is reachable from `t` through at least one reference step -/
inductive ReachTy (types : List Elem) (t : Elem) : String → Prop
  | direct {ty : String} : ty ∈ directRefs t → ReachTy types t ty
  | step {a : String} {u : Elem} {ty : String} :
      ReachTy types t a → findType types a = some u → ty ∈ directRefs u → ReachTy types t ty

theorem reach_has_refs (types : List Elem) (t : Elem) (ty : String) (h : ReachTy types t ty) : directRefs t ≠ [] := by
  induction h with
  | direct hm => intro h0; rw [h0] at hm; simp at hm
  | step _ _ _ ih => exact ih

mutual
  /-- a defined size means every reference in the encoding resolves, to something
      whose size the unfolding `j` knows (or to a plain `<type>`) -/
  theorem sizeWith_refs (types : List Elem) (j : Elem → Option Nat) :
      ∀ (e : Elem) (n : Nat), sizeWith types j e = some n → ∀ ty ∈ directRefs e,
        ∃ u, findType types ty = some u ∧ ((∃ m, j u = some m) ∨ (∃ td, u = .type td))
    | .type _, _, _, ty, hm => by simp [directRefs] at hm
    | .enum _ _ _ _ _, _, _, ty, hm => by simp [directRefs] at hm
    | .set _ _ _ _ _, _, _, ty, hm => by simp [directRefs] at hm
    | .ref _ r _ _, n, h, ty, hm => by
      simp only [directRefs, List.mem_singleton] at hm
      subst hm
      simp only [sizeWith] at h
      cases hf : findType types ty with
      | none => simp [hf] at h
      | some u =>
        simp only [hf, Option.bind_some] at h
        exact ⟨u, rfl, Or.inl ⟨n, h⟩⟩
    | .composite _ _ elems _, n, h, ty, hm => by
      simp only [sizeWith] at h
      simp only [directRefs] at hm
      exact endWith_refs types j elems 0 n h ty hm
  theorem endWith_refs (types : List Elem) (j : Elem → Option Nat) :
      ∀ (elems : List Elem) (cur n : Nat), endWith types j cur elems = some n → ∀ ty ∈ directRefsL elems,
        ∃ u, findType types ty = some u ∧ ((∃ m, j u = some m) ∨ (∃ td, u = .type td))
    | [], _, _, _, ty, hm => by simp [directRefsL] at hm
    | e :: rest, cur, n, h, ty, hm => by
      simp only [directRefsL, List.mem_append] at hm
      simp only [endWith] at h
      by_cases hc : Spec.Rules.isConstElem types e = true
      · simp only [hc, ↓reduceIte] at h
        rcases hm with hm | hm
        · -- a constant member: a `<type>` (no refs) or a `<ref>` to a constant `<type>`
          cases e with
          | ref nm r o a =>
            simp only [directRefs, List.mem_singleton] at hm
            subst hm
            simp only [Spec.Rules.isConstElem] at hc
            cases hf : findType types ty with
            | none => simp [hf] at hc
            | some u =>
              cases u with
              | type td => exact ⟨_, rfl, Or.inr ⟨td, rfl⟩⟩
              | _ => simp [hf] at hc
          | type td => simp [directRefs] at hm
          | _ => simp [Spec.Rules.isConstElem] at hc
        · exact endWith_refs types j rest cur n h ty hm
      · simp only [hc, Bool.false_eq_true, ↓reduceIte] at h
        cases hs : sizeWith types j e with
        | none => simp [hs] at h
        | some sz =>
          simp only [hs] at h
          rcases hm with hm | hm
          · exact sizeWith_refs types j e sz hs ty hm
          · exact endWith_refs types j rest _ n h ty hm
end

theorem directRefs_type (td : TypeDef) : directRefs (.type td) = [] := by simp [directRefs]

/-- along a reference path the unfolding depth strictly decreases -/
theorem reach_depth (types : List Elem) (t : Elem) (ty : String) (h : ReachTy types t ty) :
    ∀ k n, sizeK types k t = some n →
      ∃ u, findType types ty = some u ∧ ((∃ k', k' < k ∧ ∃ m, sizeK types k' u = some m) ∨ (∃ td, u = .type td)) := by
  induction h with
  | direct hm =>
    intro k n hs
    cases k with
    | zero => simp [sizeK] at hs
    | succ k =>
      simp only [sizeK] at hs
      obtain ⟨u, hu, hor⟩ := sizeWith_refs types _ t n hs _ hm
      refine ⟨u, hu, ?_⟩
      rcases hor with ⟨m, hm'⟩ | h2
      · exact Or.inl ⟨k, by omega, m, hm'⟩
      · exact Or.inr h2
  | @step a u ty' _ hf hm ih =>
    intro k n hs
    obtain ⟨u', hu', hor⟩ := ih k n hs
    rw [hf] at hu'
    simp only [Option.some.injEq] at hu'
    subst hu'
    rcases hor with ⟨k', hk', m, hm'⟩ | ⟨td, htd⟩
    · cases k' with
      | zero => simp [sizeK] at hm'
      | succ k' =>
        simp only [sizeK] at hm'
        obtain ⟨u2, hu2, hor2⟩ := sizeWith_refs types _ u m hm' _ hm
        refine ⟨u2, hu2, ?_⟩
        rcases hor2 with ⟨m2, hm2⟩ | h2
        · exact Or.inl ⟨k', by omega, m2, hm2⟩
        · exact Or.inr h2
    · subst htd
      rw [directRefs_type] at hm
      simp at hm

/-- an encoding with a defined size is not on a reference cycle -/
theorem sized_no_cycle (types : List Elem) (t : Elem) :
    ∀ k n, sizeK types k t = some n → ∀ ty, ReachTy types t ty → findType types ty ≠ some t := by
  intro k
  induction k using Nat.strongRecOn with
  | _ k ih =>
    intro n hs ty hr hf
    obtain ⟨u, hu, hor⟩ := reach_depth types t ty hr k n hs
    rw [hf] at hu
    simp only [Option.some.injEq] at hu
    subst hu
    rcases hor with ⟨k', hk', m, hm⟩ | ⟨td, htd⟩
    · exact ih k' hk' m hm ty hr hf
    · subst htd
      exact reach_has_refs types _ ty hr (directRefs_type td)


/-! ### unique public names -/

def lowerNames (types : List Elem) : List String := types.map (fun e => e.name.toLower)

theorem findType_congr (types : List Elem) (a b : String) (h : a.toLower = b.toLower) :
    findType types a = findType types b := by
  unfold findType; rw [h]

theorem findType_self (types : List Elem) (hnd : (lowerNames types).Nodup) (t : Elem) (ht : t ∈ types) :
    findType types t.name = some t := by
  unfold findType
  induction types with
  | nil => simp at ht
  | cons x xs ih =>
    simp only [lowerNames, List.map_cons, List.nodup_cons] at hnd
    rcases List.mem_cons.mp ht with rfl | hxs
    · simp [List.find?]
    · have hne : (x.name.toLower == t.name.toLower) = false := by
        rw [beq_eq_false_iff_ne]
        intro heq
        apply hnd.1
        rw [heq]
        exact List.mem_map.mpr ⟨t, hxs, rfl⟩
      simp only [List.find?, hne]
      exact ih hnd.2 hxs

theorem pTypes_ok (seen : List String) (types : List Elem) (u : Unit) (h : pTypes seen types = .ok u) :
    (lowerNames types).Nodup ∧ (∀ n ∈ lowerNames types, n ∉ seen) ∧
      ∀ t ∈ types, pElem ["types", t.name] t = .ok () := by
  induction types generalizing seen with
  | nil => simp [lowerNames]
  | cons x xs ih =>
    simp only [pTypes, bind_ok, need_ok, exists_const] at h
    obtain ⟨_, h1, h2, h3⟩ := h
    obtain ⟨i1, i2, i3⟩ := ih _ h3
    simp only [Bool.not_eq_eq_eq_not, Bool.not_true, List.contains_eq_mem, decide_eq_false_iff_not] at h2
    refine ⟨?_, ?_, ?_⟩
    · simp only [lowerNames, List.map_cons, List.nodup_cons]
      refine ⟨?_, i1⟩
      intro hm
      exact i2 _ hm (by simp)
    · intro n hn
      simp only [lowerNames, List.map_cons, List.mem_cons] at hn
      rcases hn with rfl | hn
      · exact h2
      · intro hs
        exact i2 n hn (by simp [hs])
    · intro t ht
      rcases List.mem_cons.mp ht with rfl | ht
      · exact h1
      · exact i3 t ht

mutual
  theorem sizeWith_unfolds (types : List Elem) (j : Elem → Option Nat) (u : Elem → Bool)
      (hju : ∀ t m, j t = some m → u t = true) (hty : ∀ td, u (.type td) = true) :
      ∀ (e : Elem) (n : Nat), sizeWith types j e = some n → unfoldsWith types u e = true
    | .type _, _, _ => by simp [unfoldsWith]
    | .enum _ _ _ _ _, _, _ => by simp [unfoldsWith]
    | .set _ _ _ _ _, _, _ => by simp [unfoldsWith]
    | .ref _ ty _ _, n, h => by
      simp only [sizeWith] at h
      simp only [unfoldsWith]
      cases hf : findType types ty with
      | none => rfl
      | some t =>
        simp only [hf, Option.bind_some] at h
        exact hju _ n h
    | .composite _ _ elems _, n, h => by
      simp only [sizeWith] at h
      simp only [unfoldsWith]
      exact endWith_unfolds types j u hju hty elems 0 n h
  theorem endWith_unfolds (types : List Elem) (j : Elem → Option Nat) (u : Elem → Bool)
      (hju : ∀ t m, j t = some m → u t = true) (hty : ∀ td, u (.type td) = true) :
      ∀ (elems : List Elem) (cur n : Nat), endWith types j cur elems = some n → unfoldsWithL types u elems = true
    | [], _, _, _ => by simp [unfoldsWithL]
    | e :: rest, cur, n, h => by
      simp only [endWith] at h
      simp only [unfoldsWithL, Bool.and_eq_true]
      by_cases hc : Spec.Rules.isConstElem types e = true
      · simp only [hc, ↓reduceIte] at h
        refine ⟨?_, endWith_unfolds types j u hju hty rest cur n h⟩
        cases e with
        | ref nm r o a =>
          simp only [Spec.Rules.isConstElem] at hc
          simp only [unfoldsWith]
          cases hf : findType types r with
          | none => rfl
          | some t =>
            cases t with
            | type td => exact hty td
            | _ => simp [hf] at hc
        | type td => simp [unfoldsWith]
        | _ => simp [Spec.Rules.isConstElem] at hc
      · simp only [hc, Bool.false_eq_true, ↓reduceIte] at h
        cases hs : sizeWith types j e with
        | none => simp [hs] at h
        | some sz =>
          simp only [hs] at h
          exact ⟨sizeWith_unfolds types j u hju hty e sz hs, endWith_unfolds types j u hju hty rest _ n h⟩
end

theorem unfoldsK_type (types : List Elem) (k : Nat) (td : TypeDef) : unfoldsK types (k + 1) (.type td) = true := by
  simp [unfoldsK, unfoldsWith]

theorem sizeK_unfolds (types : List Elem) : ∀ k e n, sizeK types k e = some n → unfoldsK types (k + 1) e = true := by
  intro k
  induction k with
  | zero => intro e n h; simp [sizeK] at h
  | succ k ih =>
    intro e n h
    simp only [sizeK] at h
    simp only [unfoldsK]
    exact sizeWith_unfolds types _ _ (fun t m hm => ih t m hm) (fun td => unfoldsK_type types k td) e n h

/-- after `validate_types` succeeded the references below every public encoding unfold -/
theorem cycleViols_nil (hfp : FpAgree) (s : SchemaDef)
    (h : typesPhase s = .ok ()) : cycleViols s = [] := by
  unfold cycleViols
  rw [List.filterMap_eq_nil_iff]
  intro t ht
  obtain ⟨m, _, hsz⟩ := (typesPhase_good hfp s h).1 t ht
  have : acyclicBelow s.types t = true := sizeK_unfolds s.types _ t m hsz
  simp [this]

end Cycles

section Messages
open Sbepp.Spec.Rules

/-! ### level headers -/

theorem levelHeaderElement_eq (types : List Elem) (hp : Path) (elems : List Elem) (name : String) :
    levelHeaderElement types hp elems name =
      match headerMemberType types hp elems name with
      | .ok x => .ok x
      | .error v => fail v.1 v.2 := by
  unfold levelHeaderElement headerMemberType
  cases hf : elems.find? (fun e => e.name == name) with
  | none => rfl
  | some e =>
    cases e with
    | ref n ty o a =>
      simp only [lookup_eq]
      cases hl : findType types ty with
      | none => rfl
      | some t => cases t <;> rfl
    | _ => rfl

theorem vLevelHeaderElement_ok (types : List Elem) (hp : Path) (elems : List Elem) (name : String) (u : Unit) :
    vLevelHeaderElement types hp elems name = .ok u ↔ headerMemberViols types hp elems name false = [] := by
  unfold vLevelHeaderElement headerMemberViols
  rw [levelHeaderElement_eq]
  cases hm : headerMemberType types hp elems name with
  | error v => simp [fail, bind, Except.bind]
  | ok x =>
    obtain ⟨t, ep⟩ := x
    simp only [bind_ok, Except.ok.injEq, exists_eq_left', need_ok, exists_const, Bool.false_eq_true, ↓reduceIte,
      isIntegral_eq]
    by_cases h1 : t.length = 1
    · by_cases h2 : t.presence = Presence.constant
      · simp [h1, h2]
      · cases h3 : isIntegralPrim t.prim <;> simp [h1, h2, h3]
    · simp [h1]

theorem vLevelHeader_ok (types : List Elem) (user : Path) (hdr : String) (required : List String) (u : Unit) :
    vLevelHeader types user hdr required = .ok u ↔ headerViols types user hdr required false = [] := by
  unfold vLevelHeader headerViols
  rw [lookup_eq]
  cases hf : findType types hdr with
  | none => simp [fail]
  | some e =>
    cases e with
    | composite n o elems a =>
      simp only [bind_ok, exists_const, allOk_ok, vLevelHeaderElement_ok, Bool.false_eq_true, ↓reduceIte,
        List.append_eq_nil_iff, List.flatMap_eq_nil_iff, optionalCounters]
      constructor
      · rintro ⟨h1, h2⟩
        refine ⟨h1, ?_⟩
        intro r hr
        have := h2 r hr
        split
        · rename_i hp; simpa [hp, vLevelHeaderElement_ok] using this
        · rfl
      · rintro ⟨h1, h2⟩
        refine ⟨h1, ?_⟩
        intro r hr
        have := h2 r hr
        split
        · rename_i hp; simpa [hp, vLevelHeaderElement_ok] using this
        · rfl
    | _ => simp [fail]

/-! ### what `validate_types` leaves behind, and the layout of `<data>` headers -/

/-- `validate_types` left the size the specification assigns in every public encoding's
    context, and the members of every public composite respect their minimum offsets -/
def SizesAgree (types : List Elem) : Prop :=
  (∀ t ∈ types, ∃ m, vRoot types t = .ok m ∧ Spec.Rules.sizeOf types t = some m) ∧
  (∀ n o elems a, Elem.composite n o elems a ∈ types →
    (memberMinima types 0 elems).filterMap (offsetViol types ["types", n]) = [])

theorem sizesAgree_of_phase (hfp : FpAgree) (s : SchemaDef) (h : typesPhase s = .ok ()) : SizesAgree s.types := by
  obtain ⟨t1, t2⟩ := typesPhase_good hfp s h
  refine ⟨t1, ?_⟩
  intro n o elems a hm
  have hall : (["types", n], Elem.composite n o elems a) ∈ allElems s := by
    unfold allElems
    exact List.mem_flatMap.mpr ⟨_, hm, by simp [subElems, typePath, Elem.name]⟩
  have := (t2 _ _ hall).2.2
  simpa [elemViols] using this

theorem encPrimSize_spec (types : List Elem) (enc : String) (n : Nat)
    (h : (underlyingPrim types enc).bind primBytes = some n) : encPrimSize types enc = n := by
  unfold encPrimSize
  unfold underlyingPrim at h
  rw [isPrimitive_eq, lookup_eq]
  by_cases hp : isPrim enc = true
  · simp only [hp, ↓reduceIte, Option.bind_some] at h ⊢
    rw [primSize_eq, h]; rfl
  · simp only [hp, Bool.false_eq_true, ↓reduceIte] at h ⊢
    cases hf : findType types enc with
    | none => simp [hf] at h
    | some t =>
      cases t with
      | type td =>
        simp only [hf, Option.bind_some] at h ⊢
        rw [primSize_eq, h]; rfl
      | _ => simp [hf] at h

section CtxSizes
variable (types : List Elem) (hsz : SizesAgree types)
include hsz

mutual
  theorem ctxSize_spec : ∀ (e : Elem) (n : Nat),
      sizeWith types (sizeK types types.length) e = some n → ctxSize types e = n
    | .type t, n, h => by
      simp only [sizeWith, Option.map_eq_some_iff] at h
      obtain ⟨b, hb, rfl⟩ := h
      simp [ctxSize, primSize_eq, hb, Nat.mul_comm]
    | .enum _ enc _ _ _, n, h => by
      simp only [sizeWith] at h
      simpa [ctxSize] using encPrimSize_spec types enc n h
    | .set _ enc _ _ _, n, h => by
      simp only [sizeWith] at h
      simpa [ctxSize] using encPrimSize_spec types enc n h
    | .ref _ ty _ _, n, h => by
      simp only [sizeWith] at h
      simp only [ctxSize, lookup_eq]
      cases hf : findType types ty with
      | none => simp [hf] at h
      | some t =>
        simp only [hf, Option.bind_some] at h ⊢
        obtain ⟨m, hm1, hm2⟩ := hsz.1 t (findType_mem types ty t hf)
        have := sizeK_mono types types.length (types.length + 1) (by omega) t n h
        unfold Spec.Rules.sizeOf at hm2
        rw [this] at hm2
        simp only [Option.some.injEq] at hm2
        simp [encSize, hm1, hm2]
    | .composite _ _ elems _, n, h => by
      simp only [sizeWith] at h
      simpa [ctxSize] using ctxEnd_spec elems 0 n h
  theorem ctxEnd_spec : ∀ (elems : List Elem) (cur n : Nat),
      endWith types (sizeK types types.length) cur elems = some n → ctxEnd types cur elems = n
    | [], cur, n, h => by simpa [endWith, ctxEnd] using h
    | e :: rest, cur, n, h => by
      simp only [endWith] at h
      simp only [ctxEnd, isConst_eq, offset_eq]
      by_cases hc : Spec.Rules.isConstElem types e = true
      · simp only [hc, ↓reduceIte] at h ⊢
        exact ctxEnd_spec rest cur n h
      · simp only [hc, Bool.false_eq_true, ↓reduceIte] at h ⊢
        cases hs : sizeWith types (sizeK types types.length) e with
        | none => simp [hs] at h
        | some sz =>
          simp only [hs] at h
          rw [ctxSize_spec e sz hs]
          exact ctxEnd_spec rest _ n h
end

/-- along a composite whose members respect their minimum offsets: the running offset only
    grows, and the member called `name` (not a constant) ends inside the composite -/
theorem ctxMemberOffset_spec (p : Path) (name : String) : ∀ (elems : List Elem) (cur sz : Nat),
    endWith types (sizeK types types.length) cur elems = some sz →
    (memberMinima types cur elems).filterMap (offsetViol types p) = [] →
    cur ≤ sz ∧
    ∀ e, elems.find? (fun x => x.name == name) = some e → Spec.Rules.isConstElem types e = false →
      ∀ s, sizeWith types (sizeK types types.length) e = some s →
        cur ≤ ctxMemberOffset types name cur elems ∧ ctxMemberOffset types name cur elems + s ≤ sz := by
  intro elems
  induction elems with
  | nil =>
    intro cur sz h _
    simp only [endWith, Option.some.injEq] at h
    exact ⟨by omega, by intro e he; simp at he⟩
  | cons x rest ih =>
    intro cur sz h hoff
    simp only [endWith] at h
    by_cases hc : Spec.Rules.isConstElem types x = true
    · simp only [hc, ↓reduceIte] at h
      simp only [memberMinima, hc, ↓reduceIte] at hoff
      obtain ⟨i1, i2⟩ := ih cur sz h hoff
      refine ⟨i1, ?_⟩
      intro e he hne s hs
      by_cases hn : (x.name == name) = true
      · simp only [List.find?, hn, Option.some.injEq] at he
        subst he
        rw [hc] at hne; cases hne
      · simp only [List.find?, hn] at he
        have := i2 e he hne s hs
        simpa [ctxMemberOffset, isConst_eq, hc, hn] using this
    · simp only [hc, Bool.false_eq_true, ↓reduceIte] at h
      cases hs : sizeWith types (sizeK types types.length) x with
      | none => simp [hs] at h
      | some sx =>
        simp only [hs] at h
        have hsizeOf : Spec.Rules.sizeOf types x = some sx := by
          unfold Spec.Rules.sizeOf; simpa [sizeK] using hs
        simp only [memberMinima, hc, Bool.false_eq_true, ↓reduceIte, hsizeOf, List.filterMap_cons] at hoff
        have hov : offsetViol types p (x, cur) = none := by
          cases hx : offsetViol types p (x, cur) with
          | none => rfl
          | some v => simp [hx] at hoff
        have hrest : (memberMinima types ((elemOffset x).getD cur + sx) rest).filterMap (offsetViol types p) = [] := by
          simpa [hov] using hoff
        have hle : cur ≤ (elemOffset x).getD cur :=
          le_getD_of_forall ((offsetViol_none types p x cur sx hsizeOf).mp hov).1
        obtain ⟨i1, i2⟩ := ih _ sz h hrest
        refine ⟨by omega, ?_⟩
        intro e he hne s hse
        have hcx : ctxSize types x = sx := ctxSize_spec types hsz x sx hs
        by_cases hn : (x.name == name) = true
        · simp only [List.find?, hn, Option.some.injEq] at he
          subst he
          rw [hs] at hse
          simp only [Option.some.injEq] at hse
          subst hse
          simp only [ctxMemberOffset, isConst_eq, hc, Bool.false_eq_true, ↓reduceIte, hn, offset_eq]
          exact ⟨hle, i1⟩
        · simp only [List.find?, hn] at he
          obtain ⟨j1, j2⟩ := i2 e he hne s hse
          simp only [ctxMemberOffset, isConst_eq, hc, Bool.false_eq_true, ↓reduceIte, hn, offset_eq, hcx]
          exact ⟨by omega, j2⟩
end CtxSizes

theorem headerMemberType_ok (types : List Elem) (hp : Path) (elems : List Elem) (name : String) (t : TypeDef) (ep : Path)
    (h : headerMemberType types hp elems name = .ok (t, ep)) :
    ∃ e, elems.find? (fun x => x.name == name) = some e ∧
      (e = .type t ∨ ∃ nm ty o a, e = .ref nm ty o a ∧ findType types ty = some (.type t)) := by
  unfold headerMemberType at h
  cases hf : elems.find? (fun x => x.name == name) with
  | none => simp [hf] at h
  | some e =>
    refine ⟨e, rfl, ?_⟩
    cases e with
    | type td =>
      simp only [hf, Except.ok.injEq, Prod.mk.injEq] at h
      exact Or.inl (by rw [h.1])
    | ref nm ty o a =>
      simp only [hf] at h
      cases hl : findType types ty with
      | none => simp [hl] at h
      | some x =>
        cases x with
        | type td =>
          simp only [hl, Except.ok.injEq, Prod.mk.injEq] at h
          exact Or.inr ⟨nm, ty, o, a, rfl, h.1 ▸ hl⟩
        | _ => simp [hl] at h
    | _ => simp [hf] at h

theorem endWith_mem_size (types : List Elem) (j : Elem → Option Nat) : ∀ (elems : List Elem) (cur n : Nat),
    endWith types j cur elems = some n → ∀ e ∈ elems, Spec.Rules.isConstElem types e = false →
      ∃ s, sizeWith types j e = some s := by
  intro elems
  induction elems with
  | nil => intro cur n _ e he; simp at he
  | cons x rest ih =>
    intro cur n h e he hne
    simp only [endWith] at h
    by_cases hc : Spec.Rules.isConstElem types x = true
    · simp only [hc, ↓reduceIte] at h
      rcases List.mem_cons.mp he with rfl | he
      · rw [hc] at hne; cases hne
      · exact ih cur n h e he hne
    · simp only [hc, Bool.false_eq_true, ↓reduceIte] at h
      cases hs : sizeWith types j x with
      | none => simp [hs] at h
      | some sx =>
        simp only [hs] at h
        rcases List.mem_cons.mp he with rfl | he
        · exact ⟨sx, hs⟩
        · exact ih _ n h e he hne

theorem sizeK_type (types : List Elem) (k : Nat) (t : TypeDef) (s : Nat) (h : sizeK types k (.type t) = some s) :
    ∃ b, primBytes t.prim = some b ∧ s = b * t.length := by
  cases k with
  | zero => simp [sizeK] at h
  | succ k =>
    simp only [sizeK, sizeWith, Option.map_eq_some_iff] at h
    obtain ⟨b, hb, rfl⟩ := h
    exact ⟨b, hb, rfl⟩

/-- the two conditions of `validate_data_header_layout` say exactly that the composite
    occupies the bytes of its `length` member -/
theorem dataLayout_iff (types : List Elem) (hsz : SizesAgree types) (n : String) (o : Option Nat) (elems : List Elem)
    (a : Attrs) (hc : Elem.composite n o elems a ∈ types) (t : TypeDef) (ep : Path)
    (hm : headerMemberType types ["types", n] elems "length" = .ok (t, ep)) (hl1 : t.length = 1)
    (hnc : (t.presence == Presence.constant) = false) :
    (ctxMemberOffset types "length" 0 elems = 0 ∧
      encSize types (Elem.composite n o elems a) = (primSize? t.prim).getD 0) ↔
    dataLayoutViols types ["types", n] elems = [] := by
  obtain ⟨m, hm1, hm2⟩ := hsz.1 _ hc
  have hend : endWith types (sizeK types types.length) 0 elems = some m := by
    unfold Spec.Rules.sizeOf at hm2
    simpa [sizeK, sizeWith] using hm2
  have hcs : compositeSize types elems = some m := by
    unfold compositeSize Spec.Rules.sizeOf
    simpa [sizeK, sizeWith] using hend
  have henc : encSize types (Elem.composite n o elems a) = m := by simp [encSize, hm1]
  obtain ⟨e, hfind, hkind⟩ := headerMemberType_ok types _ elems "length" t ep hm
  have hmem : e ∈ elems := List.mem_of_find?_eq_some hfind
  have hconst : Spec.Rules.isConstElem types e = false := by
    rcases hkind with rfl | ⟨nm, ty, o', a', rfl, hf⟩
    · simpa [Spec.Rules.isConstElem] using hnc
    · simpa [Spec.Rules.isConstElem, hf] using hnc
  obtain ⟨s, hs⟩ := endWith_mem_size types _ elems 0 m hend e hmem hconst
  obtain ⟨b, hb, hsb⟩ : ∃ b, primBytes t.prim = some b ∧ s = b * t.length := by
    rcases hkind with rfl | ⟨nm, ty, o', a', rfl, hf⟩
    · simp only [sizeWith, Option.map_eq_some_iff] at hs
      obtain ⟨b, hb, rfl⟩ := hs
      exact ⟨b, hb, rfl⟩
    · simp only [sizeWith, hf, Option.bind_some] at hs
      exact sizeK_type types _ t s hs
  rw [hl1, Nat.mul_one] at hsb
  subst hsb
  have hoffs := hsz.2 n o elems a hc
  obtain ⟨_, hw⟩ := ctxMemberOffset_spec types hsz ["types", n] "length" elems 0 m hend hoffs
  obtain ⟨_, hle⟩ := hw e hfind hconst s hs
  unfold dataLayoutViols
  rw [hm, hcs, henc, primSize_eq, hb]
  simp only [Option.getD_some]
  constructor
  · rintro ⟨_, rfl⟩
    simp [hb]
  · intro h
    by_cases heq : m = s
    · subst heq
      exact ⟨by omega, rfl⟩
    · simp [hb, heq] at h

theorem vDataHeader_ok (types : List Elem) (hsz : SizesAgree types) (user : Path) (hdr : String) (u : Unit) :
    vDataHeader types user hdr = .ok u ↔ headerViols types user hdr ["length"] true = [] := by
  unfold vDataHeader headerViols
  rw [lookup_eq]
  cases hf : findType types hdr with
  | none => simp [fail]
  | some e =>
    cases e with
    | composite n o elems a =>
      have hc := findType_mem types hdr _ hf
      simp only [bind_ok, vLevelHeaderElement_ok, exists_const, ↓reduceIte, List.flatMap_cons, List.flatMap_nil,
        List.append_nil, List.append_eq_nil_iff]
      rw [levelHeaderElement_eq, levelHeaderElement_eq]
      by_cases hlen : headerMemberViols types ["types", n] elems "length" false = []
      · simp only [hlen, true_and]
        -- the `length` member is a non-array, non-constant type
        unfold headerMemberViols at hlen
        cases hml : headerMemberType types ["types", n] elems "length" with
        | error v => simp [hml] at hlen
        | ok x =>
          obtain ⟨lt, lp⟩ := x
          simp only [hml, Bool.false_eq_true, ↓reduceIte] at hlen
          have hl1 : lt.length = 1 := by
            by_cases h1 : lt.length = 1
            · exact h1
            · simp [h1] at hlen
          have hnc : (lt.presence == Presence.constant) = false := by
            cases hx : (lt.presence == Presence.constant) with
            | false => rfl
            | true => simp [hl1, hx] at hlen
          have key := dataLayout_iff types hsz n o elems a hc lt lp hml hl1 hnc
          cases hm : headerMemberType types ["types", n] elems "varData" with
          | error v => simp [headerMemberViols, hm, fail]
          | ok y =>
            obtain ⟨t, ep⟩ := y
            simp only [headerMemberViols, hm, Except.ok.injEq, exists_eq_left', need_ok, ↓reduceIte, beq_iff_eq,
              Prod.exists, Prod.mk.injEq]
            by_cases h0 : t.length = 0
            · simp only [h0, ↓reduceIte, true_and, ne_eq, not_true_eq_false]
              rw [← key]
              simp only [Bool.not_eq_eq_eq_not, Bool.not_true, Bool.or_eq_false_iff, bne_eq_false_iff_eq]
              constructor
              · rintro ⟨_, h1, h2⟩; exact ⟨by simp, h1, h2⟩
              · rintro ⟨_, h1, h2⟩; exact ⟨(), h1, h2⟩
            · simp [h0]
      · simp [hlen]
    | _ => simp [fail]

/-! ### fields -/

theorem fieldInfo_ok (types : List Elem) (hsz : SizesAgree types) (p : Path) (f : FieldDef) (sz : Nat) (pr : Presence)
    (h : fieldInfo types p f = .ok (sz, pr)) :
    (!isPrim f.type && (findType types f.type).isNone) = false ∧ pr = fieldPresence types f ∧
      fieldSize types f = some sz := by
  unfold fieldInfo at h
  rw [isPrimitive_eq] at h
  unfold fieldPresence fieldSize
  by_cases hp : isPrim f.type = true
  · simp only [hp, Bool.not_true, Bool.false_eq_true, ↓reduceIte, Except.ok.injEq, Prod.mk.injEq] at h ⊢
    obtain ⟨h1, h2⟩ := h
    obtain ⟨b, hb⟩ := Option.isSome_iff_exists.mp hp
    rw [primSize_eq, hb] at h1
    simp only [Option.getD_some] at h1
    subst h1
    exact ⟨by simp, h2.symm, hb⟩
  · simp only [hp, Bool.not_false, ↓reduceIte, lookup_eq, Bool.true_and, Bool.false_eq_true] at h ⊢
    cases hf : findType types f.type with
    | none => simp [hf, fail] at h
    | some enc =>
      simp only [hf] at h
      have hmem := findType_mem types _ _ hf
      obtain ⟨m, hm1, hm2⟩ := hsz.1 enc hmem
      unfold actualPresence at h
      rw [isPrimitive_eq] at h
      simp only [hp, Bool.false_eq_true, ↓reduceIte, lookup_eq, hf] at h
      have hes : encSize types enc = m := by simp [encSize, hm1]
      cases enc with
      | type t =>
        simp only [Except.ok.injEq, Prod.mk.injEq] at h
        exact ⟨by simp, h.2.symm, by simp [← h.1, hes, hm2]⟩
      | composite n o els a =>
        simp only [Except.ok.injEq, Prod.mk.injEq] at h
        exact ⟨by simp, h.2.symm, by simp [← h.1, hes, hm2]⟩
      | enum n e o vs a =>
        simp only [Except.ok.injEq, Prod.mk.injEq] at h
        exact ⟨by simp, h.2.symm, by simp [← h.1, hes, hm2]⟩
      | set n e o cs a =>
        simp only [Except.ok.injEq, Prod.mk.injEq] at h
        exact ⟨by simp, h.2.symm, by simp [← h.1, hes, hm2]⟩
      | ref n ty o a => simp [fail] at h

theorem vConstantField_ok (hfp : FpAgree) (types : List Elem) (p : Path) (f : FieldDef)
    (u : Unit) (h : vConstantField types p f = .ok u) : constFieldViols types p f = [] := by
  unfold vConstantField at h
  unfold constFieldViols
  rw [isPrimitive_eq] at h
  by_cases hp : isPrim f.type = true
  · simp only [hp, ↓reduceIte] at h ⊢
    cases hv : f.valueRef with
    | none => simp [hv, fail] at h
    | some r =>
      simp only [hv] at h ⊢
      rw [findValueRef_eq] at h
      unfold valueRefViols
      cases hr : resolveValueRef types r with
      | error c => simp [hr, fail, bind, Except.bind] at h
      | ok x =>
        obtain ⟨n, enc, v⟩ := x
        simp only [hr, bind_ok, Except.ok.injEq, exists_eq_left', need_ok] at h
        rw [valueRefFits_eq hfp types r n enc f.type v hr hp] at h
        simp [h]
  · simp only [hp, Bool.false_eq_true, ↓reduceIte, lookup_eq] at h ⊢
    cases hf : findType types f.type with
    | none => rfl
    | some enc =>
      cases enc with
      | composite n o els a => simp [hf, fail] at h
      | enum n e o vs a =>
        simp only [hf] at h ⊢
        cases hv : f.valueRef with
        | none => simp [hv, fail] at h
        | some r =>
          simp only [hv] at h ⊢
          rw [findValueRef_eq] at h
          cases hr : resolveValueRef types r with
          | error c => simp [hr, fail, bind, Except.bind] at h
          | ok x =>
            obtain ⟨n', enc', v⟩ := x
            simp only [hr, bind_ok, Except.ok.injEq, exists_eq_left', need_ok] at h
            simp [h]
      | _ => rfl

theorem vFields_ok (hfp : FpAgree) (types : List Elem) (hsz : SizesAgree types) (lp : Path) :
    ∀ (fields : List FieldDef) (cur e : Nat), vFields types lp cur fields = .ok e →
      (∀ f ∈ fields, symbolicName f.name = true ∧ fieldViols types lp f = []) ∧
      (fieldMinima types cur fields).filterMap (fieldOffsetViol types lp) = [] ∧ fieldsEnd types cur fields = some e := by
  intro fields
  induction fields with
  | nil =>
    intro cur e h
    simp only [vFields, Except.ok.injEq] at h
    subst h
    simp [fieldMinima, fieldsEnd]
  | cons f rest ih =>
    intro cur e h
    simp only [vFields, bind_ok, vName_ok, exists_const] at h
    obtain ⟨hname, info, hinfo, hrest⟩ := h
    obtain ⟨sz, pr⟩ := info
    obtain ⟨g1, g2, g3⟩ := fieldInfo_ok types hsz _ f sz pr hinfo
    subst g2
    simp only at hrest
    by_cases hc : (fieldPresence types f == Presence.constant) = true
    · simp only [hc, ↓reduceIte, bind_ok, exists_const] at hrest
      obtain ⟨_, hcf, hr⟩ := hrest
      obtain ⟨r1, r2, r3⟩ := ih cur e hr
      have hcv := vConstantField_ok hfp types _ f _ hcf
      refine ⟨?_, by simp [fieldMinima, hc, r2], by simp [fieldsEnd, hc, r3]⟩
      intro f' hf'
      rcases List.mem_cons.mp hf' with rfl | hf'
      · exact ⟨hname, by simp [fieldViols, g1, hc, hcv]⟩
      · exact r1 f' hf'
    · simp only [hc, Bool.false_eq_true, ↓reduceIte] at hrest
      have hfv : fieldViols types lp f = [] := by simp [fieldViols, g1, hc]
      cases ho : f.offset with
      | none =>
        simp only [ho, bind_ok, vAdvance_ok] at hrest
        obtain ⟨next, ⟨hfit, rfl⟩, hrest⟩ := hrest
        obtain ⟨r1, r2, r3⟩ := ih _ e hrest
        refine ⟨?_, ?_, ?_⟩
        · intro f' hf'
          rcases List.mem_cons.mp hf' with rfl | hf'
          · exact ⟨hname, hfv⟩
          · exact r1 f' hf'
        · have hv : fieldOffsetViol types lp (f, cur) = none :=
            (fieldOffsetViol_none types lp f cur sz g3).mpr ⟨by simp [ho], by simpa [ho] using hfit⟩
          simp [fieldMinima, hc, g3, ho, r2, hv]
        · simp [fieldsEnd, hc, g3, ho, r3]
      | some o =>
        simp only [ho] at hrest
        by_cases hlt : o < cur
        · simp [hlt, fail] at hrest
        · simp only [hlt, ↓reduceIte, bind_ok, vAdvance_ok] at hrest
          obtain ⟨next, ⟨hfit, rfl⟩, hrest⟩ := hrest
          obtain ⟨r1, r2, r3⟩ := ih _ e hrest
          refine ⟨?_, ?_, ?_⟩
          · intro f' hf'
            rcases List.mem_cons.mp hf' with rfl | hf'
            · exact ⟨hname, hfv⟩
            · exact r1 f' hf'
          · have hv : fieldOffsetViol types lp (f, cur) = none :=
              (fieldOffsetViol_none types lp f cur sz g3).mpr
                ⟨by intro x hx; rw [ho] at hx; cases hx; omega, by simpa [ho] using hfit⟩
            simp [fieldMinima, hc, g3, ho, r2, hv]
          · simp [fieldsEnd, hc, g3, ho, r3]


/-! ### levels -/

/-- one level (message or group body) obeys every rule that concerns it -/
def LevelGood (types : List Elem) (l : LevelView) : Prop :=
  (∀ f ∈ l.fields, symbolicName f.name = true) ∧ (∀ g ∈ l.groups, symbolicName (gName g) = true) ∧
  (∀ d ∈ l.datas, symbolicName d.name = true) ∧ levelViols types l = []

theorem vDatas_ok (types : List Elem) (hsz : SizesAgree types) (lp : Path) :
    ∀ (datas : List DataDef) (u : Unit), vDatas types lp datas = .ok u →
      ∀ d ∈ datas, symbolicName d.name = true ∧ headerViols types (lp ++ [d.name]) d.type ["length"] true = [] := by
  intro datas
  induction datas with
  | nil => intro u _ d hd; simp at hd
  | cons d rest ih =>
    intro u h d' hd'
    simp only [vDatas, bind_ok, vName_ok, vDataHeader_ok types hsz, exists_const] at h
    obtain ⟨h1, h2, h3⟩ := h
    rcases List.mem_cons.mp hd' with rfl | hd'
    · exact ⟨h1, h2⟩
    · exact ih u h3 d' hd'

theorem valueFits_all (hfp : FpAgree) (prim v : String) : valueFitsIntoType v prim = representable prim v := by
  by_cases hp : isPrim prim = true
  · exact valueFits_eq hfp prim v hp
  · unfold valueFitsIntoType representable
    have hf : prim ≠ "float" := by intro h; subst h; exact hp (by decide)
    have hd : prim ≠ "double" := by intro h; subst h; exact hp (by decide)
    have hi : intTy prim = none := by
      unfold isPrim primBytes at hp
      unfold intTy
      split <;> simp_all
    have hr : intRange prim = none := by
      unfold isPrim primBytes at hp
      unfold intRange
      split <;> simp_all
    simp [hi, hf, hd, intRepresentable, hr]

/-- member `name` of the header composite `hdr`, if it exists, is a `<type>` or a `<ref>` to one -/
def HdrResolves (types : List Elem) (hdr name : String) : Prop :=
  ∀ n o elems a, findType types hdr = some (.composite n o elems a) →
    (elems.find? (fun e => e.name == name)).isSome = true →
    ∃ t ep, headerMemberType types ["types", n] elems name = .ok (t, ep)

theorem headerMemberViols_resolves (types : List Elem) (hp : Path) (elems : List Elem) (name : String) (vd : Bool)
    (h : headerMemberViols types hp elems name vd = []) : ∃ t ep, headerMemberType types hp elems name = .ok (t, ep) := by
  unfold headerMemberViols at h
  cases hm : headerMemberType types hp elems name with
  | error v => simp [hm] at h
  | ok x => exact ⟨x.1, x.2, rfl⟩

theorem hdrResolves_of_valid (types : List Elem) (user : Path) (hdr : String) (required : List String)
    (h : headerViols types user hdr required false = []) (name : String)
    (hn : name ∈ required ∨ name ∈ optionalCounters) : HdrResolves types hdr name := by
  intro n o elems a hf hpres
  unfold headerViols at h
  simp only [hf, Bool.false_eq_true, ↓reduceIte, List.append_eq_nil_iff, List.flatMap_eq_nil_iff] at h
  rcases hn with hn | hn
  · exact headerMemberViols_resolves types _ elems name false (h.1 name hn)
  · have := h.2 name hn
    simp only [hpres, ↓reduceIte] at this
    exact headerMemberViols_resolves types _ elems name false this

theorem vHeaderValue_ok (hfp : FpAgree) (types : List Elem) (hdr name : String) (value : Nat) (loc : Path) (u : Unit)
    (hres : HdrResolves types hdr name) :
    vHeaderValue types hdr name value loc = .ok u ↔ headerValueViols types hdr name value loc = [] := by
  unfold vHeaderValue headerValueViols
  rw [lookup_eq]
  cases hf : findType types hdr with
  | none => simp
  | some e =>
    cases e with
    | composite n o elems a =>
      simp only
      by_cases hpres : (elems.find? (fun e => e.name == name)).isNone = true
      · simp only [hpres, ↓reduceIte, true_iff]
        have : headerMemberType types ["types", n] elems name = .error (.headerMissingElement, ["types", n]) := by
          unfold headerMemberType
          rw [Option.isNone_iff_eq_none.mp hpres]
        simp [this]
      · simp only [hpres, Bool.false_eq_true, ↓reduceIte]
        obtain ⟨t, ep, hm⟩ := hres n o elems a hf (by
          cases hx : elems.find? (fun e => e.name == name) with
          | none => simp [hx] at hpres
          | some _ => rfl)
        rw [levelHeaderElement_eq, hm]
        simp only [bind_ok, Except.ok.injEq, exists_eq_left', need_ok, valueFits_all hfp]
        cases representable t.prim (toString value) <;> simp
    | _ => simp

/-- what `validate_block_length` and the counter checks establish -/
def levelValueViols (types : List Elem) (hdr : String) (p : Path) (bl : Option Nat) (fields : List FieldDef)
    (ng nd : Nat) : List Viol :=
  blockLengthViols types p bl fields ++
  (match fieldsEnd types 0 fields with
   | some e => headerValueViols types hdr "blockLength" (bl.getD e) p
   | none => []) ++
  headerValueViols types hdr "numGroups" ng p ++
  headerValueViols types hdr "numVarDataFields" nd p

/-- the members a level writes into its header resolve -/
def HdrValid (types : List Elem) (hdr : String) : Prop :=
  HdrResolves types hdr "blockLength" ∧ HdrResolves types hdr "numGroups" ∧ HdrResolves types hdr "numVarDataFields"

theorem vLevelValues_ok (hfp : FpAgree) (types : List Elem) (hdr : String) (hv : HdrValid types hdr) (p : Path)
    (bl : Option Nat) (fields : List FieldDef) (off ng nd : Nat) (hend : fieldsEnd types 0 fields = some off) (u : Unit) :
    vLevelValues types hdr p bl off ng nd = .ok u ↔ levelValueViols types hdr p bl fields ng nd = [] := by
  unfold vLevelValues levelValueViols blockLengthViols Schema.blockLength
  rw [hend]
  obtain ⟨r1, r2, r3⟩ := hv
  cases bl with
  | none =>
    simp only [bind_ok, exists_const, vHeaderValue_ok hfp types hdr _ _ _ _ r1, vHeaderValue_ok hfp types hdr _ _ _ _ r2,
      vHeaderValue_ok hfp types hdr _ _ _ _ r3, Option.getD_none, List.nil_append, List.append_eq_nil_iff]
    constructor
    · rintro ⟨h1, h2, h3⟩; exact ⟨⟨h1, h2⟩, h3⟩
    · rintro ⟨⟨h1, h2⟩, h3⟩; exact ⟨h1, h2, h3⟩
  | some b =>
    by_cases hlt : b < off
    · simp [hlt, fail]
    · simp only [hlt, ↓reduceIte, bind_ok, exists_const, vHeaderValue_ok hfp types hdr _ _ _ _ r1,
        vHeaderValue_ok hfp types hdr _ _ _ _ r2, vHeaderValue_ok hfp types hdr _ _ _ _ r3, Option.getD_some,
        List.nil_append, List.append_eq_nil_iff]
      constructor
      · rintro ⟨h1, h2, h3⟩; exact ⟨⟨h1, h2⟩, h3⟩
      · rintro ⟨⟨h1, h2⟩, h3⟩; exact ⟨h1, h2, h3⟩

theorem hdrValid_of_valid (types : List Elem) (user : Path) (hdr : String) (required : List String)
    (hb : "blockLength" ∈ required) (h : headerViols types user hdr required false = []) : HdrValid types hdr :=
  ⟨hdrResolves_of_valid types user hdr required h _ (Or.inl hb),
   hdrResolves_of_valid types user hdr required h _ (Or.inr (by simp [optionalCounters])),
   hdrResolves_of_valid types user hdr required h _ (Or.inr (by simp [optionalCounters]))⟩

theorem level_good (types : List Elem) (hdr : String) (lp : Path) (bl : Option Nat) (fields : List FieldDef)
    (groups : List GroupDef) (datas : List DataDef) (off : Nat)
    (hf : (∀ f ∈ fields, symbolicName f.name = true ∧ fieldViols types lp f = []) ∧
      (fieldMinima types 0 fields).filterMap (fieldOffsetViol types lp) = [] ∧ fieldsEnd types 0 fields = some off)
    (hb : levelValueViols types hdr lp bl fields groups.length datas.length = [])
    (hg : ∀ g ∈ groups, symbolicName (gName g) = true ∧
      headerViols types (lp ++ [gName g]) (gDim g) ["numInGroup", "blockLength"] false = [])
    (hd : ∀ d ∈ datas, symbolicName d.name = true ∧ headerViols types (lp ++ [d.name]) d.type ["length"] true = []) :
    LevelGood types ⟨lp, bl, fields, groups, datas, hdr⟩ := by
  refine ⟨fun f h => (hf.1 f h).1, fun g h => (hg g h).1, fun d h => (hd d h).1, ?_⟩
  unfold levelValueViols at hb
  unfold levelViols
  simp only [List.append_eq_nil_iff, List.flatMap_eq_nil_iff] at hb ⊢
  exact ⟨⟨⟨⟨⟨⟨⟨fun f h => (hf.1 f h).2, hf.2.1⟩, hb.1.1.1⟩, hb.1.1.2⟩, hb.1.2⟩, hb.2⟩, fun g h => (hg g h).2⟩,
    fun d h => (hd d h).2⟩

section Levels
variable (hfp : FpAgree) (types : List Elem) (hsz : SizesAgree types)
include hfp hsz

mutual
  theorem vGroup_ok :
      ∀ (lp : Path) (g : GroupDef) (u : Unit), vGroup types lp g = .ok u →
        (symbolicName (gName g) = true ∧
          headerViols types (lp ++ [gName g]) (gDim g) ["numInGroup", "blockLength"] false = []) ∧
        ∀ l ∈ groupLevels lp g, LevelGood types l
    | lp, .mk n id dim bl fields groups datas a, u, h => by
      simp only [vGroup, bind_ok, vName_ok, vLevelHeader_ok, exists_const] at h
      obtain ⟨h1, h2, off, hoff, _, hbl, _, hgs, hds⟩ := h
      have hf := vFields_ok hfp types hsz (lp ++ [n]) fields 0 off hoff
      have hv := hdrValid_of_valid types _ dim _ (by simp) h2
      have hb := (vLevelValues_ok hfp types dim hv (lp ++ [n]) bl fields off _ _ hf.2.2 _).mp hbl
      obtain ⟨g1, g2⟩ := vGroups_ok (lp ++ [n]) groups _ hgs
      have hd := vDatas_ok types hsz (lp ++ [n]) datas _ hds
      refine ⟨⟨h1, h2⟩, ?_⟩
      intro l hl
      simp only [groupLevels, List.mem_cons] at hl
      rcases hl with rfl | hl
      · exact level_good types dim _ bl fields groups datas off hf hb g1 hd
      · exact g2 l hl
  theorem vGroups_ok :
      ∀ (lp : Path) (gs : List GroupDef) (u : Unit), vGroups types lp gs = .ok u →
        (∀ g ∈ gs, symbolicName (gName g) = true ∧
          headerViols types (lp ++ [gName g]) (gDim g) ["numInGroup", "blockLength"] false = []) ∧
        ∀ l ∈ groupLevelsL lp gs, LevelGood types l
    | lp, [], u, h => by simp [groupLevelsL]
    | lp, g :: rest, u, h => by
      simp only [vGroups, bind_ok, exists_const] at h
      obtain ⟨_, hg, hr⟩ := h
      obtain ⟨a1, a2⟩ := vGroup_ok lp g _ hg
      obtain ⟨b1, b2⟩ := vGroups_ok lp rest _ hr
      refine ⟨?_, ?_⟩
      · intro g' hg'
        rcases List.mem_cons.mp hg' with rfl | hg'
        · exact a1
        · exact b1 g' hg'
      · intro l hl
        simp only [groupLevelsL, List.mem_append] at hl
        rcases hl with hl | hl
        · exact a2 l hl
        · exact b2 l hl
end

theorem vMessage_ok (hdr : String) (hv : HdrValid types hdr) (ht : HdrResolves types hdr "templateId")
    (m : MessageDef) (u : Unit) (h : vMessage types hdr m = .ok u) :
    symbolicName m.name = true ∧ headerValueViols types hdr "templateId" m.id (msgPath m) = [] ∧
    ∀ l ∈ messageLevels hdr m, LevelGood types l := by
  simp only [vMessage, bind_ok, vName_ok, exists_const, vHeaderValue_ok hfp types hdr _ _ _ _ ht] at h
  obtain ⟨h1, htid, off, hoff, _, hbl, _, hgs, hds⟩ := h
  have hf := vFields_ok hfp types hsz _ m.fields 0 off hoff
  have hb := (vLevelValues_ok hfp types hdr hv _ m.blockLength m.fields off _ _ hf.2.2 _).mp hbl
  obtain ⟨g1, g2⟩ := vGroups_ok hfp types hsz _ m.groups _ hgs
  have hd := vDatas_ok types hsz _ m.datas _ hds
  refine ⟨h1, htid, ?_⟩
  intro l hl
  simp only [messageLevels, List.mem_cons] at hl
  rcases hl with rfl | hl
  · exact level_good types hdr _ m.blockLength m.fields m.groups m.datas off hf hb g1 hd
  · exact g2 l hl

end Levels

/-- after a successful `validate_messages`: the message header, the values written into it and every level of every
message obey their rules -/
theorem messagesPhase_good (hfp : FpAgree) (s : SchemaDef) (hsz : SizesAgree s.types)
    (h : messagesPhase s = .ok ()) :
    headerViols s.types ["schema"] s.headerType ["schemaId", "templateId", "version", "blockLength"] false = [] ∧
    headerValueViols s.types s.headerType "schemaId" s.id ["schema"] = [] ∧
    headerValueViols s.types s.headerType "version" s.version ["schema"] = [] ∧
    (∀ m ∈ s.messages, headerValueViols s.types s.headerType "templateId" m.id (msgPath m) = []) ∧
    (∀ m ∈ s.messages, symbolicName m.name = true) ∧ ∀ l ∈ allLevels s, LevelGood s.types l := by
  simp only [messagesPhase, bind_ok, vLevelHeader_ok, exists_const, allOk_ok] at h
  obtain ⟨h1, _, hid, _, hver, h2⟩ := h
  have hr := fun name hn => hdrResolves_of_valid s.types ["schema"] s.headerType _ h1 name (Or.inl hn)
  have hv := hdrValid_of_valid s.types _ s.headerType _ (by simp) h1
  rw [vHeaderValue_ok hfp _ _ _ _ _ _ (hr _ (by simp))] at hid hver
  have hm := fun m hm => vMessage_ok hfp s.types hsz s.headerType hv (hr _ (by simp)) m _ (h2 m hm)
  refine ⟨h1, hid, hver, fun m h => (hm m h).2.1, fun m h => (hm m h).1, ?_⟩
  intro l hl
  unfold allLevels at hl
  rw [List.mem_flatMap] at hl
  obtain ⟨m, hm', hl⟩ := hl
  exact (hm m hm').2.2 l hl

end Messages

section Parser
open Sbepp.Spec.Rules

/-! ### parser phase -/

theorem fitsBits64 (v : Nat) : fitsBits v 64 = true ↔ v ≤ u64Max := by
  unfold fitsBits u64Max; simp only [decide_eq_true_eq, Nat.reducePow]; omega
theorem fitsBits32 (v : Nat) : fitsBits v 32 = true ↔ v ≤ u32Max := by
  unfold fitsBits u32Max; simp only [decide_eq_true_eq, Nat.reducePow]; omega
theorem fitsBits16 (v : Nat) : fitsBits v 16 = true ↔ v ≤ u16Max := by
  unfold fitsBits u16Max; simp only [decide_eq_true_eq, Nat.reducePow]; omega
theorem fitsBits8 (v : Nat) : fitsBits v 8 = true ↔ v ≤ u8Max := by
  unfold fitsBits u8Max; simp only [decide_eq_true_eq, Nat.reducePow]; omega

theorem optFits64 (o : Option Nat) : optFits o 64 = true ↔ optU64 o = true := by
  unfold optFits optU64
  cases o with
  | none => simp
  | some x => simp [fitsBits64]

theorem pVersions_ok (a : Attrs) (p : Path) (u : Unit) : pVersions a p = .ok u ↔ attrsNumeric a = true := by
  unfold pVersions attrsNumeric
  simp only [bind_ok, need_ok, exists_const, fitsBits64, optFits64, optU64, Bool.and_eq_true, decide_eq_true_eq]

theorem pValidValues_ok (p : Path) : ∀ (vs : List ValidValue) (seen : List String) (u : Unit),
    pValidValues p seen vs = .ok u → (∀ v ∈ vs, vvAttrViols p v = []) ∧ repeats ValidValue.name seen vs = [] := by
  intro vs
  induction vs with
  | nil => intro seen u _; simp [repeats]
  | cons v rest ih =>
    intro seen u h
    simp only [pValidValues, bind_ok, need_ok, pVersions_ok, exists_const] at h
    obtain ⟨h1, h2, h3, h4, h5⟩ := h
    obtain ⟨i1, i2⟩ := ih _ _ h5
    simp only [Bool.not_eq_eq_eq_not, Bool.not_true] at h1 h3 h4
    have h4' : v.name ∉ seen := by simpa using h4
    refine ⟨?_, by simp [repeats, h4', i2]⟩
    intro v' hv'
    rcases List.mem_cons.mp hv' with rfl | hv'
    · simp [vvAttrViols, h1, h2, h3]
    · exact i1 v' hv'

theorem pChoices_ok (p : Path) : ∀ (cs : List Choice) (seen : List String) (u : Unit),
    pChoices p seen cs = .ok u → (∀ c ∈ cs, choiceAttrViols p c = []) ∧ repeats Choice.name seen cs = [] := by
  intro cs
  induction cs with
  | nil => intro seen u _; simp [repeats]
  | cons c rest ih =>
    intro seen u h
    simp only [pChoices, bind_ok, need_ok, pVersions_ok, exists_const, fitsBits8] at h
    obtain ⟨h1, h2, h3, h4, h5⟩ := h
    obtain ⟨i1, i2⟩ := ih _ _ h5
    simp only [Bool.not_eq_eq_eq_not, Bool.not_true] at h1 h4
    have h4' : c.name ∉ seen := by simpa using h4
    refine ⟨?_, by simp [repeats, h4', i2]⟩
    intro c' hc'
    rcases List.mem_cons.mp hc' with rfl | hc'
    · have : ¬ c'.index > u8Max := by omega
      simp [choiceAttrViols, h1, h2, this]
    · exact i1 c' hc'

/-- what the parser establishes about one encoding -/
def ParsedOk (q : Path) (x : Elem) : Prop := attrViolsElem q x = [] ∧ dupViolsElem q x = []

mutual
  theorem pElem_ok : ∀ (e : Elem) (p : Path) (u : Unit), pElem p e = .ok u →
      ∀ q x, (q, x) ∈ subElems p e → ParsedOk q x
    | .type t, p, u, h => by
      intro q x hm
      simp only [subElems, List.mem_singleton, Prod.mk.injEq] at hm
      obtain ⟨rfl, rfl⟩ := hm
      simp only [pElem, pType, bind_ok, need_ok, pVersions_ok, exists_const, fitsBits64, optFits64] at h
      obtain ⟨h1, h2, h3, h4, h5⟩ := h
      simp only [Bool.not_eq_eq_eq_not, Bool.not_true] at h1 h4
      have : ¬ t.length > u64Max := by omega
      exact ⟨by simp [attrViolsElem, Elem.name, elemOffset, elemAttrs, h1, h3, h4, h5, this], rfl⟩
    | .enum n enc o vs a, p, u, h => by
      intro q x hm
      simp only [subElems, List.mem_singleton, Prod.mk.injEq] at hm
      obtain ⟨rfl, rfl⟩ := hm
      simp only [pElem, bind_ok, need_ok, pVersions_ok, exists_const, optFits64] at h
      obtain ⟨h1, h2, h3, h4, h5⟩ := h
      obtain ⟨i1, i2⟩ := pValidValues_ok _ _ _ _ h5
      simp only [Bool.not_eq_eq_eq_not, Bool.not_true] at h1 h2
      exact ⟨by simp [attrViolsElem, Elem.name, elemOffset, elemAttrs, h1, h2, h3, h4]; exact i1, by simp [dupViolsElem, i2]⟩
    | .set n enc o cs a, p, u, h => by
      intro q x hm
      simp only [subElems, List.mem_singleton, Prod.mk.injEq] at hm
      obtain ⟨rfl, rfl⟩ := hm
      simp only [pElem, bind_ok, need_ok, pVersions_ok, exists_const, optFits64] at h
      obtain ⟨h1, h2, h3, h4, h5⟩ := h
      obtain ⟨i1, i2⟩ := pChoices_ok _ _ _ _ h5
      simp only [Bool.not_eq_eq_eq_not, Bool.not_true] at h1 h2
      exact ⟨by simp [attrViolsElem, Elem.name, elemOffset, elemAttrs, h1, h2, h3, h4]; exact i1, by simp [dupViolsElem, i2]⟩
    | .ref n ty o a, p, u, h => by
      intro q x hm
      simp only [subElems, List.mem_singleton, Prod.mk.injEq] at hm
      obtain ⟨rfl, rfl⟩ := hm
      simp only [pElem, bind_ok, need_ok, pVersions_ok, exists_const, optFits64] at h
      obtain ⟨h1, h2, h3, h4⟩ := h
      simp only [Bool.not_eq_eq_eq_not, Bool.not_true] at h1 h2
      exact ⟨by simp [attrViolsElem, Elem.name, elemOffset, elemAttrs, h1, h2, h3, h4], rfl⟩
    | .composite n o elems a, p, u, h => by
      intro q x hm
      simp only [pElem, bind_ok, need_ok, pVersions_ok, exists_const, optFits64] at h
      obtain ⟨h1, h2, h3, h4⟩ := h
      obtain ⟨i1, i2⟩ := pElems_ok elems p [] _ h4
      simp only [Bool.not_eq_eq_eq_not, Bool.not_true] at h1
      simp only [subElems, List.mem_cons, Prod.mk.injEq] at hm
      rcases hm with ⟨rfl, rfl⟩ | hm
      · exact ⟨by simp [attrViolsElem, Elem.name, elemOffset, elemAttrs, h1, h2, h3], by simp [dupViolsElem, i2]⟩
      · exact i1 q x hm
  theorem pElems_ok : ∀ (elems : List Elem) (p : Path) (seen : List String) (u : Unit), pElems p seen elems = .ok u →
      (∀ q x, (q, x) ∈ subElemsL p elems → ParsedOk q x) ∧ repeats Elem.name seen elems = []
    | [], p, seen, u, h => by simp [subElemsL, repeats]
    | e :: rest, p, seen, u, h => by
      simp only [pElems, bind_ok, need_ok, exists_const] at h
      obtain ⟨_, h1, h2, h3⟩ := h
      have a1 := pElem_ok e _ _ h1
      obtain ⟨b1, b2⟩ := pElems_ok rest p _ _ h3
      simp only [Bool.not_eq_eq_eq_not, Bool.not_true] at h2
      have h2' : e.name ∉ seen := by simpa using h2
      refine ⟨?_, by simp [repeats, h2', b2]⟩
      intro q x hm
      simp only [subElemsL, List.mem_append] at hm
      rcases hm with hm | hm
      · exact a1 q x hm
      · exact b1 q x hm
end


theorem repeats_append {α} (key : α → String) : ∀ (a b : List α) (seen : List String),
    repeats key seen a = [] → repeats key seen (a ++ b) = repeats key ((a.map key).reverse ++ seen) b := by
  intro a
  induction a with
  | nil => intro b seen _; simp
  | cons x xs ih =>
    intro b seen h
    by_cases hc : seen.contains (key x) = true
    · have hm : key x ∈ seen := by simpa using hc
      simp [repeats, hm] at h
    · simp only [repeats, hc, Bool.false_eq_true, ↓reduceIte] at h
      simp only [List.cons_append, repeats, hc, Bool.false_eq_true, ↓reduceIte, List.map_cons, List.reverse_cons,
        List.append_assoc, List.singleton_append]
      exact ih b _ h

/-- what the parser establishes about one level -/
def LevelParsed (l : LevelView) : Prop := attrViolsLevel l = [] ∧ dupViolsLevel l = []

theorem pFields_ok (lp : Path) : ∀ (fields : List FieldDef) (seen seen' : List String),
    pFields lp seen fields = .ok seen' →
      seen' = (fields.map FieldDef.name).reverse ++ seen ∧ repeats id seen (fields.map FieldDef.name) = [] ∧
      ∀ f ∈ fields, fieldAttrViols lp f = [] := by
  intro fields
  induction fields with
  | nil => intro seen seen' h; simp only [pFields, Except.ok.injEq] at h; simp [h, repeats]
  | cons f rest ih =>
    intro seen seen' h
    simp only [pFields, pField, bind_ok, need_ok, pVersions_ok, exists_const, fitsBits16, optFits64] at h
    obtain ⟨⟨h1, h2, h3, h4, h5⟩, h6, h7⟩ := h
    obtain ⟨i1, i2, i3⟩ := ih _ _ h7
    simp only [Bool.not_eq_eq_eq_not, Bool.not_true] at h1 h3 h6
    have h6' : f.name ∉ seen := by simpa using h6
    refine ⟨by simp [i1], by simp [repeats, h6', i2], ?_⟩
    intro f' hf'
    rcases List.mem_cons.mp hf' with rfl | hf'
    · simp [fieldAttrViols, h1, h2, h3, h4, h5]
    · exact i3 f' hf'

theorem pDatas_ok (lp : Path) : ∀ (datas : List DataDef) (seen : List String) (u : Unit),
    pDatas lp seen datas = .ok u →
      repeats id seen (datas.map DataDef.name) = [] ∧ ∀ d ∈ datas, dataAttrViols lp d = [] := by
  intro datas
  induction datas with
  | nil => intro seen u h; simp [repeats]
  | cons d rest ih =>
    intro seen u h
    simp only [pDatas, pData, bind_ok, need_ok, pVersions_ok, exists_const, fitsBits16] at h
    obtain ⟨⟨h1, h2, h3, h4⟩, h6, h7⟩ := h
    obtain ⟨i2, i3⟩ := ih _ _ h7
    simp only [Bool.not_eq_eq_eq_not, Bool.not_true] at h1 h3 h6
    have h6' : d.name ∉ seen := by simpa using h6
    refine ⟨by simp [repeats, h6', i2], ?_⟩
    intro d' hd'
    rcases List.mem_cons.mp hd' with rfl | hd'
    · simp [dataAttrViols, h1, h2, h3, h4]
    · exact i3 d' hd'

theorem level_parsed (hdr : String) (lp : Path) (bl : Option Nat) (fields : List FieldDef) (groups : List GroupDef) (datas : List DataDef)
    (hbl : optU64 bl = true)
    (hf : repeats id [] (fields.map FieldDef.name) = [] ∧ ∀ f ∈ fields, fieldAttrViols lp f = [])
    (hg : repeats id ((fields.map FieldDef.name).reverse ++ []) (groups.map gName) = [] ∧
      ∀ g ∈ groups, groupAttrViols lp g = [])
    (hd : repeats id ((groups.map gName).reverse ++ ((fields.map FieldDef.name).reverse ++ [])) (datas.map DataDef.name) = [] ∧
      ∀ d ∈ datas, dataAttrViols lp d = []) :
    LevelParsed ⟨lp, bl, fields, groups, datas, hdr⟩ := by
  constructor
  · unfold attrViolsLevel
    simp only [hbl, Bool.not_true, Bool.false_eq_true, ↓reduceIte, List.nil_append, List.append_eq_nil_iff,
      List.flatMap_eq_nil_iff]
    exact ⟨⟨hf.2, hg.2⟩, hd.2⟩
  · unfold dupViolsLevel
    simp only [List.map_eq_nil_iff]
    rw [List.append_assoc, repeats_append id _ _ _ hf.1]
    simp only [List.map_id]
    rw [repeats_append id _ _ _ hg.1]
    simp only [List.map_id]
    exact hd.1

mutual
  theorem pGroup_ok : ∀ (g : GroupDef) (lp : Path) (u : Unit), pGroup lp g = .ok u →
      groupAttrViols lp g = [] ∧ ∀ l ∈ groupLevels lp g, LevelParsed l
    | .mk n id dim bl fields groups datas a, lp, u, h => by
      simp only [pGroup, bind_ok, need_ok, pVersions_ok, exists_const, fitsBits16, optFits64] at h
      obtain ⟨h1, h2, h3, h4, s1, hf, s2, hg, hd⟩ := h
      obtain ⟨f1, f2, f3⟩ := pFields_ok _ _ _ _ hf
      subst f1
      obtain ⟨g1, g2, g3, g4⟩ := pGroups_ok groups _ _ _ hg
      subst g1
      obtain ⟨d2, d3⟩ := pDatas_ok _ _ _ _ hd
      simp only [Bool.not_eq_eq_eq_not, Bool.not_true] at h1
      refine ⟨by simp [groupAttrViols, gName, gId, gAttrs, h1, h2, h4], ?_⟩
      intro l hl
      simp only [groupLevels, List.mem_cons] at hl
      rcases hl with rfl | hl
      · exact level_parsed dim _ bl fields groups datas h3 ⟨f2, f3⟩ ⟨g2, g3⟩ ⟨d2, d3⟩
      · exact g4 l hl
  theorem pGroups_ok : ∀ (gs : List GroupDef) (lp : Path) (seen seen' : List String), pGroups lp seen gs = .ok seen' →
      seen' = (gs.map gName).reverse ++ seen ∧ repeats id seen (gs.map gName) = [] ∧
      (∀ g ∈ gs, groupAttrViols lp g = []) ∧ ∀ l ∈ groupLevelsL lp gs, LevelParsed l
    | [], lp, seen, seen', h => by
      simp only [pGroups, Except.ok.injEq] at h
      simp [h, repeats, groupLevelsL]
    | g :: rest, lp, seen, seen', h => by
      simp only [pGroups, bind_ok, need_ok, exists_const] at h
      obtain ⟨_, h1, h2, h3⟩ := h
      obtain ⟨a1, a2⟩ := pGroup_ok g lp _ h1
      obtain ⟨b1, b2, b3, b4⟩ := pGroups_ok rest lp _ _ h3
      simp only [Bool.not_eq_eq_eq_not, Bool.not_true] at h2
      have h2' : gName g ∉ seen := by simpa using h2
      refine ⟨by simp [b1], by simp [repeats, h2', b2], ?_, ?_⟩
      · intro g' hg'
        rcases List.mem_cons.mp hg' with rfl | hg'
        · exact a1
        · exact b3 g' hg'
      · intro l hl
        simp only [groupLevelsL, List.mem_append] at hl
        rcases hl with hl | hl
        · exact a2 l hl
        · exact b4 l hl
end

theorem pMessages_ok (hdr : String) : ∀ (ms : List MessageDef) (names : List String) (ids : List Nat) (u : Unit),
    pMessages names ids ms = .ok u →
      repeats MessageDef.name names ms = [] ∧ repeatsNat MessageDef.id ids ms = [] ∧
      ∀ m ∈ ms, msgAttrViols m = [] ∧ ∀ l ∈ messageLevels hdr m, LevelParsed l := by
  intro ms
  induction ms with
  | nil => intro names ids u _; simp [repeats, repeatsNat]
  | cons m rest ih =>
    intro names ids u h
    simp only [pMessages, bind_ok, need_ok, pVersions_ok, exists_const, fitsBits32, optFits64] at h
    obtain ⟨h1, h2, h3, h4, s1, hf, s2, hg, _, hd, h5, h6, h7⟩ := h
    obtain ⟨f1, f2, f3⟩ := pFields_ok _ _ _ _ hf
    subst f1
    obtain ⟨g1, g2, g3, g4⟩ := pGroups_ok m.groups _ _ _ hg
    subst g1
    obtain ⟨d2, d3⟩ := pDatas_ok _ _ _ _ hd
    obtain ⟨i1, i2, i3⟩ := ih _ _ _ h7
    simp only [Bool.not_eq_eq_eq_not, Bool.not_true] at h1 h5 h6
    have h5' : m.name ∉ names := by simpa using h5
    have h6' : m.id ∉ ids := by simpa using h6
    refine ⟨by simp [repeats, h5', i1], by simp [repeatsNat, h6', i2], ?_⟩
    intro m' hm'
    rcases List.mem_cons.mp hm' with rfl | hm'
    · refine ⟨by simp [msgAttrViols, h1, h2, h4], ?_⟩
      intro l hl
      simp only [messageLevels, List.mem_cons] at hl
      rcases hl with rfl | hl
      · exact level_parsed hdr _ m'.blockLength m'.fields m'.groups m'.datas h3 ⟨f2, f3⟩ ⟨g2, g3⟩ ⟨d2, d3⟩
      · exact g4 l hl
    · exact i3 m' hm'

theorem pTypes_repeats : ∀ (types : List Elem) (seen : List String) (u : Unit), pTypes seen types = .ok u →
    repeats (fun (e : Elem) => e.name.toLower) seen types = [] := by
  intro types
  induction types with
  | nil => intro seen u _; simp [repeats]
  | cons x xs ih =>
    intro seen u h
    simp only [pTypes, bind_ok, need_ok, exists_const] at h
    obtain ⟨_, _, h2, h3⟩ := h
    simp only [Bool.not_eq_eq_eq_not, Bool.not_true] at h2
    have h2' : x.name.toLower ∉ seen := by simpa using h2
    simp [repeats, h2', ih _ _ h3]

/-- after a successful parse: numeric attributes in range, required strings non-empty, names unique per scope -/
theorem parsePhase_good (s : SchemaDef) (h : parsePhase s = .ok ()) :
    attrViols s = [] ∧ dupViols s = [] ∧ (lowerNames s.types).Nodup := by
  simp only [parsePhase, bind_ok, need_ok, exists_const, fitsBits32, fitsBits64] at h
  obtain ⟨h1, h2, _, ht, hm⟩ := h
  obtain ⟨t1, _, t3⟩ := pTypes_ok _ _ _ ht
  have t4 := pTypes_repeats _ _ _ ht
  obtain ⟨m1, m2, m3⟩ := pMessages_ok s.headerType _ _ _ _ hm
  have helems : ∀ q x, (q, x) ∈ allElems s → ParsedOk q x := by
    intro q x hx
    unfold allElems at hx
    rw [List.mem_flatMap] at hx
    obtain ⟨t, htm, hx⟩ := hx
    exact pElem_ok t _ _ (t3 t htm) q x hx
  have hlevels : ∀ l ∈ allLevels s, LevelParsed l := by
    intro l hl
    unfold allLevels at hl
    rw [List.mem_flatMap] at hl
    obtain ⟨m, hmm, hl⟩ := hl
    exact (m3 m hmm).2 l hl
  refine ⟨?_, ?_, t1⟩
  · unfold attrViols
    simp only [h1, h2, Bool.and_self, decide_true, Bool.not_true, Bool.false_eq_true, ↓reduceIte, List.nil_append,
      List.append_eq_nil_iff, List.flatMap_eq_nil_iff]
    exact ⟨⟨fun x hx => (helems x.1 x.2 hx).1, fun m hm' => (m3 m hm').1⟩, fun l hl => (hlevels l hl).1⟩
  · unfold dupViols
    simp only [t4, m1, m2, List.map_nil, List.nil_append, List.append_nil, List.append_eq_nil_iff,
      List.flatMap_eq_nil_iff]
    exact ⟨fun x hx => (helems x.1 x.2 hx).2, fun l hl => (hlevels l hl).2⟩


end Parser

section Assembly
open Sbepp.Spec.Rules

/-! ### C++ validator phase -/

theorem cName_ok (n : String) (p : Path) (u : Unit) : cName n p = .ok u ↔ isKeyword n = false := by
  unfold cName; rw [need_ok, keyword_eq]; simp

def subNamesNotKw : Elem → Prop
  | .enum _ _ _ vs _ => ∀ v ∈ vs, isKeyword v.name = false
  | .set _ _ _ cs _ => ∀ c ∈ cs, isKeyword c.name = false
  | _ => True

mutual
  theorem cElem_ok : ∀ (e : Elem) (p : Path) (n : Nat), cElem p e = .ok n →
      ∀ q x, (q, x) ∈ subElems p e → isKeyword x.name = false ∧ subNamesNotKw x
    | .type t, p, n, h => by
      intro q x hm
      simp only [subElems, List.mem_singleton, Prod.mk.injEq] at hm
      obtain ⟨rfl, rfl⟩ := hm
      simp only [cElem, bind_ok, cName_ok, exists_const] at h
      exact ⟨h.1, trivial⟩
    | .enum nm enc o vs a, p, n, h => by
      intro q x hm
      simp only [subElems, List.mem_singleton, Prod.mk.injEq] at hm
      obtain ⟨rfl, rfl⟩ := hm
      simp only [cElem, bind_ok, cName_ok, exists_const, allOk_ok] at h
      exact ⟨h.1, h.2.1⟩
    | .set nm enc o cs a, p, n, h => by
      intro q x hm
      simp only [subElems, List.mem_singleton, Prod.mk.injEq] at hm
      obtain ⟨rfl, rfl⟩ := hm
      simp only [cElem, bind_ok, cName_ok, exists_const, allOk_ok] at h
      exact ⟨h.1, h.2.1⟩
    | .ref nm ty o a, p, n, h => by
      intro q x hm
      simp only [subElems, List.mem_singleton, Prod.mk.injEq] at hm
      obtain ⟨rfl, rfl⟩ := hm
      simp only [cElem, bind_ok, cName_ok, exists_const] at h
      exact ⟨h.1, trivial⟩
    | .composite nm o elems a, p, n, h => by
      intro q x hm
      simp only [cElem, bind_ok, cName_ok, exists_const] at h
      simp only [subElems, List.mem_cons, Prod.mk.injEq] at hm
      rcases hm with ⟨rfl, rfl⟩ | hm
      · exact ⟨h.1, trivial⟩
      · exact cElems_ok elems p n h.2 q x hm
  theorem cElems_ok : ∀ (elems : List Elem) (p : Path) (n : Nat), cElems p elems = .ok n →
      ∀ q x, (q, x) ∈ subElemsL p elems → isKeyword x.name = false ∧ subNamesNotKw x
    | [], p, n, h => by simp [subElemsL]
    | e :: rest, p, n, h => by
      simp only [cElems, bind_ok] at h
      obtain ⟨m, h1, h2⟩ := h
      intro q x hm
      simp only [subElemsL, List.mem_append] at hm
      rcases hm with hm | hm
      · exact cElem_ok e _ m h1 q x hm
      · exact cElems_ok rest p n h2 q x hm
end

/-- the member names of one level are not keywords -/
def LevelNotKw (l : LevelView) : Prop :=
  (∀ f ∈ l.fields, isKeyword f.name = false) ∧ (∀ g ∈ l.groups, isKeyword (gName g) = false) ∧
  (∀ d ∈ l.datas, isKeyword d.name = false)

mutual
  theorem cGroup_ok : ∀ (g : GroupDef) (lp : Path) (u : Unit), cGroup lp g = .ok u →
      isKeyword (gName g) = false ∧ ∀ l ∈ groupLevels lp g, LevelNotKw l
    | .mk n id dim bl fields groups datas a, lp, u, h => by
      simp only [cGroup, bind_ok, cName_ok, exists_const, allOk_ok] at h
      obtain ⟨h1, h2, _, h3, h4⟩ := h
      obtain ⟨g1, g2⟩ := cGroups_ok groups _ _ h3
      refine ⟨h1, ?_⟩
      intro l hl
      simp only [groupLevels, List.mem_cons] at hl
      rcases hl with rfl | hl
      · exact ⟨h2, g1, h4⟩
      · exact g2 l hl
  theorem cGroups_ok : ∀ (gs : List GroupDef) (lp : Path) (u : Unit), cGroups lp gs = .ok u →
      (∀ g ∈ gs, isKeyword (gName g) = false) ∧ ∀ l ∈ groupLevelsL lp gs, LevelNotKw l
    | [], lp, u, h => by simp [groupLevelsL]
    | g :: rest, lp, u, h => by
      simp only [cGroups, bind_ok, exists_const] at h
      obtain ⟨_, h1, h2⟩ := h
      obtain ⟨a1, a2⟩ := cGroup_ok g lp _ h1
      obtain ⟨b1, b2⟩ := cGroups_ok rest lp _ h2
      refine ⟨?_, ?_⟩
      · intro g' hg'
        rcases List.mem_cons.mp hg' with rfl | hg'
        · exact a1
        · exact b1 g' hg'
      · intro l hl
        simp only [groupLevelsL, List.mem_append] at hl
        rcases hl with hl | hl
        · exact a2 l hl
        · exact b2 l hl
end

theorem cMessage_ok (hdr : String) (m : MessageDef) (u : Unit) (h : cMessage m = .ok u) :
    isKeyword m.name = false ∧ ∀ l ∈ messageLevels hdr m, LevelNotKw l := by
  simp only [cMessage, bind_ok, cName_ok, exists_const, allOk_ok] at h
  obtain ⟨h1, h2, _, h3, h4⟩ := h
  obtain ⟨g1, g2⟩ := cGroups_ok m.groups _ _ h3
  refine ⟨h1, ?_⟩
  intro l hl
  simp only [messageLevels, List.mem_cons] at hl
  rcases hl with rfl | hl
  · exact ⟨h2, g1, h4⟩
  · exact g2 l hl

theorem cppPhase_good (s : SchemaDef) (h : cppPhase s = .ok ()) :
    validNamespace s.package = true ∧
    (∀ q x, (q, x) ∈ allElems s → isKeyword x.name = false ∧ subNamesNotKw x) ∧
    (∀ m ∈ s.messages, isKeyword m.name = false) ∧ ∀ l ∈ allLevels s, LevelNotKw l := by
  simp only [cppPhase, bind_ok, need_ok, exists_const, anyOrder_ok, firstErrors_nil, allOk_ok] at h
  obtain ⟨h1, h2, h3⟩ := h
  refine ⟨?_, ?_, fun m hm => (cMessage_ok s.headerType m _ (h3 m hm)).1, ?_⟩
  · unfold validNamespace
    rw [symbolic_eq, keyword_eq] at h1
    unfold isReservedCppNamespace at h1
    simp only [Bool.not_eq_eq_eq_not, Bool.not_true, Bool.or_eq_false_iff, Bool.not_eq_false, beq_eq_false_iff_ne, ne_eq] at h1
    simp [h1.1.1, h1.1.2, h1.2.1, h1.2.2]
  · intro q x hx
    unfold allElems at hx
    rw [List.mem_flatMap] at hx
    obtain ⟨t, ht, hx⟩ := hx
    obtain ⟨n, hn⟩ := h2 t ht
    exact cElem_ok t _ n hn q x hx
  · intro l hl
    unfold allLevels at hl
    rw [List.mem_flatMap] at hl
    obtain ⟨m, hm, hl⟩ := hl
    exact (cMessage_ok s.headerType m _ (h3 m hm)).2 l hl


/-! ### assembly: an accepted schema breaks no enforced rule -/

theorem check_phases (s : SchemaDef) :
    check s = .ok () ↔ parsePhase s = .ok () ∧ typesPhase s = .ok () ∧ messagesPhase s = .ok () ∧ cppPhase s = .ok () := by
  simp only [check, bind_ok]
  constructor
  · rintro ⟨_, h1, _, h2, _, h3, h4⟩; exact ⟨h1, h2, h3, h4⟩
  · rintro ⟨h1, h2, h3, h4⟩; exact ⟨(), h1, (), h2, (), h3, h4⟩

theorem nameViols_nil (s : SchemaDef)
    (hE : ∀ q x, (q, x) ∈ allElems s → ElemGood s.types q x)
    (hEk : ∀ q x, (q, x) ∈ allElems s → isKeyword x.name = false ∧ subNamesNotKw x)
    (hM : ∀ m ∈ s.messages, symbolicName m.name = true) (hMk : ∀ m ∈ s.messages, isKeyword m.name = false)
    (hL : ∀ l ∈ allLevels s, LevelGood s.types l) (hLk : ∀ l ∈ allLevels s, LevelNotKw l)
    (hns : validNamespace s.package = true) : nameViols s = [] := by
  unfold nameViols
  simp only [hns, Bool.not_true, Bool.false_eq_true, ↓reduceIte, List.append_nil, List.filterMap_eq_nil_iff]
  have key : ∀ (n : String) (p : Path), symbolicName n = true → isKeyword n = false →
      (if (!symbolicName n) = true then some (DiagClass.invalidName, p)
       else if isKeyword n = true then some (DiagClass.keywordName, p) else none) = none := by
    intro n p h1 h2; simp [h1, h2]
  rintro ⟨n, p⟩ hnp
  simp only
  unfold entityNames at hnp
  simp only [List.mem_append, List.mem_flatMap, List.mem_map, List.mem_cons, Prod.mk.injEq] at hnp
  rcases hnp with (⟨⟨q, x⟩, hx, hnp⟩ | ⟨m, hm, rfl, rfl⟩) | ⟨l, hl, hnp⟩
  · obtain ⟨g1, g2, _⟩ := hE q x hx
    obtain ⟨k1, k2⟩ := hEk q x hx
    rcases hnp with ⟨rfl, rfl⟩ | hnp
    · exact key _ _ g1 k1
    · cases x with
      | enum nm enc o vs a =>
        simp only [List.mem_map, Prod.mk.injEq] at hnp
        obtain ⟨v, hv, rfl, rfl⟩ := hnp
        exact key _ _ (g2 v hv) (k2 v hv)
      | set nm enc o cs a =>
        simp only [List.mem_map, Prod.mk.injEq] at hnp
        obtain ⟨c, hc, rfl, rfl⟩ := hnp
        exact key _ _ (g2 c hc) (k2 c hc)
      | _ => simp at hnp
  · exact key _ _ (hM m hm) (hMk m hm)
  · obtain ⟨g1, g2, g3, _⟩ := hL l hl
    obtain ⟨k1, k2, k3⟩ := hLk l hl
    rcases hnp with (⟨f, hf, rfl, rfl⟩ | ⟨g, hg, rfl, rfl⟩) | ⟨d, hd, rfl, rfl⟩
    · exact key _ _ (g1 f hf) (k1 f hf)
    · exact key _ _ (g2 g hg) (k2 g hg)
    · exact key _ _ (g3 d hd) (k3 d hd)

/-- **completeness of rejection**: a schema the model accepts breaks none of the
    rules sbeppc has a diagnostic for — every rule-breaking schema is rejected. -/
theorem check_ok_no_violation (hfp : FpAgree) (s : SchemaDef)
    (h : check s = .ok ()) : violations s = [] := by
  obtain ⟨hp, ht, hm, hc⟩ := (check_phases s).mp h
  obtain ⟨p1, p2, p3⟩ := parsePhase_good s hp
  obtain ⟨t1, t2⟩ := typesPhase_good hfp s ht
  have t3 := cycleViols_nil hfp s ht
  obtain ⟨m1, mi, mv, mt, m2, m3⟩ := messagesPhase_good hfp s (sizesAgree_of_phase hfp s ht) hm
  obtain ⟨c1, c2, c3, c4⟩ := cppPhase_good s hc
  have n1 := nameViols_nil s t2 c2 m2 c3 m3 c4 c1
  unfold violations
  simp only [p1, p2, n1, t3, m1, mi, mv, List.nil_append, List.append_nil, List.append_eq_nil_iff,
    List.flatMap_eq_nil_iff]
  exact ⟨⟨fun x hx => (t2 x.1 x.2 hx).2.2, mt⟩, fun l hl => (m3 l hl).2.2.2⟩


end Assembly

section Walk
open Sbepp.Spec.Rules

/-! ### which classes a function can report -/

/-- `x` never fails with class `c` -/
structure NotCls {α} (c : DiagClass) (x : R α) : Prop where
  h : ∀ d, x = .error d → d.cls ≠ c

theorem notCls_ok {α} (c : DiagClass) (a : α) : NotCls c (.ok a : R α) := ⟨by intro d h; cases h⟩
theorem notCls_fail {α} (c cls : DiagClass) (p : Path) (h : cls ≠ c) : NotCls c (fail cls p : R α) :=
  ⟨by intro d hd; simp only [fail, Except.error.injEq] at hd; subst hd; exact h⟩
theorem notCls_need (c cls : DiagClass) (b : Bool) (p : Path) (h : cls ≠ c) : NotCls c (need b cls p) := by
  unfold need; split
  · exact notCls_ok c ()
  · exact notCls_fail c cls p h
theorem notCls_bind {α β} (c : DiagClass) (x : R α) (f : α → R β) (hx : NotCls c x) (hf : ∀ a, NotCls c (f a)) :
    NotCls c (x >>= f) := by
  constructor
  intro d hd
  rcases (bind_err x f d).mp hd with h | ⟨a, _, h⟩
  · exact hx.h d h
  · exact (hf a).h d h
theorem notCls_allOk {α} (c : DiagClass) (f : α → R Unit) (l : List α) (h : ∀ x, NotCls c (f x)) : NotCls c (allOk f l) := by
  constructor
  intro d hd
  obtain ⟨x, _, hx⟩ := allOk_err f l d hd
  exact (h x).h d hx

/-- discharge `NotCls c (…)` for straight-line checks -/
macro "notcls" : tactic => `(tactic|
  repeat' (first
    | exact notCls_ok _ _
    | exact notCls_fail _ _ _ (by decide)
    | exact notCls_need _ _ _ _ (by decide)
    | apply notCls_bind
    | apply notCls_allOk
    | intro _
    | split))

/-- the classes that only the reference walk itself can raise -/
def WalkCls (c : DiagClass) : Prop := c = .cyclicReference ∨ c = .fuelExhausted

theorem findValueRef_walk (c : DiagClass) (hc : WalkCls c) (types : List Elem) (r : String) (p : Path) :
    NotCls c (findValueRef types r p) := by
  rcases hc with rfl | rfl <;> (unfold findValueRef; notcls)

theorem vType_walk (c : DiagClass) (hc : WalkCls c) (types : List Elem) (p : Path) (t : TypeDef) :
    NotCls c (vType types p t) := by
  have := findValueRef_walk c hc types
  rcases hc with rfl | rfl <;>
  · unfold vType vConstantValue vOptionalValue vName
    notcls
    all_goals exact this _ _

theorem vEncodingType_walk (c : DiagClass) (hc : WalkCls c) (types : List Elem) (p : Path) (enc : String) :
    NotCls c (vEncodingType types p enc) := by
  rcases hc with rfl | rfl <;> (unfold vEncodingType; notcls)

theorem vValidValues_walk (c : DiagClass) (hc : WalkCls c) (prim : String) (p : Path) (vs : List ValidValue) :
    ∀ seen, NotCls c (vValidValues prim p seen vs) := by
  induction vs with
  | nil => intro seen; exact notCls_ok c ()
  | cons v rest ih =>
    intro seen
    have := ih (normalizedEnumValue prim v :: seen)
    rcases hc with rfl | rfl <;>
    · unfold vValidValues vValidValue vName
      notcls
      all_goals exact this

theorem vEnum_walk (c : DiagClass) (hc : WalkCls c) (types : List Elem) (p : Path) (n enc : String) (vs : List ValidValue) :
    NotCls c (vEnum types p n enc vs) := by
  have := vEncodingType_walk c hc types
  have hv := vValidValues_walk c hc
  rcases hc with rfl | rfl <;>
  · unfold vEnum vName
    notcls
    all_goals first | exact this _ _ | exact hv _ _ _ _

theorem vSet_walk (c : DiagClass) (hc : WalkCls c) (types : List Elem) (p : Path) (n enc : String) (cs : List Choice) :
    NotCls c (vSet types p n enc cs) := by
  have := vEncodingType_walk c hc types
  rcases hc with rfl | rfl <;>
  · unfold vSet vChoice vName
    notcls
    all_goals exact this _ _

theorem vName_walk (c : DiagClass) (hc : WalkCls c) (n : String) (p : Path) : NotCls c (vName n p) := by
  rcases hc with rfl | rfl <;> (unfold vName; notcls)

theorem vElementOffset_walk (c : DiagClass) (hc : WalkCls c) (types : List Elem) (p : Path) (e : Elem) (cur sz : Nat) :
    NotCls c (vElementOffset types p e cur sz) := by
  rcases hc with rfl | rfl <;> (unfold vElementOffset vAdvance; notcls)

theorem uniq_by_name (types : List Elem) (hnd : (lowerNames types).Nodup) (a b : Elem) (ha : a ∈ types) (hb : b ∈ types)
    (h : a.name = b.name) : a = b := by
  have h1 := findType_self types hnd a ha
  have h2 := findType_self types hnd b hb
  rw [h] at h1
  rw [h1] at h2
  exact Option.some.inj h2

/-! ### the cyclic-reference diagnostic is sound -/

/-- the in-progress names are `T` followed by the public encodings on the walk that led to `T` -/
def VisInv (types : List Elem) (vis : List String) (T : Elem) : Prop :=
  T ∈ types ∧ ∃ rest, vis = T.name :: rest ∧
    ∀ v ∈ rest, ∃ tv ty, tv ∈ types ∧ tv.name = v ∧ ReachTy types tv ty ∧ findType types ty = some T

/-- the entity named by `loc` is a public encoding that reaches a reference to itself -/
def OnCycleAt (types : List Elem) (loc : Path) : Prop :=
  ∃ x ty, x ∈ types ∧ loc = ["types", x.name] ∧ ReachTy types x ty ∧ findType types ty = some x

section CycSound
variable (types : List Elem) (hnd : (lowerNames types).Nodup) (k : Nat)
  (ih : ∀ vis T d, VisInv types vis T → vPublic types k vis T = .error d → d.cls = .cyclicReference →
    OnCycleAt types d.loc)
include hnd ih

mutual
  theorem vElemWith_cyc : ∀ (e : Elem) (vis : List String) (p : Path) (T : Elem) (d : Diag),
      VisInv types vis T → (∀ ty ∈ directRefs e, ty ∈ directRefs T) →
      vElemWith types (vPublic types k) vis p e = .error d → d.cls = .cyclicReference → OnCycleAt types d.loc
    | .type t, vis, p, T, d, _, _, h, hc => by
      simp only [vElemWith] at h
      exact absurd hc ((vType_walk _ (Or.inl rfl) types p t).h d h)
    | .enum n enc o vs a, vis, p, T, d, _, _, h, hc => by
      simp only [vElemWith] at h
      exact absurd hc ((vEnum_walk _ (Or.inl rfl) types p n enc vs).h d h)
    | .set n enc o cs a, vis, p, T, d, _, _, h, hc => by
      simp only [vElemWith] at h
      exact absurd hc ((vSet_walk _ (Or.inl rfl) types p n enc cs).h d h)
    | .ref nm ty o a, vis, p, T, d, hinv, hsub, h, hc => by
      simp only [vElemWith] at h
      rcases (bind_err _ _ d).mp h with h | ⟨_, _, h⟩
      · exact absurd hc ((vName_walk _ (Or.inl rfl) nm p).h d h)
      · have hty : ty ∈ directRefs T := hsub ty (by simp [directRefs])
        rw [lookup_eq] at h
        cases hf : findType types ty with
        | none =>
          simp only [hf, fail, Except.error.injEq] at h
          subst h; cases hc
        | some target =>
          simp only [hf] at h
          have htm := findType_mem types ty target hf
          obtain ⟨hT, rest, hvis, hrest⟩ := hinv
          by_cases hcont : vis.contains target.name = true
          · simp only [hcont, ↓reduceIte, fail, Except.error.injEq] at h
            subst h
            have hmem : target.name ∈ vis := by simpa using hcont
            rw [hvis] at hmem
            rcases List.mem_cons.mp hmem with heq | hmem
            · have : target = T := uniq_by_name types hnd _ _ htm hT heq
              subst this
              exact ⟨target, ty, htm, rfl, ReachTy.direct hty, hf⟩
            · obtain ⟨tv, ty', htv, hname, hreach, hfind⟩ := hrest _ hmem
              have : tv = target := uniq_by_name types hnd _ _ htv htm hname
              subst this
              exact ⟨tv, ty, htv, rfl, ReachTy.step hreach hfind hty, hf⟩
          · simp only [hcont, Bool.false_eq_true, ↓reduceIte] at h
            refine ih _ target d ⟨htm, vis, rfl, ?_⟩ h hc
            intro v hv
            rw [hvis] at hv
            rcases List.mem_cons.mp hv with rfl | hv
            · exact ⟨T, ty, hT, rfl, ReachTy.direct hty, hf⟩
            · obtain ⟨tv, ty', htv, hname, hreach, hfind⟩ := hrest v hv
              exact ⟨tv, ty, htv, hname, ReachTy.step hreach hfind hty, hf⟩
    | .composite nm o elems a, vis, p, T, d, hinv, hsub, h, hc => by
      simp only [vElemWith] at h
      rcases (bind_err _ _ d).mp h with h | ⟨_, _, h⟩
      · exact absurd hc ((vName_walk _ (Or.inl rfl) nm p).h d h)
      · exact vElemsWith_cyc elems vis p 0 T d hinv (by simpa [directRefs] using hsub) h hc
  theorem vElemsWith_cyc : ∀ (elems : List Elem) (vis : List String) (p : Path) (cur : Nat) (T : Elem) (d : Diag),
      VisInv types vis T → (∀ ty ∈ directRefsL elems, ty ∈ directRefs T) →
      vElemsWith types (vPublic types k) vis p cur elems = .error d → d.cls = .cyclicReference → OnCycleAt types d.loc
    | [], vis, p, cur, T, d, _, _, h, _ => by simp [vElemsWith] at h
    | e :: rest, vis, p, cur, T, d, hinv, hsub, h, hc => by
      simp only [vElemsWith] at h
      have hsub1 : ∀ ty ∈ directRefs e, ty ∈ directRefs T := fun ty hty => hsub ty (by simp [directRefsL, hty])
      have hsub2 : ∀ ty ∈ directRefsL rest, ty ∈ directRefs T := fun ty hty => hsub ty (by simp [directRefsL, hty])
      rcases (bind_err _ _ d).mp h with h | ⟨sz, _, h⟩
      · exact vElemWith_cyc e vis _ T d hinv hsub1 h hc
      · rcases (bind_err _ _ d).mp h with h | ⟨cur', _, h⟩
        · exact absurd hc ((vElementOffset_walk _ (Or.inl rfl) types _ e cur sz).h d h)
        · exact vElemsWith_cyc rest vis p cur' T d hinv hsub2 h hc
end
end CycSound

theorem vPublic_cyc (types : List Elem) (hnd : (lowerNames types).Nodup) :
    ∀ k vis T d, VisInv types vis T → vPublic types k vis T = .error d → d.cls = .cyclicReference →
      OnCycleAt types d.loc := by
  intro k
  induction k with
  | zero =>
    intro vis T d _ h hc
    simp only [vPublic, fail, Except.error.injEq] at h
    subst h; cases hc
  | succ k ih =>
    intro vis T d hinv h hc
    simp only [vPublic] at h
    exact vElemWith_cyc types hnd k ih T vis _ T d hinv (fun _ h => h) h hc

/-- **the cyclic-reference diagnostic is sound**: when the walk started at a public
    encoding reports `cyclicReference`, the entity it names is a public encoding that
    reaches a `<ref>` to itself. -/
theorem cyclic_diag_sound (types : List Elem) (hnd : (lowerNames types).Nodup) (t : Elem) (ht : t ∈ types) (d : Diag)
    (h : vRoot types t = .error d) (hc : d.cls = .cyclicReference) : OnCycleAt types d.loc :=
  vPublic_cyc types hnd _ [t.name] t d ⟨ht, [], rfl, by simp⟩ h hc


/-! ### every reference cycle is rejected (no hypothesis on literals needed) -/

theorem vType_size (types : List Elem) (p : Path) (t : TypeDef) (n : Nat) (h : vType types p t = .ok n) :
    (primBytes t.prim).map (· * t.length) = some n := by
  simp only [vType, bind_ok, need_ok, vName_ok, isPrimitive_eq, exists_const, Except.ok.injEq] at h
  obtain ⟨_, hp, _, _, hn⟩ := h
  obtain ⟨b, hb⟩ := Option.isSome_iff_exists.mp hp
  rw [primSize_eq, hb] at hn
  simp only [Option.getD_some] at hn
  simp [hb, ← hn, Nat.mul_comm]

theorem vEncodingType_prim (types : List Elem) (p : Path) (enc prim : String) (h : vEncodingType types p enc = .ok prim) :
    underlyingPrim types enc = some prim := by
  rw [vEncodingType_eq] at h
  cases hr : resolveEncodingType types enc with
  | error c => simp [hr, fail] at h
  | ok pr =>
    simp only [hr, Except.ok.injEq] at h
    subst h
    exact resolveEncodingType_underlying types enc pr hr

theorem vEnum_size (types : List Elem) (p : Path) (n enc : String) (vs : List ValidValue) (sz : Nat)
    (h : vEnum types p n enc vs = .ok sz) : (underlyingPrim types enc).bind primBytes = some sz := by
  simp only [vEnum, bind_ok, need_ok, vName_ok, exists_const, Except.ok.injEq, isIntegral_eq] at h
  obtain ⟨_, prim, hp, hi, _, _, hn⟩ := h
  rw [vEncodingType_prim types p enc prim hp]
  obtain ⟨b, hb⟩ := integral_size prim hi
  rw [primSize_eq, hb] at hn
  simpa [hb] using hn

theorem vSet_size (types : List Elem) (p : Path) (n enc : String) (cs : List Choice) (sz : Nat)
    (h : vSet types p n enc cs = .ok sz) : (underlyingPrim types enc).bind primBytes = some sz := by
  simp only [vSet, bind_ok, need_ok, vName_ok, exists_const, Except.ok.injEq, isUnsigned_eq] at h
  obtain ⟨_, prim, hp, hi, _, _, hn⟩ := h
  rw [vEncodingType_prim types p enc prim hp]
  obtain ⟨b, hb, _⟩ := unsigned_size prim hi
  rw [primSize_eq, hb] at hn
  simpa [hb] using hn

section SizeOnly
variable (types : List Elem) (k : Nat)
  (ih : ∀ vis t m, vPublic types k vis t = .ok m → sizeK types k t = some m)
include ih

mutual
  theorem vElemWith_size : ∀ (e : Elem) (vis : List String) (p : Path) (n : Nat),
      vElemWith types (vPublic types k) vis p e = .ok n → sizeWith types (sizeK types k) e = some n
    | .type t, vis, p, n, h => by
      simp only [vElemWith] at h
      simpa [sizeWith] using vType_size types p t n h
    | .enum nm enc o vs a, vis, p, n, h => by
      simp only [vElemWith] at h
      simpa [sizeWith] using vEnum_size types p nm enc vs n h
    | .set nm enc o cs a, vis, p, n, h => by
      simp only [vElemWith] at h
      simpa [sizeWith] using vSet_size types p nm enc cs n h
    | .ref nm ty o a, vis, p, n, h => by
      simp only [vElemWith, bind_ok, exists_const] at h
      obtain ⟨_, _, h2⟩ := h
      rw [lookup_eq] at h2
      cases hf : findType types ty with
      | none => simp [hf, fail] at h2
      | some target =>
        simp only [hf] at h2
        split at h2
        · simp [fail] at h2
        · simp [sizeWith, hf, ih _ _ _ h2]
    | .composite nm o elems a, vis, p, n, h => by
      simp only [vElemWith, bind_ok, exists_const] at h
      obtain ⟨_, _, h2⟩ := h
      simpa [sizeWith] using vElemsWith_size elems vis p 0 n h2
  theorem vElemsWith_size : ∀ (elems : List Elem) (vis : List String) (p : Path) (cur n : Nat),
      vElemsWith types (vPublic types k) vis p cur elems = .ok n → endWith types (sizeK types k) cur elems = some n
    | [], vis, p, cur, n, h => by
      simp only [vElemsWith, Except.ok.injEq] at h
      simp [endWith, h]
    | e :: rest, vis, p, cur, n, h => by
      simp only [vElemsWith, bind_ok] at h
      obtain ⟨sz, hsz, cur', hoff, hrest⟩ := h
      have e1 := vElemWith_size e vis _ sz hsz
      have r1 := vElemsWith_size rest vis p cur' n hrest
      rw [vElementOffset_ok] at hoff
      by_cases hc : Spec.Rules.isConstElem types e = true
      · simp only [hc, ↓reduceIte] at hoff
        subst hoff
        simp [endWith, hc, r1]
      · simp only [hc, Bool.false_eq_true, ↓reduceIte] at hoff
        obtain ⟨_, _, rfl⟩ := hoff
        simp [endWith, hc, e1, r1]
end
end SizeOnly

theorem vPublic_size (types : List Elem) : ∀ k vis t m, vPublic types k vis t = .ok m → sizeK types k t = some m := by
  intro k
  induction k with
  | zero => intro vis t m h; simp [vPublic, fail] at h
  | succ k ih =>
    intro vis t m h
    simp only [vPublic] at h
    simpa [sizeK] using vElemWith_size types k ih t vis _ m h

/-- **every reference cycle is rejected**: a public encoding that reaches a `<ref>` to
    itself is never validated successfully, whatever the walk state -/
theorem cycle_rejected (types : List Elem) (t : Elem) (ty : String) (hr : ReachTy types t ty)
    (hf : findType types ty = some t) (k : Nat) (vis : List String) (n : Nat) : vPublic types k vis t ≠ .ok n := by
  intro h
  exact sized_no_cycle types t k n (vPublic_size types k vis t n h) ty hr hf


/-! ### the fuel of the walk is never exhausted -/

def FuelInv (types : List Elem) (k : Nat) (vis : List String) : Prop :=
  vis.Nodup ∧ (∀ v ∈ vis, v ∈ types.map Elem.name) ∧ types.length + 1 ≤ k + vis.length

section Fuel
variable (types : List Elem) (k : Nat)
  (ih : ∀ vis T d, FuelInv types k vis → vPublic types k vis T = .error d → d.cls ≠ .fuelExhausted)
include ih

mutual
  theorem vElemWith_fuel : ∀ (e : Elem) (vis : List String) (p : Path) (d : Diag),
      FuelInv types (k + 1) vis → vElemWith types (vPublic types k) vis p e = .error d → d.cls ≠ .fuelExhausted
    | .type t, vis, p, d, _, h => by
      simp only [vElemWith] at h
      exact (vType_walk _ (Or.inr rfl) types p t).h d h
    | .enum n enc o vs a, vis, p, d, _, h => by
      simp only [vElemWith] at h
      exact (vEnum_walk _ (Or.inr rfl) types p n enc vs).h d h
    | .set n enc o cs a, vis, p, d, _, h => by
      simp only [vElemWith] at h
      exact (vSet_walk _ (Or.inr rfl) types p n enc cs).h d h
    | .ref nm ty o a, vis, p, d, hinv, h => by
      simp only [vElemWith] at h
      rcases (bind_err _ _ d).mp h with h | ⟨_, _, h⟩
      · exact (vName_walk _ (Or.inr rfl) nm p).h d h
      · rw [lookup_eq] at h
        cases hf : findType types ty with
        | none =>
          simp only [hf, fail, Except.error.injEq] at h
          subst h; simp
        | some target =>
          simp only [hf] at h
          have htm := findType_mem types ty target hf
          by_cases hcont : vis.contains target.name = true
          · simp only [hcont, ↓reduceIte, fail, Except.error.injEq] at h
            subst h; simp
          · simp only [hcont, Bool.false_eq_true, ↓reduceIte] at h
            obtain ⟨h1, h2, h3⟩ := hinv
            have hnm : target.name ∉ vis := by simpa using hcont
            refine ih _ target d ⟨List.nodup_cons.mpr ⟨hnm, h1⟩, ?_, by simp; omega⟩ h
            intro v hv
            rcases List.mem_cons.mp hv with rfl | hv
            · exact List.mem_map.mpr ⟨target, htm, rfl⟩
            · exact h2 v hv
    | .composite nm o elems a, vis, p, d, hinv, h => by
      simp only [vElemWith] at h
      rcases (bind_err _ _ d).mp h with h | ⟨_, _, h⟩
      · exact (vName_walk _ (Or.inr rfl) nm p).h d h
      · exact vElemsWith_fuel elems vis p 0 d hinv h
  theorem vElemsWith_fuel : ∀ (elems : List Elem) (vis : List String) (p : Path) (cur : Nat) (d : Diag),
      FuelInv types (k + 1) vis → vElemsWith types (vPublic types k) vis p cur elems = .error d → d.cls ≠ .fuelExhausted
    | [], vis, p, cur, d, _, h => by simp [vElemsWith] at h
    | e :: rest, vis, p, cur, d, hinv, h => by
      simp only [vElemsWith] at h
      rcases (bind_err _ _ d).mp h with h | ⟨sz, _, h⟩
      · exact vElemWith_fuel e vis _ d hinv h
      · rcases (bind_err _ _ d).mp h with h | ⟨cur', _, h⟩
        · exact (vElementOffset_walk _ (Or.inr rfl) types _ e cur sz).h d h
        · exact vElemsWith_fuel rest vis p cur' d hinv h
end
end Fuel

theorem vPublic_fuel (types : List Elem) :
    ∀ k vis T d, FuelInv types k vis → vPublic types k vis T = .error d → d.cls ≠ .fuelExhausted := by
  intro k
  induction k with
  | zero =>
    intro vis T d hinv _
    obtain ⟨h1, h2, h3⟩ := hinv
    have := List.Nodup.length_le_of_subset h1 (fun v hv => h2 v hv)
    simp only [List.length_map] at this
    omega
  | succ k ih =>
    intro vis T d hinv h
    simp only [vPublic] at h
    exact vElemWith_fuel types k ih T vis _ d hinv h

/-- **fuel_never_exhausted**: the walk from a public encoding never runs out of
    fuel (each `<ref>` jump enters a name that is not yet in progress, and there are
    only as many names as public types) -/
theorem fuel_never_exhausted (types : List Elem) (t : Elem) (ht : t ∈ types) (d : Diag)
    (h : vRoot types t = .error d) : d.cls ≠ .fuelExhausted := by
  refine vPublic_fuel types _ [t.name] t d ⟨by simp, ?_, by simp⟩ h
  intro v hv
  simp only [List.mem_singleton] at hv
  subst hv
  exact List.mem_map.mpr ⟨t, ht, rfl⟩


end Walk

section WalkComplete
open Sbepp.Spec.Rules

/-! ### the walk accepts what the specification accepts -/

mutual
  theorem unfoldsWith_mono (types : List Elem) (u u' : Elem → Bool) (h : ∀ t, u t = true → u' t = true) :
      ∀ e, unfoldsWith types u e = true → unfoldsWith types u' e = true
    | .type _, _ => by simp [unfoldsWith]
    | .enum _ _ _ _ _, _ => by simp [unfoldsWith]
    | .set _ _ _ _ _, _ => by simp [unfoldsWith]
    | .ref _ ty _ _, hu => by
      simp only [unfoldsWith] at hu ⊢
      cases hf : findType types ty with
      | none => rfl
      | some t => simp only [hf] at hu ⊢; exact h t hu
    | .composite _ _ elems _, hu => by
      simp only [unfoldsWith] at hu ⊢
      exact unfoldsWithL_mono types u u' h elems hu
  theorem unfoldsWithL_mono (types : List Elem) (u u' : Elem → Bool) (h : ∀ t, u t = true → u' t = true) :
      ∀ elems, unfoldsWithL types u elems = true → unfoldsWithL types u' elems = true
    | [], _ => by simp [unfoldsWithL]
    | e :: rest, hu => by
      simp only [unfoldsWithL, Bool.and_eq_true] at hu ⊢
      exact ⟨unfoldsWith_mono types u u' h e hu.1, unfoldsWithL_mono types u u' h rest hu.2⟩
end

theorem unfoldsK_succ (types : List Elem) : ∀ k e, unfoldsK types k e = true → unfoldsK types (k + 1) e = true := by
  intro k
  induction k with
  | zero => intro e h; simp [unfoldsK] at h
  | succ k ih =>
    intro e h
    simp only [unfoldsK] at h ⊢
    exact unfoldsWith_mono types _ _ (fun t ht => ih t ht) e h

theorem unfoldsK_mono (types : List Elem) (k k' : Nat) (hk : k ≤ k') (e : Elem) (h : unfoldsK types k e = true) :
    unfoldsK types k' e = true := by
  induction hk with
  | refl => exact h
  | step _ ih => exact unfoldsK_succ types _ e ih

theorem first_level (types : List Elem) (t : Elem) : ∀ j, unfoldsK types j t = true →
    ∃ j', j' < j ∧ unfoldsK types (j' + 1) t = true ∧ unfoldsK types j' t = false := by
  intro j
  induction j with
  | zero => intro h; simp [unfoldsK] at h
  | succ j ih =>
    intro h
    cases hj : unfoldsK types j t with
    | false => exact ⟨j, by omega, h, hj⟩
    | true =>
      obtain ⟨j', h1, h2, h3⟩ := ih hj
      exact ⟨j', by omega, h2, h3⟩

/-- nothing in progress unfolds at level `j` -/
def Hvis (types : List Elem) (j : Nat) (vis : List String) : Prop :=
  ∀ v ∈ vis, ∀ u, findType types v = some u → unfoldsK types j u = false

/-- every encoding of every public type obeys the rules that concern it alone -/
def AllGood (types : List Elem) : Prop :=
  ∀ t ∈ types, ∀ q x, (q, x) ∈ subElems ["types", t.name] t → ElemGood types q x

/-- the statement proved by induction on the level: a public encoding that unfolds at
    level `j + 1`, entered with nothing in progress that unfolds at level `j`, is validated -/
def WalkOk (types : List Elem) (j : Nat) : Prop :=
  ∀ T ∈ types, ∀ vis kf, unfoldsK types (j + 1) T = true → Hvis types j vis → FuelInv types kf vis →
    kf ≤ types.length + 1 → ∃ n, vPublic types kf vis T = .ok n

theorem enum_good_size (types : List Elem) (p : Path) (n enc : String) (o : Option Nat) (vs : List ValidValue) (a : Attrs)
    (h : elemViols types p (.enum n enc o vs a) = []) : ∃ sz, (underlyingPrim types enc).bind primBytes = some sz := by
  simp only [elemViols] at h
  cases hr : resolveEncodingType types enc with
  | error c => simp [hr] at h
  | ok prim =>
    simp only [hr] at h
    by_cases hi : isIntegralPrim prim = true
    · obtain ⟨k, hk⟩ := integral_size prim hi
      exact ⟨k, by simp [resolveEncodingType_underlying types enc prim hr, hk]⟩
    · simp [hi] at h

theorem set_good_size (types : List Elem) (p : Path) (n enc : String) (o : Option Nat) (cs : List Choice) (a : Attrs)
    (h : elemViols types p (.set n enc o cs a) = []) : ∃ sz, (underlyingPrim types enc).bind primBytes = some sz := by
  simp only [elemViols] at h
  cases hr : resolveEncodingType types enc with
  | error c => simp [hr] at h
  | ok prim =>
    simp only [hr] at h
    by_cases hi : isUnsignedPrim prim = true
    · obtain ⟨k, hk, _⟩ := unsigned_size prim hi
      exact ⟨k, by simp [resolveEncodingType_underlying types enc prim hr, hk]⟩
    · simp [hi] at h

section Complete
variable (hfp : FpAgree) (types : List Elem) (hnd : (lowerNames types).Nodup)
  (G : AllGood types) (j : Nat) (ihj : ∀ j', j' < j → WalkOk types j')
include hfp hnd G ihj

mutual
  theorem vElemWith_complete : ∀ (e : Elem) (vis : List String) (p : Path) (kf : Nat),
      unfoldsWith types (unfoldsK types j) e = true → Hvis types j vis →
      (∀ q x, (q, x) ∈ subElems p e → ElemGood types q x) → FuelInv types (kf + 1) vis → kf ≤ types.length →
      ∃ n, vElemWith types (vPublic types kf) vis p e = .ok n
    | .type t, vis, p, kf, _, _, hg, _, _ => by
      obtain ⟨g1, _, g3⟩ := hg p (.type t) (by simp [subElems])
      simp only [vElemWith]
      exact ⟨_, (vType_ok hfp types p t _).mpr ⟨g1, by simpa [elemViols] using g3, rfl⟩⟩
    | .enum n enc o vs a, vis, p, kf, _, _, hg, _, _ => by
      obtain ⟨g1, g2, g3⟩ := hg p (.enum n enc o vs a) (by simp [subElems])
      obtain ⟨sz, hsz⟩ := enum_good_size types p n enc o vs a g3
      simp only [vElemWith]
      exact ⟨sz, (vEnum_ok hfp types p n enc o vs a sz).mpr ⟨g1, g2, g3, hsz⟩⟩
    | .set n enc o cs a, vis, p, kf, _, _, hg, _, _ => by
      obtain ⟨g1, g2, g3⟩ := hg p (.set n enc o cs a) (by simp [subElems])
      obtain ⟨sz, hsz⟩ := set_good_size types p n enc o cs a g3
      simp only [vElemWith]
      exact ⟨sz, (vSet_ok types p n enc o cs a sz).mpr ⟨g1, g2, g3, hsz⟩⟩
    | .ref nm ty o a, vis, p, kf, hu, hv, hg, hfu, hkf => by
      obtain ⟨g1, _, g3⟩ := hg p (.ref nm ty o a) (by simp [subElems])
      simp only [elemViols] at g3
      cases hf : findType types ty with
      | none => simp [hf] at g3
      | some target =>
        have htm := findType_mem types ty target hf
        simp only [unfoldsWith, hf] at hu
        have hself : findType types target.name = some target := findType_self types hnd target htm
        have hnotin : target.name ∉ vis := by
          intro hin
          have := hv _ hin target hself
          rw [hu] at this; cases this
        obtain ⟨j', hj', hl1, hl2⟩ := first_level types target j hu
        have hvis' : Hvis types j' (target.name :: vis) := by
          intro v hvm u hfu'
          rcases List.mem_cons.mp hvm with rfl | hvm
          · rw [hself] at hfu'
            simp only [Option.some.injEq] at hfu'
            subst hfu'
            exact hl2
          · have := hv v hvm u hfu'
            cases hx : unfoldsK types j' u with
            | false => rfl
            | true => rw [unfoldsK_mono types j' j (by omega) u hx] at this; cases this
        obtain ⟨h1, h2, h3⟩ := hfu
        have hfuel' : FuelInv types kf (target.name :: vis) := by
          refine ⟨List.nodup_cons.mpr ⟨hnotin, h1⟩, ?_, by simp; omega⟩
          intro v hvm
          rcases List.mem_cons.mp hvm with rfl | hvm
          · exact List.mem_map.mpr ⟨target, htm, rfl⟩
          · exact h2 v hvm
        obtain ⟨n, hn⟩ := ihj j' hj' target htm _ kf hl1 hvis' hfuel' (by omega)
        refine ⟨n, ?_⟩
        simp only [vElemWith, bind_ok, vName_ok, exists_const, lookup_eq, hf]
        have hc : vis.contains target.name = false := by simpa using hnotin
        have g1' : symbolicName nm = true := by simpa [Elem.name] using g1
        simp [g1', hc, hn]
        exact fun h => absurd h hnotin
    | .composite nm o elems a, vis, p, kf, hu, hv, hg, hfu, hkf => by
      obtain ⟨g1, _, g3⟩ := hg p (.composite nm o elems a) (by simp [subElems])
      simp only [elemViols] at g3
      simp only [unfoldsWith] at hu
      obtain ⟨n, hn⟩ := vElemsWith_complete elems vis p kf 0 hu hv
        (fun q x hm => hg q x (by simp [subElems, hm])) g3 hfu hkf
      have g1' : symbolicName nm = true := by simpa [Elem.name] using g1
      exact ⟨n, by simp [vElemWith, bind_ok, vName_ok, g1', hn]⟩
  theorem vElemsWith_complete : ∀ (elems : List Elem) (vis : List String) (p : Path) (kf cur : Nat),
      unfoldsWithL types (unfoldsK types j) elems = true → Hvis types j vis →
      (∀ q x, (q, x) ∈ subElemsL p elems → ElemGood types q x) →
      (memberMinima types cur elems).filterMap (offsetViol types p) = [] →
      FuelInv types (kf + 1) vis → kf ≤ types.length →
      ∃ n, vElemsWith types (vPublic types kf) vis p cur elems = .ok n
    | [], vis, p, kf, cur, _, _, _, _, _, _ => ⟨cur, by simp [vElemsWith]⟩
    | e :: rest, vis, p, kf, cur, hu, hv, hg, hoff, hfu, hkf => by
      simp only [unfoldsWithL, Bool.and_eq_true] at hu
      obtain ⟨sz, hsz⟩ := vElemWith_complete e vis (p ++ [e.name]) kf hu.1 hv
        (fun q x hm => hg q x (by simp [subElemsL, hm])) hfu hkf
      have hsizeOf : Spec.Rules.sizeOf types e = some sz := by
        unfold Spec.Rules.sizeOf
        have := vElemWith_size types kf (vPublic_size types kf) e vis _ sz hsz
        exact sizeK_mono types (kf + 1) (types.length + 1) (by omega) e sz (by simpa [sizeK] using this)
      by_cases hc : Spec.Rules.isConstElem types e = true
      · simp only [memberMinima, hc, ↓reduceIte] at hoff
        obtain ⟨n, hn⟩ := vElemsWith_complete rest vis p kf cur hu.2 hv
          (fun q x hm => hg q x (by simp [subElemsL, hm])) hoff hfu hkf
        refine ⟨n, ?_⟩
        simp only [vElemsWith, bind_ok]
        exact ⟨sz, hsz, cur, (vElementOffset_ok types _ e cur sz cur).mpr (by simp [hc]), hn⟩
      · simp only [memberMinima, hc, Bool.false_eq_true, ↓reduceIte, hsizeOf, List.filterMap_cons] at hoff
        have hov : offsetViol types p (e, cur) = none := by
          cases hx : offsetViol types p (e, cur) with
          | none => rfl
          | some v => simp [hx] at hoff
        have hrest : (memberMinima types ((elemOffset e).getD cur + sz) rest).filterMap (offsetViol types p) = [] := by
          simpa [hov] using hoff
        obtain ⟨n, hn⟩ := vElemsWith_complete rest vis p kf _ hu.2 hv
          (fun q x hm => hg q x (by simp [subElemsL, hm])) hrest hfu hkf
        refine ⟨n, ?_⟩
        simp only [vElemsWith, bind_ok]
        refine ⟨sz, hsz, _, (vElementOffset_ok types _ e cur sz _).mpr ?_, hn⟩
        simp only [hc, Bool.false_eq_true, ↓reduceIte, and_true]
        exact (offsetViol_none types p e cur sz hsizeOf).mp hov
end
end Complete

theorem walkOk_all (hfp : FpAgree) (types : List Elem) (hnd : (lowerNames types).Nodup)
    (G : AllGood types) : ∀ j, WalkOk types j := by
  intro j
  induction j using Nat.strongRecOn with
  | _ j ih =>
    intro T hT vis kf hu hv hfu hkf
    cases kf with
    | zero =>
      exfalso
      obtain ⟨h1, h2, h3⟩ := hfu
      have := List.Nodup.length_le_of_subset h1 (fun v hv => h2 v hv)
      simp only [List.length_map] at this
      omega
    | succ kf =>
      simp only [vPublic]
      simp only [unfoldsK] at hu
      exact vElemWith_complete hfp types hnd G j ih T vis _ kf hu hv (G T hT) hfu (by omega)

/-- **the walk accepts what the specification accepts**: unique names, every encoding good,
    the references below every public encoding unfold ⇒ `validate_types` succeeds -/
theorem typesPhase_complete (hfp : FpAgree) (s : SchemaDef)
    (hnd : (lowerNames s.types).Nodup) (hgood : ∀ q x, (q, x) ∈ allElems s → ElemGood s.types q x)
    (hacyc : cycleViols s = []) : typesPhase s = .ok () := by
  unfold typesPhase
  rw [anyOrder_ok, firstErrors_nil]
  intro t ht
  have G : AllGood s.types := by
    intro t' ht' q x hm
    exact hgood q x (by unfold allElems; exact List.mem_flatMap.mpr ⟨t', ht', hm⟩)
  have hu : unfoldsK s.types (s.types.length + 2) t = true := by
    unfold cycleViols at hacyc
    rw [List.filterMap_eq_nil_iff] at hacyc
    have := hacyc t ht
    unfold acyclicBelow at this
    cases hx : unfoldsK s.types (s.types.length + 2) t with
    | true => rfl
    | false => simp [hx] at this
  -- enter at the minimal level at which `t` unfolds: nothing in progress (only `t`) unfolds below it
  obtain ⟨j', _, hl1, hl2⟩ := first_level s.types t _ hu
  refine walkOk_all hfp s.types hnd G j' t ht [t.name] _ hl1 ?_ ⟨by simp, ?_, by simp⟩ (Nat.le_refl _)
  · intro v hv u hfu
    simp only [List.mem_singleton] at hv
    subst hv
    rw [findType_self s.types hnd t ht] at hfu
    simp only [Option.some.injEq] at hfu
    subst hfu
    exact hl2
  · intro v hv
    simp only [List.mem_singleton] at hv
    subst hv
    exact List.mem_map.mpr ⟨t, ht, rfl⟩


end WalkComplete

/-- Bool view of the verdict -/
def accepts (s : SchemaDef) : Bool := match check s with | .ok _ => true | .error _ => false

theorem accepts_iff (s : SchemaDef) : accepts s = true ↔ check s = .ok () := by
  unfold accepts
  cases check s with
  | ok u => cases u; simp
  | error d => simp

end Sbepp.Schema.Rules
