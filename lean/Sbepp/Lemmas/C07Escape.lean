/-
  Lemmas for C07 (text): `utils::escape_literal` produces, for EVERY string, text
  that — pasted between the quotes of a string or character literal, followed
  by any `\0` padding — is one well-formed literal denoting exactly the original
  characters, with and without trigraph replacement.  Also: without escaping,
  plain text (no quote, backslash, line break, `??/`) denotes itself.
-/
import Sbepp.Gen.Literals

namespace Sbepp.Gen.Literals
open Sbepp

/-! ### the lexer on one escaped character -/

theorem isOctDigit_digitChar (k : Fin 8) : isOctDigit (digitChar k.val) = true := by
  revert k; decide

theorem digitChar_val (k : Fin 8) : (digitChar k.val).toNat - 48 = k.val := by
  revert k; decide

theorem ofNat_toNat_lt (c : Char) : Char.ofNat c.toNat = c := Char.ofNat_toNat c

/-- `\ooo` with the three octal digits of `n < 512` denotes the character `n` and leaves the lexer in the
    ordinary state, whatever follows -/
theorem denote_octal3 (q : Char) (n : Nat) (hn : n < 512) (rest acc : List Char) :
    denoteAux q .esc (octal3 n ++ rest) acc = denoteAux q .normal rest (Char.ofNat n :: acc) := by
  have h2 : n / 64 % 8 < 8 := Nat.mod_lt _ (by decide)
  have h1 : n / 8 % 8 < 8 := Nat.mod_lt _ (by decide)
  have h0 : n % 8 < 8 := Nat.mod_lt _ (by decide)
  have o2 := isOctDigit_digitChar ⟨_, h2⟩
  have o1 := isOctDigit_digitChar ⟨_, h1⟩
  have o0 := isOctDigit_digitChar ⟨_, h0⟩
  have v2 := digitChar_val ⟨_, h2⟩
  have v1 := digitChar_val ⟨_, h1⟩
  have v0 := digitChar_val ⟨_, h0⟩
  simp only at o2 o1 o0 v2 v1 v0
  simp only [octal3, List.cons_append, List.nil_append, denoteAux, o2, o1, o0, if_true, v2, v1, v0]
  have : (n / 64 % 8 * 8 + n / 8 % 8) * 8 + n % 8 = n := by omega
  rw [this]

/-- the characters `escape_literal` leaves alone -/
def ordinaryChar (c : Char) : Bool :=
  !(c == '"' || c == '\'' || c == '\\' || c == '?' || c == '\n' || c == '\r' || c == '\t') && !decide (c.toNat < 0x20)

theorem escapeChar_ordinary (c : Char) (h : ordinaryChar c = true) : escapeChar c = [c] := by
  simp only [ordinaryChar, Bool.and_eq_true, Bool.not_eq_true', Bool.or_eq_false_iff, beq_eq_false_iff_ne,
    ne_eq, decide_eq_false_iff_not] at h
  obtain ⟨⟨⟨⟨⟨⟨⟨h1, h2⟩, h3⟩, h4⟩, h5⟩, h6⟩, h7⟩, h8⟩ := h
  simp [escapeChar, h1, h2, h3, h4, h5, h6, h7, h8]

/-- one escaped character, read in the ordinary state inside `"…"` or `'…'`, denotes that character -/
theorem denote_escapeChar (q : Char) (hq : q = '"' ∨ q = '\'') (c : Char) (rest acc : List Char) :
    denoteAux q .normal (escapeChar c ++ rest) acc = denoteAux q .normal rest (c :: acc) := by
  have bs : (('\\' : Char) == '\\') = true := by decide
  by_cases h1 : c = '"'
  · subst h1; simp [escapeChar, denoteAux, isOctDigit, simpleEscape?]
  by_cases h2 : c = '\''
  · subst h2; simp [escapeChar, denoteAux, isOctDigit, simpleEscape?]
  by_cases h3 : c = '\\'
  · subst h3; simp [escapeChar, denoteAux, isOctDigit, simpleEscape?]
  by_cases h4 : c = '?'
  · subst h4; simp [escapeChar, denoteAux, isOctDigit, simpleEscape?]
  by_cases h5 : c = '\n'
  · subst h5; simp [escapeChar, denoteAux, isOctDigit, simpleEscape?]
  by_cases h6 : c = '\r'
  · subst h6; simp [escapeChar, denoteAux, isOctDigit, simpleEscape?]
  by_cases h7 : c = '\t'
  · subst h7; simp [escapeChar, denoteAux, isOctDigit, simpleEscape?]
  by_cases h8 : c.toNat < 0x20
  · have : escapeChar c = '\\' :: octal3 c.toNat := by
      simp [escapeChar, h1, h2, h3, h4, h5, h6, h7, h8]
    rw [this]
    simp only [List.cons_append, denoteAux, bs, if_true]
    rw [denote_octal3 q c.toNat (by omega) rest acc, Char.ofNat_toNat]
  · have hord : escapeChar c = [c] := by
      simp [escapeChar, h1, h2, h3, h4, h5, h6, h7, h8]
    rw [hord]
    simp only [List.cons_append, List.nil_append, denoteAux]
    have hb : (c == '\\') = false := by simpa using h3
    have hnl : (c == '\n') = false := by simpa using h5
    have hqq : (c == q) = false := by
      rcases hq with hq | hq <;> subst hq <;> simpa using (by first | exact h1 | exact h2)
    simp [hb, hnl, hqq]

theorem denote_escapeLiteral (q : Char) (hq : q = '"' ∨ q = '\'') (cs rest acc : List Char) :
    denoteAux q .normal (escapeLiteral cs ++ rest) acc = denoteAux q .normal rest (cs.reverse ++ acc) := by
  induction cs generalizing acc with
  | nil => simp [escapeLiteral]
  | cons c cs ih =>
    have : escapeLiteral (c :: cs) = escapeChar c ++ escapeLiteral cs := by simp [escapeLiteral]
    rw [this, List.append_assoc, denote_escapeChar q hq c, ih]
    simp

/-! ### the `\0` padding -/

theorem denote_padding_oct (q : Char) (n : Nat) (acc : List Char) :
    denoteAux q (.oct1 0) (padding n) acc =
      some ((List.replicate (n + 1) (Char.ofNat 0)).reverse ++ acc).reverse := by
  induction n generalizing acc with
  | zero => simp [padding, denoteAux]
  | succ n ih =>
    have hp : padding (n + 1) = '\\' :: '0' :: padding n := by
      simp [padding, List.replicate_succ]
    have h0 : isOctDigit '\\' = false := by decide
    have h1 : (('\\' : Char) == '\\') = true := by decide
    have h2 : isOctDigit '0' = true := by decide
    have h3 : ('0' : Char).toNat - 48 = 0 := by decide
    rw [hp]
    simp only [denoteAux, h0, h1, h2, h3, Bool.false_eq_true, if_false, if_true]
    rw [ih]
    simp [List.replicate_succ]

theorem denote_padding (q : Char) (n : Nat) (acc : List Char) :
    denoteAux q .normal (padding n) acc = some ((List.replicate n (Char.ofNat 0)).reverse ++ acc).reverse := by
  cases n with
  | zero => simp [padding, denoteAux]
  | succ n =>
    have hp : padding (n + 1) = '\\' :: '0' :: padding n := by
      simp [padding, List.replicate_succ]
    have h1 : (('\\' : Char) == '\\') = true := by decide
    have h2 : isOctDigit '0' = true := by decide
    have h3 : ('0' : Char).toNat - 48 = 0 := by decide
    rw [hp]
    simp only [denoteAux, h1, h2, h3, if_true]
    exact denote_padding_oct q n acc

/-- escaped text followed by padding denotes the text followed by NULs -/
theorem denote_escaped (q : Char) (hq : q = '"' ∨ q = '\'') (cs : List Char) (pad : Nat) :
    denote q (escapeLiteral cs ++ padding pad) = some (cs ++ List.replicate pad (Char.ofNat 0)) := by
  unfold denote
  rw [denote_escapeLiteral q hq, denote_padding]
  simp

/-! ### trigraphs -/

/-- nothing for trigraph replacement to do, and no `?` in front that a preceding `?` could pair with -/
def TriSafe (l : List Char) : Prop := deTrigraph l = l ∧ l.head? ≠ some '?'

theorem deTrigraph_cons_ne (c : Char) (l : List Char) (h : c ≠ '?') : deTrigraph (c :: l) = c :: deTrigraph l := by
  have : (c == '?') = false := by simpa using h
  simp [deTrigraph, deTriAux, this]

theorem deTrigraph_q (l : List Char) (h : l.head? ≠ some '?') : deTrigraph ('?' :: l) = '?' :: deTrigraph l := by
  match l with
  | [] => simp [deTrigraph, deTriAux]
  | d :: r =>
    have hd : d ≠ '?' := by simpa using h
    have : (d == '?') = false := by simpa using hd
    simp [deTrigraph, deTriAux, this]

theorem triSafe_cons_ne (c : Char) (l : List Char) (h : c ≠ '?') (hl : TriSafe l) : TriSafe (c :: l) := by
  refine ⟨?_, by simpa using h⟩
  rw [deTrigraph_cons_ne c l h, hl.1]

/-- `\?` in front of safe text is safe -/
theorem triSafe_bs_q (l : List Char) (hl : TriSafe l) : TriSafe ('\\' :: '?' :: l) := by
  refine ⟨?_, by simp⟩
  rw [deTrigraph_cons_ne _ _ (by decide), deTrigraph_q l hl.2, hl.1]

theorem triSafe_padding (n : Nat) : TriSafe (padding n) := by
  induction n with
  | zero => exact ⟨by simp [padding, deTrigraph, deTriAux], by simp [padding]⟩
  | succ n ih =>
    have hp : padding (n + 1) = '\\' :: '0' :: padding n := by
      simp [padding, List.replicate_succ]
    rw [hp]
    exact triSafe_cons_ne _ _ (by decide) (triSafe_cons_ne _ _ (by decide) ih)

theorem digitChar_ne_q (k : Fin 8) : digitChar k.val ≠ '?' := by
  revert k; decide

theorem triSafe_escapeChar (c : Char) (l : List Char) (hl : TriSafe l) : TriSafe (escapeChar c ++ l) := by
  by_cases h4 : c = '?'
  · subst h4
    have : escapeChar '?' = ['\\', '?'] := by decide
    rw [this]; exact triSafe_bs_q l hl
  by_cases h1 : c = '"'
  · subst h1; exact triSafe_cons_ne _ _ (by decide) (triSafe_cons_ne _ _ (by decide) hl)
  by_cases h2 : c = '\''
  · subst h2; exact triSafe_cons_ne _ _ (by decide) (triSafe_cons_ne _ _ (by decide) hl)
  by_cases h3 : c = '\\'
  · subst h3; exact triSafe_cons_ne _ _ (by decide) (triSafe_cons_ne _ _ (by decide) hl)
  by_cases h5 : c = '\n'
  · subst h5; exact triSafe_cons_ne _ _ (by decide) (triSafe_cons_ne _ _ (by decide) hl)
  by_cases h6 : c = '\r'
  · subst h6; exact triSafe_cons_ne _ _ (by decide) (triSafe_cons_ne _ _ (by decide) hl)
  by_cases h7 : c = '\t'
  · subst h7; exact triSafe_cons_ne _ _ (by decide) (triSafe_cons_ne _ _ (by decide) hl)
  by_cases h8 : c.toNat < 0x20
  · have : escapeChar c = '\\' :: octal3 c.toNat := by
      simp [escapeChar, h1, h2, h3, h4, h5, h6, h7, h8]
    rw [this]
    have h2' : c.toNat / 64 % 8 < 8 := Nat.mod_lt _ (by decide)
    have h1' : c.toNat / 8 % 8 < 8 := Nat.mod_lt _ (by decide)
    have h0' : c.toNat % 8 < 8 := Nat.mod_lt _ (by decide)
    simp only [octal3, List.cons_append, List.nil_append]
    exact triSafe_cons_ne _ _ (by decide) (triSafe_cons_ne _ _ (digitChar_ne_q ⟨_, h2'⟩)
      (triSafe_cons_ne _ _ (digitChar_ne_q ⟨_, h1'⟩) (triSafe_cons_ne _ _ (digitChar_ne_q ⟨_, h0'⟩) hl)))
  · have hord : escapeChar c = [c] := by
      simp [escapeChar, h1, h2, h3, h4, h5, h6, h7, h8]
    rw [hord]
    exact triSafe_cons_ne c l h4 hl

theorem triSafe_escapeLiteral (cs l : List Char) (hl : TriSafe l) : TriSafe (escapeLiteral cs ++ l) := by
  induction cs with
  | nil => simpa [escapeLiteral] using hl
  | cons c cs ih =>
    have : escapeLiteral (c :: cs) = escapeChar c ++ escapeLiteral cs := by simp [escapeLiteral]
    rw [this, List.append_assoc]
    exact triSafe_escapeChar c _ ih

/-! ### the literals -/

/-- **escape_literal_denotes**: for EVERY text and padding, the escaped text between double quotes is one
    well-formed string literal that denotes exactly the text (followed by the padding NULs), with and without
    trigraph replacement -/
theorem escape_literal_denotes (cs : List Char) (pad : Nat) :
    literalVerdict '"' (escapeLiteral cs ++ padding pad) (cs ++ List.replicate pad (Char.ofNat 0)) = .ok := by
  have ht := (triSafe_escapeLiteral cs _ (triSafe_padding pad)).1
  have hd := denote_escaped '"' (Or.inl rfl) cs pad
  simp [literalVerdict, ht, hd]

/-- the same between single quotes, for one character -/
theorem escape_char_denotes (c : Char) : literalVerdict '\'' (escapeLiteral [c]) [c] = .ok := by
  have ht := (triSafe_escapeLiteral [c] [] ⟨by simp [deTrigraph, deTriAux], by simp⟩).1
  have hd := denote_escaped '\'' (Or.inr rfl) [c] 0
  simp only [padding, List.replicate_zero, List.flatten_nil, List.append_nil] at hd ht
  simp [literalVerdict, ht, hd]

/-! ### without escaping -/

/-- a character that needs no escaping inside a string literal (`?` is excluded wholesale: `??/`) -/
def plainChar (c : Char) : Bool := c != '"' && c != '\\' && c != '\n' && c != '?'

/-- text that can be pasted between double quotes as it is -/
def plainText (cs : List Char) : Bool := cs.all plainChar

theorem denote_plain (cs rest acc : List Char) (h : cs.all plainChar = true) :
    denoteAux '"' .normal (cs ++ rest) acc = denoteAux '"' .normal rest (cs.reverse ++ acc) := by
  induction cs generalizing acc with
  | nil => rfl
  | cons c cs ih =>
    simp only [List.all_cons, Bool.and_eq_true] at h
    obtain ⟨hc, hcs⟩ := h
    simp only [plainChar, Bool.and_eq_true, bne_iff_ne, ne_eq] at hc
    obtain ⟨⟨⟨hq, hb⟩, hn⟩, _⟩ := hc
    have h1 : (c == '\\') = false := by simpa using hb
    have h2 : (c == '"' || c == '\n') = false := by simp [hq, hn]
    simp only [List.cons_append, denoteAux, h1, h2, Bool.false_eq_true, if_false]
    rw [ih _ hcs]
    simp

theorem triSafe_plain (cs l : List Char) (h : cs.all plainChar = true) (hl : TriSafe l) : TriSafe (cs ++ l) := by
  induction cs with
  | nil => exact hl
  | cons c cs ih =>
    simp only [List.all_cons, Bool.and_eq_true] at h
    have hc := h.1
    simp only [plainChar, Bool.and_eq_true, bne_iff_ne, ne_eq] at hc
    exact triSafe_cons_ne c _ hc.2 (ih h.2)

/-- plain text pasted as it is (followed by padding) denotes itself -/
theorem plain_literal_denotes (cs : List Char) (pad : Nat) (h : plainText cs = true) :
    literalVerdict '"' (cs ++ padding pad) (cs ++ List.replicate pad (Char.ofNat 0)) = .ok := by
  have ht := (triSafe_plain cs _ h (triSafe_padding pad)).1
  have hd : denote '"' (cs ++ padding pad) = some (cs ++ List.replicate pad (Char.ofNat 0)) := by
    unfold denote
    rw [denote_plain cs _ _ h, denote_padding]
    simp
  simp [literalVerdict, ht, hd]

/-- **string_literal_ok**: the text of a string site is one well-formed literal denoting the schema text — for
    every text when the generator escapes (`Extracted.Templates.escapesLiterals`), for plain text otherwise -/
theorem string_literal_ok (cs : List Char) (pad : Nat)
    (h : Extracted.Templates.escapesLiterals = true ∨ plainText cs = true) : stringLiteral cs pad = .ok := by
  unfold stringLiteral pastedText
  by_cases hf : Extracted.Templates.escapesLiterals = true
  · simp only [hf, if_true]; exact escape_literal_denotes cs pad
  · rcases h with h | h
    · exact absurd h hf
    · simp only [hf, Bool.false_eq_true, if_false]; exact plain_literal_denotes cs pad h

theorem char_literal_ok (c : Char)
    (h : Extracted.Templates.escapesLiterals = true ∨ (c ≠ '\'' ∧ c ≠ '\\' ∧ c ≠ '\n' ∧ c ≠ '?')) :
    charLiteral [c] = .ok := by
  unfold charLiteral pastedText
  by_cases hf : Extracted.Templates.escapesLiterals = true
  · simp only [hf, if_true]; exact escape_char_denotes c
  · rcases h with h | h
    · exact absurd h hf
    · simp only [hf, Bool.false_eq_true, if_false]
      have h1 : (c == '\\') = false := by simpa using h.2.1
      have h2 : (c == '\'' || c == '\n') = false := by simp [h.1, h.2.2.1]
      have hq : (c == '?') = false := by simpa using h.2.2.2
      have ht : deTrigraph [c] = [c] := by simp [deTrigraph, deTriAux, hq]
      simp [literalVerdict, denote, denoteAux, h1, h2, ht]

end Sbepp.Gen.Literals
