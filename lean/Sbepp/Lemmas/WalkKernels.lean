/-
  The position arithmetic of `Rt/Walk.lean` is what the extracted sbepp.hpp
  kernels compute: first dynamic member = level + blockLength, next dynamic
  member = previous address + previous size, message level = header address +
  header size, cursor-based size = cursor - message address.
-/
import Sbepp.Lemmas.Iter

namespace Sbepp
open CVal Extracted

theorem inRange_ptr_nat (a : Nat) (h : a < 2 ^ 63) : inRange .ptr (a : Int) = true :=
  inRange_ptr _ (by constructor <;> omega)

/-- `ptr + unsigned` on values given as natural numbers -/
theorem ptr_add_nat (T : CTy) (hT : DimTy T) (p x : Nat) (hx : x < 2 ^ T.bits) (hq : p + x < 2 ^ 63) :
    (binop .add ⟨.ptr, p % 2 ^ CTy.bits .ptr⟩ ⟨T, x % 2 ^ T.bits⟩).map (fun v => (conv .ptr v).bits)
      = some (p + x) := by
  have hp : inRange .ptr (p : Int) = true := inRange_ptr_nat p (by omega)
  have hq' : inRange .ptr ((p : Int) + (x : Int)) = true := by
    have := inRange_ptr_nat (p + x) hq
    simpa using this
  rw [mk_mod_eq_wrap, mk_mod_eq_wrap,
    ptr_add T hT.not_ptr p x hp (inRange_nat T hT.unsigned x hx) hq']
  simp only [Option.map, conv_wrap .ptr .ptr _ hq' (by decide)]
  have : ((p : Int) + (x : Int)) = ((p + x : Nat) : Int) := by omega
  rw [this, wrap_bits_nat .ptr (p + x) (by simp [CTy.bits]; omega)]

theorem first_dynamic_pos_eval (BT : CTy) (hBT : DimTy BT) (level bl : Nat)
    (hbl : bl < 2 ^ BT.bits) (hq : level + bl < 2 ^ 63) :
    (first_dynamic_pos BT).retBits [level, bl] = some (level + bl) := by
  have h := ptr_add_nat BT hBT level bl hbl hq
  simp only [first_dynamic_pos, Kernel.retBits, Kernel.run, execStmts, mkEnv, CExpr.eval, Env.get?, if_true,
    show ("level" = "block_length") = False from by decide, if_false] at h ⊢
  cases hb : binop .add ⟨.ptr, level % 2 ^ CTy.bits .ptr⟩ ⟨BT, bl % 2 ^ BT.bits⟩ with
  | none => rw [hb] at h; simp at h
  | some v => rw [hb] at h; simpa using h

theorem dimTy_u64 : DimTy .u64 := by unfold DimTy; decide

theorem next_dynamic_pos_eval (prev size : Nat) (hs : size < 2 ^ 64) (hq : prev + size < 2 ^ 63) :
    next_dynamic_pos.retBits [prev, size] = some (prev + size) := by
  have h := ptr_add_nat .u64 dimTy_u64 prev size hs hq
  simp only [next_dynamic_pos, Kernel.retBits, Kernel.run, execStmts, mkEnv, CExpr.eval, Env.get?, if_true,
    show ("prev_addr" = "prev_size") = False from by decide, if_false] at h ⊢
  cases hb : binop .add ⟨.ptr, prev % 2 ^ CTy.bits .ptr⟩ ⟨.u64, size % 2 ^ CTy.bits .u64⟩ with
  | none => rw [hb] at h; simp at h
  | some v => rw [hb] at h; simpa using h

theorem message_level_pos_eval (addr hsize : Nat) (hs : hsize < 2 ^ 64) (hq : addr + hsize < 2 ^ 63) :
    message_level_pos.retBits [addr, hsize] = some (addr + hsize) := by
  have h := ptr_add_nat .u64 dimTy_u64 addr hsize hs hq
  simp only [message_level_pos, Kernel.retBits, Kernel.run, execStmts, mkEnv, CExpr.eval, Env.get?, if_true,
    show ("header_addr" = "header_size") = False from by decide, if_false] at h ⊢
  cases hb : binop .add ⟨.ptr, addr % 2 ^ CTy.bits .ptr⟩ ⟨.u64, hsize % 2 ^ CTy.bits .u64⟩ with
  | none => rw [hb] at h; simp at h
  | some v => rw [hb] at h; simpa using h

/-- `size_bytes(m, c)`: cursor position minus message address, for a cursor at or after the message -/
theorem message_cursor_size_eval (cur addr : Nat) (hle : addr ≤ cur) (hc : cur < 2 ^ 63) :
    message_cursor_size.retBits [cur, addr] = some (cur - addr) := by
  have hpc : inRange .ptr (cur : Int) = true := inRange_ptr_nat cur hc
  have hpa : inRange .ptr (addr : Int) = true := inRange_ptr_nat addr (by omega)
  have hd : inRange .i64 ((cur : Int) - (addr : Int)) = true := inRange_i64 _ (by constructor <;> omega)
  have hsub : binop .sub (wrap .ptr (cur : Int)) (wrap .ptr (addr : Int)) = some (wrap .i64 ((cur : Int) - (addr : Int))) := by
    unfold binop ptrBinop
    simp only [wrap_ty, show CTy.isPtr .ptr = true from rfl, Bool.true_or, Bool.and_self, if_true,
      show isCmp .sub = false from rfl, Bool.false_eq_true, if_false, toInt_wrap _ _ hpc, toInt_wrap _ _ hpa, exact, hd]
  have hconv : conv .u64 (wrap .i64 ((cur : Int) - (addr : Int))) = wrap .u64 ((cur : Int) - (addr : Int)) :=
    conv_wrap .i64 .u64 _ hd (by decide)
  have hnat : ((cur : Int) - (addr : Int)) = ((cur - addr : Nat) : Int) := by omega
  simp only [message_cursor_size, Kernel.retBits, Kernel.run, execStmts, mkEnv, CExpr.eval, Env.get?, if_true,
    show ("cursor_ptr" = "addr") = False from by decide, if_false, mk_mod_eq_wrap, hsub, Option.map, hconv]
  rw [hnat, wrap_bits_nat .u64 (cur - addr) (by simp [CTy.bits]; omega)]

end Sbepp
