/-
  Lemmas for C16.

  1. `denote_rel`: the model's key order on object representations
     (`Prim.load`: two's complement by case split, IEEE by sign-magnitude key)
     is the numeric order of the values the specification assigns to the same
     bit patterns (`Spec.Scalar.denote`: sign-bit weight, exact scaled value).  For
     binary32/64 this is the classical fact that non-NaN IEEE bit patterns
     order like sign-magnitude integers; proved for every format.
  2. The specification's predicates rewritten over `Ieee.Class`.
-/
import Sbepp.Rt.Optional
import Sbepp.Spec.Optional

set_option linter.unusedSimpArgs false

namespace Sbepp.Lemmas.Optional
open Sbepp Sbepp.Ieee Sbepp.Spec.Scalar Sbepp.Rt.Scalar

/-! ### scaled magnitude is strictly monotone in the magnitude field -/

/-- scaled magnitude of exponent field `e`, fraction field `m` -/
def smag (mb e m : Nat) : Nat := if e = 0 then m else (2 ^ mb + m) * 2 ^ (e - 1)

theorem smag_lt_of_exp_lt (mb : Nat) {e1 m1 e2 m2 : Nat} (h1 : m1 < 2 ^ mb) (he : e1 < e2) :
    smag mb e1 m1 < smag mb e2 m2 := by
  have hP : 0 < 2 ^ mb := Nat.two_pow_pos mb
  -- smag e1 m1 < 2^mb * 2^e1
  have hup : smag mb e1 m1 < 2 ^ mb * 2 ^ e1 := by
    unfold smag
    by_cases h0 : e1 = 0
    · subst h0; simp; exact h1
    · simp only [h0, if_false]
      have hsplit : 2 ^ e1 = 2 * 2 ^ (e1 - 1) := by
        have : e1 = (e1 - 1) + 1 := by omega
        rw [this, Nat.pow_succ]; simp; omega
      rw [hsplit]
      have hq : 0 < 2 ^ (e1 - 1) := Nat.two_pow_pos _
      have : (2 ^ mb + m1) * 2 ^ (e1 - 1) < (2 ^ mb * 2) * 2 ^ (e1 - 1) :=
        (Nat.mul_lt_mul_right hq).2 (by omega)
      calc (2 ^ mb + m1) * 2 ^ (e1 - 1) < (2 ^ mb * 2) * 2 ^ (e1 - 1) := this
        _ = 2 ^ mb * (2 * 2 ^ (e1 - 1)) := by rw [Nat.mul_assoc]
  -- 2^mb * 2^e1 ≤ smag e2 m2
  have hlow : 2 ^ mb * 2 ^ e1 ≤ smag mb e2 m2 := by
    unfold smag
    have h0 : e2 ≠ 0 := by omega
    simp only [h0, if_false]
    have hle : 2 ^ e1 ≤ 2 ^ (e2 - 1) := Nat.pow_le_pow_right (by decide) (by omega)
    calc 2 ^ mb * 2 ^ e1 ≤ 2 ^ mb * 2 ^ (e2 - 1) := Nat.mul_le_mul_left _ hle
      _ ≤ (2 ^ mb + m2) * 2 ^ (e2 - 1) := Nat.mul_le_mul_right _ (by omega)
  omega

theorem smag_lt_of_frac_lt (mb e : Nat) {m1 m2 : Nat} (h : m1 < m2) :
    smag mb e m1 < smag mb e m2 := by
  unfold smag
  by_cases h0 : e = 0
  · simp [h0, h]
  · simp only [h0, if_false]
    exact (Nat.mul_lt_mul_right (Nat.two_pow_pos _)).2 (by omega)

/-- the scaled magnitude as a function of the whole magnitude field -/
def G (mb a : Nat) : Nat := smag mb (a / 2 ^ mb) (a % 2 ^ mb)

theorem lex_of_lt (P a b : Nat) (h : a < b) :
    a / P < b / P ∨ (a / P = b / P ∧ a % P < b % P) := by
  have hle : a / P ≤ b / P := Nat.div_le_div_right (Nat.le_of_lt h)
  by_cases heq : a / P = b / P
  · right
    refine ⟨heq, ?_⟩
    have ha := Nat.div_add_mod a P
    have hb := Nat.div_add_mod b P
    rw [heq] at ha
    generalize P * (b / P) = t at ha hb
    omega
  · left; omega

theorem G_strictMono (mb : Nat) {a b : Nat} (h : a < b) : G mb a < G mb b := by
  have hP : 0 < 2 ^ mb := Nat.two_pow_pos mb
  unfold G
  rcases lex_of_lt (2 ^ mb) a b h with he | ⟨he, hm⟩
  · exact smag_lt_of_exp_lt mb (Nat.mod_lt _ hP) he
  · rw [he]; exact smag_lt_of_frac_lt mb _ hm

theorem G_lt_iff (mb a b : Nat) : G mb a < G mb b ↔ a < b := by
  constructor
  · intro h
    by_cases hab : a < b
    · exact hab
    · exfalso
      by_cases heq : a = b
      · subst heq; omega
      · have : b < a := by omega
        have := G_strictMono mb this
        omega
  · exact G_strictMono mb

theorem G_zero (mb : Nat) : G mb 0 = 0 := by
  simp [G, smag]

/-! ### signed keys -/

theorem signed_iso (A B gA gB : Nat) (sa sb : Bool)
    (h1 : gA < gB ↔ A < B) (h2 : gB < gA ↔ B < A) (hza : gA = 0 ↔ A = 0) (hzb : gB = 0 ↔ B = 0) :
    (((if sa then -(gA : Int) else gA) < (if sb then -(gB : Int) else gB)) ↔
      ((if sa then -(A : Int) else A) < (if sb then -(B : Int) else B))) ∧
    (((if sa then -(gA : Int) else gA) = (if sb then -(gB : Int) else gB)) ↔
      ((if sa then -(A : Int) else A) = (if sb then -(B : Int) else B))) := by
  cases sa <;> cases sb <;> simp <;> omega

/-! ### the two readings of a floating-point bit pattern -/

theorem floatDenote_eq (eb mb bits : Nat) :
    floatDenote eb mb bits =
      if isNaN ⟨eb, mb⟩ bits then Num.nan
      else Num.fin (if signBit ⟨eb, mb⟩ bits = 1 then -(G mb (magnitude ⟨eb, mb⟩ bits) : Int)
                    else (G mb (magnitude ⟨eb, mb⟩ bits) : Int)) := by
  have hm : magnitude ⟨eb, mb⟩ bits % 2 ^ mb = bits % 2 ^ mb := by
    unfold magnitude
    exact Nat.mod_mod_of_dvd bits ⟨2 ^ eb, by rw [Nat.pow_add, Nat.mul_comm]⟩
  have he : magnitude ⟨eb, mb⟩ bits / 2 ^ mb = bits / 2 ^ mb % 2 ^ eb := by
    unfold magnitude
    show bits % 2 ^ (eb + mb) / 2 ^ mb = _
    rw [Nat.pow_add, Nat.mul_comm (2 ^ eb), Nat.mod_mul_right_div_self]
  unfold floatDenote isNaN expField fracField signBit G smag
  simp only [hm, he]
  by_cases hn : bits / 2 ^ mb % 2 ^ eb = 2 ^ eb - 1 ∧ bits % 2 ^ mb ≠ 0
  · have : (bits / 2 ^ mb % 2 ^ eb == 2 ^ eb - 1 && bits % 2 ^ mb != 0) = true := by
      simp [hn.1, hn.2]
    simp [hn]
  · have : (bits / 2 ^ mb % 2 ^ eb == 2 ^ eb - 1 && bits % 2 ^ mb != 0) = false := by
      cases h1 : (bits / 2 ^ mb % 2 ^ eb == 2 ^ eb - 1) <;> cases h2 : (bits % 2 ^ mb != 0) <;> simp_all
    simp [hn, this]

/-- IEEE bit patterns order like their exact values: for every format, the
    numeric relations on `Spec.Scalar.floatDenote` coincide with the relations on the
    sign-magnitude key of `Ieee.classify` -/
theorem float_rel (eb mb : Nat) (r : Rel) (a b : Nat) :
    relNum r (floatDenote eb mb a) (floatDenote eb mb b)
      = frel r (classify ⟨eb, mb⟩ a) (classify ⟨eb, mb⟩ b) := by
  rw [floatDenote_eq, floatDenote_eq]
  unfold classify
  cases ha : isNaN ⟨eb, mb⟩ a <;> cases hb : isNaN ⟨eb, mb⟩ b
  · -- both numbers
    simp only [Bool.false_eq_true, if_false]
    generalize magnitude ⟨eb, mb⟩ a = A
    generalize magnitude ⟨eb, mb⟩ b = B
    have hz : ∀ X, G mb X = 0 ↔ X = 0 := by
      intro X
      have h1 := G_lt_iff mb 0 X
      rw [G_zero] at h1
      omega
    have hs := signed_iso A B (G mb A) (G mb B) (decide (signBit ⟨eb, mb⟩ a = 1))
      (decide (signBit ⟨eb, mb⟩ b = 1)) (G_lt_iff mb A B) (G_lt_iff mb B A) (hz A) (hz B)
    simp only [decide_eq_true_eq] at hs
    obtain ⟨hlt, heq⟩ := hs
    generalize (if signBit ⟨eb, mb⟩ a = 1 then -(G mb A : Int) else (G mb A : Int)) = x' at hlt heq
    generalize (if signBit ⟨eb, mb⟩ b = 1 then -(G mb B : Int) else (G mb B : Int)) = y' at hlt heq
    generalize (if signBit ⟨eb, mb⟩ a = 1 then -(A : Int) else (A : Int)) = x at hlt heq
    generalize (if signBit ⟨eb, mb⟩ b = 1 then -(B : Int) else (B : Int)) = y at hlt heq
    have hdec : decide (x' = y') = (x == y) := by
      by_cases h : x = y
      · simp [h, heq.2 h]
      · have : ¬ x' = y' := fun e => h (heq.1 e)
        simp [h, this]
    cases r
    · simp [relNum, frel, feq]; exact hdec
    · simp [relNum, frel, feq, fne]; exact hdec
    all_goals (simp [relNum, frel, flt, fle, fgt, fge] <;> omega)
  · cases r <;> simp [relNum, frel, feq, fne, flt, fle, fgt, fge]
  · cases r <;> simp [relNum, frel, feq, fne, flt, fle, fgt, fge]
  · cases r <;> simp [relNum, frel, feq, fne, flt, fle, fgt, fge]

/-! ### integers: sign-bit weight = two's complement by case split -/

theorem relNum_fin (r : Rel) (x y : Int) :
    relNum r (.fin x) (.fin y) = frel r (.num x) (.num y) := by
  cases r <;> simp [relNum, frel, feq, fne, flt, fle, fgt, fge] <;>
    (by_cases h : x = y <;> simp [h])

theorem signed_weight (w r : Nat) (hw : 0 < w) (hr : r < 2 ^ w) :
    ((r % 2 ^ (w - 1) : Nat) : Int) - ((r / 2 ^ (w - 1) * 2 ^ (w - 1) : Nat) : Int)
      = if 2 ^ (w - 1) ≤ r then (r : Int) - (2 ^ w : Nat) else (r : Int) := by
  have hw2 : 2 ^ w = 2 * 2 ^ (w - 1) := by
    have : w = (w - 1) + 1 := by omega
    rw [this, Nat.pow_succ]; simp; omega
  have hP : 0 < 2 ^ (w - 1) := Nat.two_pow_pos _
  generalize 2 ^ (w - 1) = P at *
  rw [hw2] at hr ⊢
  have hdm := Nat.div_add_mod r P
  have hml := Nat.mod_lt r hP
  rw [Nat.mul_comm] at hdm
  by_cases h : P ≤ r
  · have hq : r / P = 1 := by
      have h1 : r / P < 2 := (Nat.div_lt_iff_lt_mul hP).2 (by omega)
      have h2 : 0 < r / P := Nat.div_pos h hP
      omega
    rw [hq] at hdm ⊢
    simp only [h, if_true]
    omega
  · have hq : r / P = 0 := Nat.div_eq_of_lt (by omega)
    rw [hq] at hdm ⊢
    simp only [h, if_false]
    omega

theorem intDenote_signed (w v : Nat) (hw : 0 < w) :
    intDenote w true v =
      if decide (2 ^ (w - 1) ≤ v % 2 ^ w) = true then ((v % 2 ^ w : Nat) : Int) - (2 ^ w : Nat)
      else ((v % 2 ^ w : Nat) : Int) := by
  unfold intDenote
  simp only [if_true, decide_eq_true_eq]
  exact signed_weight w _ hw (Nat.mod_lt _ (Nat.two_pow_pos _))

theorem int_denote (p : Prim) (h : p.isFloat = false) (v : Nat) :
    denote p v = .fin (p.toInt v) := by
  cases p <;> simp [Prim.isFloat] at h
  case uint8 | uint16 | uint32 | uint64 =>
    simp [denote, intDenote, Prim.toInt, Prim.bits, Prim.isSigned]
  case char => show Num.fin (intDenote 8 true v) = _; rw [intDenote_signed 8 v (by decide)]; rfl
  case int8 => show Num.fin (intDenote 8 true v) = _; rw [intDenote_signed 8 v (by decide)]; rfl
  case int16 => show Num.fin (intDenote 16 true v) = _; rw [intDenote_signed 16 v (by decide)]; rfl
  case int32 => show Num.fin (intDenote 32 true v) = _; rw [intDenote_signed 32 v (by decide)]; rfl
  case int64 => show Num.fin (intDenote 64 true v) = _; rw [intDenote_signed 64 v (by decide)]; rfl

/-- **bridge**: the numeric relations on denoted values are the built-in
    comparisons of the model, for every primitive type and all bit patterns -/
theorem denote_rel (p : Prim) (r : Rel) (a b : Nat) :
    relNum r (denote p a) (denote p b) = uRel p r a b := by
  cases hp : p.isFloat
  · rw [int_denote p hp, int_denote p hp, relNum_fin]
    cases p <;> simp [Prim.isFloat] at hp <;> rfl
  · cases p <;> simp [Prim.isFloat] at hp
    · exact float_rel 8 23 r a b
    · exact float_rel 11 52 r a b

/-! ### the specification over `Ieee.Class` -/

theorem denote_nan_iff (p : Prim) (x : Nat) : denote p x = .nan ↔ p.load x = .nan := by
  have h := denote_rel p .eq x x
  unfold uRel at h
  cases hd : denote p x <;> cases hl : p.load x <;> simp [hd, hl, relNum, frel, feq] at h ⊢

/-- `Spec.Scalar.isNull` on comparison classes -/
def isNullC : Class → Class → Bool
  | .nan, .nan => true
  | .num a, .num b => a == b
  | _, _ => false

theorem isNull_eq (p : Prim) (null v : Nat) : isNull p null v = isNullC (p.load null) (p.load v) := by
  have h := denote_rel p .eq null v
  have hn := denote_nan_iff p null
  have hv := denote_nan_iff p v
  unfold uRel at h
  unfold isNull
  cases hdn : denote p null <;> cases hdv : denote p v <;>
    cases hln : p.load null <;> cases hlv : p.load v <;>
    simp [hdn, hdv, hln, hlv, relNum, frel, feq, isNullC] at h hn hv ⊢
  rename_i a b c d
  by_cases hab : a = b
  · simp [hab] at h ⊢; exact h
  · simp [hab] at h ⊢; exact h

/-- `Spec.Scalar.optRel` on comparison classes -/
def optRelC (ln : Class) (r : Rel) (la lb : Class) : Bool :=
  if !isNullC ln la && !isNullC ln lb then frel r la lb
  else relNat r (if isNullC ln la then 0 else 1) (if isNullC ln lb then 0 else 1)

theorem optRel_eq (p : Prim) (null : Nat) (r : Rel) (a b : Nat) :
    optRel p null r a b = optRelC (p.load null) r (p.load a) (p.load b) := by
  unfold optRel nullRank optRelC
  rw [isNull_eq, isNull_eq, denote_rel]
  rfl

/-- the relations derived from the defaulted `<=>`/`==` of `required_base` -/
def reqShipC (r : Rel) (la lb : Class) : Bool :=
  match r with
  | .eq => feq la lb
  | .ne => !feq la lb
  | r => Ord3.test r (fcmp3 la lb)

theorem req_ship_core (r : Rel) (la lb : Class) : reqShipC r la lb = frel r la lb := by
  cases la with
  | nan => cases lb <;> cases r <;>
      simp [reqShipC, frel, feq, fne, flt, fle, fgt, fge, fcmp3, Ord3.test, Ord3.lt0, Ord3.le0, Ord3.gt0, Ord3.ge0]
  | num x =>
    cases lb with
    | nan => cases r <;>
        simp [reqShipC, frel, feq, fne, flt, fle, fgt, fge, fcmp3, Ord3.test, Ord3.lt0, Ord3.le0, Ord3.gt0, Ord3.ge0]
    | num y =>
      have h3 : x < y ∨ x = y ∨ y < x := by omega
      rcases h3 with h | h | h
      · have h1 : ¬ x = y := by omega
        have h2 : ¬ y < x := by omega
        have h4 : x ≤ y := by omega
        have h5 : ¬ y ≤ x := by omega
        cases r <;>
          simp [reqShipC, frel, feq, fne, flt, fle, fgt, fge, fcmp3, Ord3.test, Ord3.lt0, Ord3.le0, Ord3.gt0,
            Ord3.ge0, h, h1, h2, h4, h5]
      · subst h
        cases r <;>
          simp [reqShipC, frel, feq, fne, flt, fle, fgt, fge, fcmp3, Ord3.test, Ord3.lt0, Ord3.le0, Ord3.gt0,
            Ord3.ge0]
      · have h1 : ¬ x = y := by omega
        have h2 : ¬ x < y := by omega
        have h4 : y ≤ x := by omega
        have h5 : ¬ x ≤ y := by omega
        cases r <;>
          simp [reqShipC, frel, feq, fne, flt, fle, fgt, fge, fcmp3, Ord3.test, Ord3.lt0, Ord3.le0, Ord3.gt0,
            Ord3.ge0, h, h1, h2, h4, h5]

/-! ### `optional_base` on comparison classes -/

/-- `has_value()` on classes -/
def hasC (ln lv : Class) : Bool := fne lv ln && !(fne lv lv && fne ln ln)

/-- `has_value()` is "not null" for every null value, NaN included -/
theorem hasC_eq (ln lv : Class) : hasC ln lv = !isNullC ln lv := by
  cases ln with
  | nan => cases lv <;> simp [hasC, isNullC, fne, feq]
  | num n =>
    cases lv with
    | nan => simp [hasC, isNullC, fne, feq]
    | num x =>
      by_cases hx : x = n
      · subst hx; simp [hasC, isNullC, fne, feq]
      · have hx' : ¬ n = x := fun e => hx e.symm
        have hxb : (x == n) = false := by simpa using hx
        have hxb' : (n == x) = false := by simpa using hx'
        simp [hasC, isNullC, fne, feq, hxb, hxb']

/-- `operator==` and the five other hand-written operators on classes -/
def opsC (ln : Class) (r : Rel) (la lb : Class) : Bool :=
  let ha := hasC ln la
  let hb := hasC ln lb
  let eq := if ha && hb then feq la lb else ha == hb
  match r with
  | .eq => eq
  | .ne => !eq
  | .lt => hb && (!ha || flt la lb)
  | .le => !ha || (hb && fle la lb)
  | .gt => ha && (!hb || fgt la lb)
  | .ge => !hb || (ha && fge la lb)

/-- the six operators implement the documented rules, for every null value -/
theorem ops_core (ln : Class) (r : Rel) (la lb : Class) :
    opsC ln r la lb = optRelC ln r la lb := by
  unfold opsC optRelC
  simp only [hasC_eq]
  cases isNullC ln la <;> cases isNullC ln lb <;> cases r <;>
    simp [relNat, frel, fne]

/-- `operator<=>` followed by the comparison with 0 -/
def shipC (ln : Class) (r : Rel) (la lb : Class) : Bool :=
  let ha := hasC ln la
  let hb := hasC ln lb
  Ord3.test r (if ha && hb then fcmp3 la lb else boolCmp3 ha hb)

theorem ship_core (ln : Class) (r : Rel) (hr : r.isOrdering = true) (la lb : Class) :
    shipC ln r la lb = optRelC ln r la lb := by
  have hreq : Ord3.test r (fcmp3 la lb) = frel r la lb := by
    have h := req_ship_core r la lb
    cases r <;> simp [Rel.isOrdering] at hr <;> simpa [reqShipC] using h
  unfold shipC optRelC
  simp only [hasC_eq]
  cases isNullC ln la <;> cases isNullC ln lb
  · simp [hreq]
  all_goals
    cases r <;> simp [Rel.isOrdering] at hr <;>
      simp [relNat, boolCmp3, Ord3.test, Ord3.lt0, Ord3.le0, Ord3.gt0, Ord3.ge0]

end Sbepp.Lemmas.Optional
