/-
  Byte-level meaning of setters inside one block: with pairwise disjoint leaves
  (what the validator guarantees), after all leaves were written every leaf holds
  its value and every byte outside all leaves keeps its previous content.
-/
import Sbepp.Lemmas.Encode

namespace Sbepp.Spec
open Sbepp

theorem getElem?_writeAt (buf bs : List Nat) (pos i : Nat) (h : pos + bs.length ≤ buf.length) :
    (writeAt buf pos bs)[i]? = if pos ≤ i ∧ i < pos + bs.length then bs[i - pos]? else buf[i]? := by
  unfold writeAt
  have ht : bs.take (buf.length - pos) = bs := List.take_of_length_le (by omega)
  rw [ht]
  have hl : (buf.take pos).length = pos := by rw [List.length_take]; omega
  by_cases h1 : i < pos
  · have : ¬ (pos ≤ i ∧ i < pos + bs.length) := by omega
    rw [if_neg this, List.append_assoc, List.getElem?_append_left (by omega), List.getElem?_take_of_lt h1]
  · by_cases h2 : i < pos + bs.length
    · rw [if_pos ⟨by omega, h2⟩, List.append_assoc, List.getElem?_append_right (by omega), hl,
        List.getElem?_append_left (by omega)]
    · have : ¬ (pos ≤ i ∧ i < pos + bs.length) := by omega
      rw [if_neg this, List.getElem?_append_right (by simp only [List.length_append, hl]; omega)]
      simp only [List.length_append, hl, List.getElem?_drop]
      congr 1; omega

theorem slice_getElem? (buf : List Nat) (pos n i : Nat) :
    (slice buf pos n)[i]? = if i < n then buf[pos + i]? else none := by
  unfold slice
  by_cases h : i < n
  · rw [if_pos h, List.getElem?_take_of_lt h, List.getElem?_drop]
  · rw [if_neg h]
    apply List.getElem?_eq_none
    rw [List.length_take]; omega

/-- leaves in ascending, non-overlapping order (the validator's running offset) -/
def Sorted : List Leaf → Prop
  | [] => True
  | lf :: rest => (∀ x ∈ rest, lf.off + lf.size ≤ x.off) ∧ Sorted rest

/-- bytes untouched by `writeLeaves`: every index outside all leaves -/
theorem writeLeaves_frame (buf block : List Nat) (lv : List Leaf) (i : Nat)
    (hb : ∀ lf ∈ lv, lf.off + lf.size ≤ block.length) (hp : ∀ lf ∈ lv, lf.off + lf.size ≤ buf.length)
    (hout : ∀ lf ∈ lv, i < lf.off ∨ lf.off + lf.size ≤ i) :
    (writeLeaves buf 0 block lv)[i]? = buf[i]? := by
  induction lv generalizing buf with
  | nil => rfl
  | cons lf rest ih =>
    simp only [writeLeaves, Nat.zero_add]
    have h1 := hb lf (by simp)
    have h2 := hp lf (by simp)
    have hs := slice_length block lf.off lf.size h1
    have hw : (writeAt buf lf.off (slice block lf.off lf.size)).length = buf.length :=
      writeAt_len _ _ _ (by rw [hs]; exact h2)
    rw [ih _ (fun x hx => hb x (by simp [hx])) (fun x hx => by rw [hw]; exact hp x (by simp [hx]))
      (fun x hx => hout x (by simp [hx]))]
    rw [getElem?_writeAt _ _ _ _ (by rw [hs]; exact h2), hs]
    have := hout lf (by simp)
    rw [if_neg (by omega)]

/-- every leaf holds its value after all leaves were written -/
theorem writeLeaves_get (buf block : List Nat) (lv : List Leaf) (lf : Leaf) (hmem : lf ∈ lv)
    (hs : Sorted lv) (hb : ∀ x ∈ lv, x.off + x.size ≤ block.length) (hp : ∀ x ∈ lv, x.off + x.size ≤ buf.length) :
    slice (writeLeaves buf 0 block lv) lf.off lf.size = slice block lf.off lf.size := by
  induction lv generalizing buf with
  | nil => simp at hmem
  | cons a rest ih =>
    simp only [writeLeaves, Nat.zero_add]
    have h1 := hb a (by simp)
    have h2 := hp a (by simp)
    have hsl := slice_length block a.off a.size h1
    have hw : (writeAt buf a.off (slice block a.off a.size)).length = buf.length :=
      writeAt_len _ _ _ (by rw [hsl]; exact h2)
    obtain ⟨hlt, hrest⟩ := hs
    have hb' : ∀ x ∈ rest, x.off + x.size ≤ block.length := fun x hx => hb x (by simp [hx])
    have hp' : ∀ x ∈ rest, x.off + x.size ≤ (writeAt buf a.off (slice block a.off a.size)).length :=
      fun x hx => by rw [hw]; exact hp x (by simp [hx])
    rcases List.mem_cons.mp hmem with heq | hin
    · -- the first leaf: later writes are above it
      subst heq
      apply List.ext_getElem?
      intro i
      rw [slice_getElem?, slice_getElem?]
      by_cases hi : i < lf.size
      · rw [if_pos hi, if_pos hi]
        rw [writeLeaves_frame _ block rest (lf.off + i) hb' hp'
          (fun x hx => by have := hlt x hx; omega)]
        rw [getElem?_writeAt _ _ _ _ (by rw [hsl]; exact h2), hsl, if_pos (by omega), slice_getElem?, if_pos (by omega)]
        congr 1; omega
      · rw [if_neg hi, if_neg hi]
    · exact ih _ hin hrest hb' hp'

end Sbepp.Spec
