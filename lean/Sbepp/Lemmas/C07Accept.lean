/-
  Lemmas for C07 (acceptance): what the validator rules of bf3e3ae / ceb9ad3 / c7e26c2, as mirrored in
  Gen/Accept.lean, give the generated code; and that "in range" there is `representable member_prim
  (toString value)` of Spec/Rules.lean for an integer member.
-/
import Sbepp.Gen.Accept
import Sbepp.Lemmas.C07Literals

namespace Sbepp.Gen.Literals
open Sbepp Sbepp.Schema

theorem literalSites_eq (s : SchemaDef) (x : SchemaTexts) : literalSites s x = schemaSites s x ++ bodySites s := by
  simp [literalSites, bodySites, List.append_assoc]

/-- a header-filler site: an unsigned number braced into the type of a primitive -/
def Site.isFiller (site : Site) : Bool :=
  match site.target, site.text with
  | .prim _, .nat _ => true
  | _, _ => false

theorem schemaSites_fillerOk (s : SchemaDef) (x : SchemaTexts) : ∀ site ∈ schemaSites s x, site.fillerOk = true := by
  intro site h
  simp only [schemaSites, textSite, List.mem_cons, List.not_mem_nil, or_false] at h
  rcases h with h | h | h | h | h <;> subst h <;> rfl

/-- in an accepted schema every header-filler constant has passed the validator's check -/
theorem fillers_validated (s : SchemaDef) (x : SchemaTexts) (ha : fillersAccepted s = true) :
    ∀ site ∈ literalSites s x, site.isFiller = true → site.validated = true := by
  intro site hm hf
  have hok : site.fillerOk = true := by
    rw [literalSites_eq] at hm
    rcases List.mem_append.mp hm with h | h
    · exact schemaSites_fillerOk s x site h
    · exact List.all_eq_true.mp ha site h
  obtain ⟨kind, entity, text, target⟩ := site
  cases target <;> cases text <;> simp [Site.isFiller] at hf
  simpa [Site.fillerOk, Site.validated] using hok

theorem filler_not_unchecked (site : Site) (hf : site.isFiller = true) : site.unchecked = false := by
  obtain ⟨kind, entity, text, target⟩ := site
  cases target <;> cases text <;> simp [Site.isFiller] at hf
  rfl

/-- an unchecked site is a `valueRef` enumerator braced into a floating-point type (or unresolved) -/
theorem unchecked_shape (site : Site) (h : site.unchecked = true) :
    ∃ p v, site.target = .prim p ∧ site.text = .enumRef v ∧ (p.isFloat = true ∨ v = none) := by
  obtain ⟨kind, entity, text, target⟩ := site
  cases target with
  | prim p =>
    cases text with
    | enumRef v =>
      refine ⟨p, v, rfl, rfl, ?_⟩
      simp only [Site.unchecked, Bool.or_eq_true, Option.isNone_iff_eq_none] at h
      exact h
    | _ => simp [Site.unchecked] at h
  | _ => simp [Site.unchecked] at h

end Sbepp.Gen.Literals

namespace Sbepp.Gen
open Sbepp Sbepp.Schema

theorem headerTypeProblems_nil (s : SchemaDef) (h : headerTypesAccepted s = true) : headerTypeProblems s = [] := by
  unfold headerTypeProblems
  have : (headerUses s).filter (fun u => u.breaks && u.isFloat s.types) = [] := by
    apply List.filter_eq_nil_iff.mpr
    intro u hu
    have := List.all_eq_true.mp h u hu
    simp only [Bool.not_eq_true'] at this
    simp [this]
  rw [this]; rfl

theorem duplicateCaseProblems_nil (s : SchemaDef) (h : enumValuesDistinct s = true) : duplicateCaseProblems s = [] := by
  simpa [enumValuesDistinct] using h

/-- the components of `acceptedB` -/
theorem acceptedB_parts (s : SchemaDef) (h : acceptedB s = true) :
    Scope.namesAccepted s = true ∧ Scope.uniqueAccepted s = true ∧ Literals.valuesAccepted s = true ∧
    Literals.rangesAccepted s = true ∧ Literals.layoutAccepted s = true ∧ headerTypesAccepted s = true ∧
    Literals.fillersAccepted s = true ∧ enumValuesDistinct s = true := by
  unfold acceptedB at h
  simp only [Bool.and_eq_true] at h
  exact ⟨h.1.1.1.1.1.1.1, h.1.1.1.1.1.1.2, h.1.1.1.1.1.2, h.1.1.1.1.2, h.1.1.1.2, h.1.1.2, h.1.2, h.2⟩

end Sbepp.Gen

/-! ### the validator's formulation: `representable member_prim (toString value)` -/

namespace Sbepp.Gen.Literals
open Sbepp Sbepp.Spec.Rules

theorem isDigitChar_of_isDigit (c : Char) (h : c.isDigit = true) : isDigitChar c = true := by
  simp only [Char.isDigit, Bool.and_eq_true, decide_eq_true_eq] at h
  simp only [isDigitChar, Bool.and_eq_true, decide_eq_true_eq, Char.le_def]
  constructor
  · exact h.1
  · exact h.2

theorem ofDigitChars_reverse (r : List Char) : Nat.ofDigitChars 10 r.reverse 0 = decValRev r := by
  induction r with
  | nil => simp [decValRev]
  | cons d r ih =>
    rw [List.reverse_cons, Nat.ofDigitChars_append, ih]
    simp [Nat.ofDigitChars_cons, decValRev, digitOf]
    omega

theorem decVal_toDigits (n : Nat) : decVal (Nat.toDigits 10 n) = n := by
  unfold decVal
  rw [← ofDigitChars_reverse, List.reverse_reverse]
  exact Nat.ofDigitChars_ten_toDigits

/-- the decimal text `fmt` / `std::to_string` produce for an unsigned number is an integer literal of that number -/
theorem intLiteral?_toDigits (sg : Bool) (n : Nat) : intLiteral? sg (Nat.toDigits 10 n) = some (n : Int) := by
  have hdig : ∀ c ∈ Nat.toDigits 10 n, isDigitChar c = true := fun c hc =>
    isDigitChar_of_isDigit c (Nat.isDigit_of_mem_toDigits (by decide) (by decide) hc)
  have hv := decVal_toDigits n
  cases hds : Nat.toDigits 10 n with
  | nil => exact absurd hds Nat.toDigits_ne_nil
  | cons c rest =>
    rw [hds] at hdig hv
    have hc : c ≠ '-' := by
      intro hc
      have := hdig c List.mem_cons_self
      rw [hc] at this
      exact absurd this (by decide)
    have hall : (c :: rest).all isDigitChar = true := List.all_eq_true.mpr hdig
    unfold intLiteral?
    split
    · rename_i heq; cases heq
    · rename_i ds heq
      cases heq
      exact absurd rfl hc
    · simp [hall, hv]

theorem intLiteral?_toString (sg : Bool) (n : Nat) : intLiteral? sg (toString n).toList = some (n : Int) := by
  have hl : (toString n).toList = Nat.toDigits 10 n := by simp
  rw [hl]; exact intLiteral?_toDigits sg n

/-- **the mirrored range condition is the validator's**: for an integer or char header member of primitive `p`,
    `representable p.name (toString value)` (sbe_schema_validator as modelled and proved in C08) holds exactly
    when the value is in the range of `p` -/
theorem representable_toString (p : Prim) (n : Nat) (hf : p.isFloat = false) :
    representable p.name (toString n) = inPrimRange p (n : Int) := by
  cases p <;> simp [Prim.isFloat] at hf <;>
    simp [representable, intRepresentable, intRange, Prim.name, intLiteral?_toDigits, inPrimRange, primRange?] <;>
    try omega

end Sbepp.Gen.Literals
