/-
  C18: `utils::strip_leading_zeros` as modelled in `Gen.Traits` keeps the decimal value of
  every numeric text (`std::from_chars` reading: optional `-`, digits, leading zeros allowed),
  so explicit minValue / maxValue / nullValue / enum values denote their decimal value
  however many leading zeros the schema writes.
-/
import Sbepp.Gen.Traits

namespace Sbepp.Gen.Traits
open Sbepp Sbepp.Spec.Scalar

theorem digitsVal_zero_cons (cs : List Char) (h : cs ≠ []) : digitsVal 10 ('0' :: cs) = digitsVal 10 cs := by
  unfold digitsVal
  cases cs with
  | nil => exact absurd rfl h
  | cons c r => simp [hexDigit?]

theorem stripDigits_zero_cons (r : List Char) (h : r ≠ []) : stripDigits ('0' :: r) = stripDigits r := by
  cases r with
  | nil => exact absurd rfl h
  | cons c t => simp [stripDigits, List.dropWhile, List.getLast?]

/-- dropping superfluous leading zeros keeps the decimal value -/
theorem stripDigits_value : ∀ (ds : List Char) (n : Nat), digitsVal 10 ds = some n → digitsVal 10 (stripDigits ds) = some n := by
  intro ds
  induction ds with
  | nil => intro n h; simp [digitsVal] at h
  | cons c r ih =>
    intro n h
    by_cases hc : c = '0'
    · subst hc
      by_cases hr : r = []
      · subst hr
        simpa [stripDigits, List.dropWhile, List.getLast?] using h
      · rw [stripDigits_zero_cons r hr]
        rw [digitsVal_zero_cons r hr] at h
        exact ih n h
    · have hb : (c == '0') = false := by simp [hc]
      have : stripDigits (c :: r) = c :: r := by
        simp [stripDigits, List.dropWhile, hb]
      rw [this]; exact h

theorem foldl_none (f : Option Nat → Char → Option Nat) (hf : ∀ c, f none c = none) (cs : List Char) :
    cs.foldl f none = none := by
  induction cs with
  | nil => rfl
  | cons c r ih =>
    show r.foldl f (f none c) = none
    rw [hf]; exact ih

theorem digitsVal_minus (x : List Char) : digitsVal 10 ('-' :: x) = none := by
  unfold digitsVal
  simp only [List.isEmpty_cons, Bool.false_eq_true, if_false, List.foldl]
  have : hexDigit? '-' = none := by decide
  simp only [this]
  exact foldl_none _ (by intro c; rfl) x

/-- **strip_preserves_value**: `strip_leading_zeros` does not change what a numeric text denotes -/
theorem strip_preserves_value (s : String) (v : Int) (h : decInt? s = some v) :
    decInt? (stripLeadingZeros s) = some v := by
  unfold decInt? at h
  unfold stripLeadingZeros
  split at h
  · rename_i cs hs
    try simp only [hs]
    cases hd : digitsVal 10 cs with
    | none => simp [hd] at h
    | some n =>
      simp [hd] at h
      simp [decInt?, String.toList_ofList, stripDigits_value cs n hd, h]
  · rename_i cs hne
    cases hd : digitsVal 10 s.toList with
    | none => simp [hd] at h
    | some n =>
      simp [hd] at h
      have hsd := stripDigits_value s.toList n hd
      unfold decInt?
      rw [String.toList_ofList]
      split
      · rename_i x hx
        rw [hx, digitsVal_minus] at hsd
        simp at hsd
      · simp [hsd, h]

end Sbepp.Gen.Traits
