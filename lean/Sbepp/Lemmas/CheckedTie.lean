/-
  Tie of the hand model of `sbepp::detail::size_bytes_checked_visitor` and
  `sbepp::size_bytes_checked` (`Rt/Checked.lean`) to the C++ text.

  * `Tie.<method>_tie`: the definition generated from sbepp.hpp on this run
    (`Sbepp.Extracted.Checked.<method>`, `extract/methods_checked.py`) is the
    hand-written member function `Sbepp.Checked.Visitor.<method>`.  A semantic
    change of a C++ member function changes the generated term and the theorem
    stops checking.
  * `Factor.*`: the model the C06 theorems are about (`runMsg`, `runGroup`: visitor
    logic inlined into the model of the generated `visit_children`, the cursor
    accessors and the `cursor_range` loop) is the skeleton `Skel.*` (the same
    generated code and cursor, callbacks through an `Ops` record) around the
    hand-written member functions: `runMsg_hand`, `runGroup_hand`.  On the way:
    `size` never grows (`*_size_le`), so the `std::size_t` subtraction
    `size - visitor.get_size()` does not wrap.
  * `Tie.runMsg_extracted`, `Tie.runGroup_extracted`: the skeleton around the
    EXTRACTED member functions is `runMsg` / `runGroup`; every theorem about these
    is therefore a theorem about the member functions as sbepp.hpp states them now
    (`Properties/C06.lean`, `*_extracted`).
-/
import Sbepp.Rt.Checked
import Sbepp.Extracted.CheckedVisitor
import Sbepp.Lemmas.Checked

namespace Sbepp.Checked
open Sbepp Sbepp.Checked.Visitor

/-! ## generated definition = hand-written member function -/
namespace Tie
theorem validateAndSubtract_tie : @Extracted.Checked.validateAndSubtract = @Visitor.validateAndSubtract := rfl
theorem isValid_tie : @Extracted.Checked.isValid = @Visitor.isValid := rfl
theorem getSize_tie : @Extracted.Checked.getSize = @Visitor.getSize := rfl
theorem setGroupBlockLength_tie : @Extracted.Checked.setGroupBlockLength = @Visitor.setGroupBlockLength := rfl
theorem ctor_tie : @Extracted.Checked.ctor = @Visitor.ctor := rfl
theorem onField_tie : @Extracted.Checked.onField = @Visitor.onField := rfl
/- the callers: unfold both sides, replace the generated callees by the hand-written ones (so that a change of
   `validate_and_subtract` alone breaks `validateAndSubtract_tie` alone), compare -/
theorem onData_tie : @Extracted.Checked.onData = @Visitor.onData := by
  unfold Extracted.Checked.onData Visitor.onData
  rw [validateAndSubtract_tie]
theorem onEntry_tie : @Extracted.Checked.onEntry = @Visitor.onEntry := by
  unfold Extracted.Checked.onEntry Visitor.onEntry
  rw [validateAndSubtract_tie, isValid_tie]
theorem onGroup_tie : @Extracted.Checked.onGroup = @Visitor.onGroup := by
  unfold Extracted.Checked.onGroup Visitor.onGroup
  rw [validateAndSubtract_tie, isValid_tie, setGroupBlockLength_tie]
theorem onMessage_tie : @Extracted.Checked.onMessage = @Visitor.onMessage := by
  unfold Extracted.Checked.onMessage Visitor.onMessage
  rw [validateAndSubtract_tie]
theorem sizeBytesChecked_tie : @Extracted.Checked.sizeBytesChecked = @Visitor.sizeBytesChecked := by
  unfold Extracted.Checked.sizeBytesChecked Visitor.sizeBytesChecked
  rw [ctor_tie, isValid_tie, getSize_tie]

/-- the member functions as sbepp.hpp states them on this run -/
def extractedOps : Ops :=
  { onMessage := Extracted.Checked.onMessage, onGroup := Extracted.Checked.onGroup, onEntry := Extracted.Checked.onEntry,
    onData := Extracted.Checked.onData, onField := Extracted.Checked.onField,
    sizeBytesChecked := Extracted.Checked.sizeBytesChecked }

theorem ops_tie : extractedOps = Visitor.ops := by
  unfold extractedOps Visitor.ops
  rw [onMessage_tie, onGroup_tie, onEntry_tie, onData_tie, onField_tie, sizeBytesChecked_tie]
end Tie

/-! ## skeleton around the hand-written member functions = the inlined model -/
namespace Factor
theorem vas_run (n : Nat) (s : St) :
    Visitor.validateAndSubtract n s = ((s.validate n).valid, s.validate n) := by
  by_cases h : s.size < n
  · simp [Visitor.validateAndSubtract, bind, load, store, St.validate, vas, h]
  · have h' : n ≤ s.size := by omega
    simp [Visitor.validateAndSubtract, bind, load, store, St.validate, vas, h, sizeSub, h']

theorem isValid_run (s : St) : Visitor.isValid s = (s.valid, s) := rfl
theorem getSize_run (s : St) : Visitor.getSize s = (s.size, s) := rfl
theorem setGbl_run (b : Nat) (s : St) : Visitor.setGroupBlockLength b s = (s.gbl, s.setGbl b) := rfl
theorem ctor_run (n : Nat) (s : St) :
    Visitor.ctor n s = (Self.this, { s with size := n, valid := true, gbl := 0 }) := rfl
theorem onField_run (v : View) (t : Tag) (s : St) : Visitor.onField v t s = (false, s) := rfl

theorem onData_run (p ls len : Nat) (t : Tag) (s : St) :
    Visitor.onData (Skel.dataView p ls len) t s =
      (if !(s.validate ls).valid then (true, s.validate ls)
       else (!(((s.validate ls).read .dataLength p ls).validate len).valid,
             ((s.validate ls).read .dataLength p ls).validate len)) := by
  simp only [Visitor.onData, bind, pure, Skel.dataView, vas_run]
  cases h : (s.validate ls).valid <;> simp [h, vas_run]

theorem onEntry_run (ch : St → St × Bool) (c : Cursor) (s : St) :
    Visitor.onEntry (Skel.entryView ch) c s =
      (if !(s.validate s.gbl).valid then (true, s.validate s.gbl)
       else
         (!(ch ((s.validate s.gbl).noteZero (s.gbl == 0 && (s.validate s.gbl).valid))).1.valid,
          (ch ((s.validate s.gbl).noteZero (s.gbl == 0 && (s.validate s.gbl).valid))).1)) := by
  simp only [Visitor.onEntry, bind, pure, load, vas_run, Skel.entryView, isValid_run]
  cases h : (s.validate s.gbl).valid <;> simp [h, vas_run]

section
variable (bo : ByteOrder) (buf : List Nat) (lim : Option Nat)

theorem onGroup_run (dim : Dim) (p : Nat) (loop : Nat → Nat → St → St) (c : Cursor) (t : Tag) (s : St) :
    Visitor.onGroup (Skel.groupView bo buf dim p loop) c t s =
      (if !(s.validate dim.size).valid then (true, s.validate dim.size)
       else
         let s2 := (s.validate dim.size).read .dimBlockLength (p + dim.blOff) dim.blSize
         let s5 := loop (rd bo buf (p + dim.blOff) dim.blSize) (rd bo buf (p + dim.numOff) dim.numSize)
           (((s2.setGbl (rd bo buf (p + dim.blOff) dim.blSize)).read .dimBlockLength (p + dim.blOff) dim.blSize).read
             .dimNumInGroup (p + dim.numOff) dim.numSize)
         (!(s5.setGbl s2.gbl).valid, s5.setGbl s2.gbl)) := by
  simp only [Visitor.onGroup, bind, pure, Skel.groupView, vas_run]
  cases h : (s.validate dim.size).valid <;> simp [h, vas_run, setGbl_run, isValid_run]

theorem onMessage_run (V : Ops) (m : CMsg) (c : Cursor) (t : Tag) (s : St) :
    (Visitor.onMessage (Skel.msgView V bo buf lim m) c t s).2 =
      (if !(s.validate m.hdrSize).valid then s.validate m.hdrSize
       else
         let s2 := ((s.validate m.hdrSize).read .hdrBlockLength m.blOff m.blSize).validate (rd bo buf m.blOff m.blSize)
         if !s2.valid then s2
         else (Skel.children V bo buf lim m.level m.hdrSize (rd bo buf m.blOff m.blSize)
                [⟨.hdrBlockLength, m.blOff, m.blSize, 0⟩] s2).1) := by
  cases h : (s.validate m.hdrSize).valid
  · simp [Visitor.onMessage, bind, pure, Skel.msgView, vas_run, h]
  · cases h2 : (((s.validate m.hdrSize).read .hdrBlockLength m.blOff m.blSize).validate (rd bo buf m.blOff m.blSize)).valid <;>
      simp [Visitor.onMessage, bind, pure, Skel.msgView, vas_run, h, h2]

/-! the skeleton around the hand-written member functions is the inlined model -/

theorem fields_hand (start wbl : Nat) (blk : List Access) (fs : List FieldA) (s : St) :
    Skel.fields Visitor.ops start wbl blk fs s = (visitFields start wbl blk fs s, false) := by
  induction fs generalizing s with
  | nil => rfl
  | cons f fs ih =>
    simp only [Skel.fields, visitFields, Skel.callback, Visitor.ops, onField_run, Bool.false_eq_true, if_false]
    exact ih _

theorem stop_aux (X : St) (A B : St × Bool) (h : A = B) :
    (if (!X.valid) = true then (X, !X.valid) else A) = (if (!X.valid) = true then (X, true) else B) := by
  cases X.valid <;> simp [h]

theorem stop_aux2 (X Y : St) (F G : St → St × Bool) (h : ∀ t, F t = G t) :
    (if (if (!X.valid) = true then (true, X) else (!Y.valid, Y)).1 = true
      then ((if (!X.valid) = true then (true, X) else (!Y.valid, Y)).2, (if (!X.valid) = true then (true, X) else (!Y.valid, Y)).1)
      else F (if (!X.valid) = true then (true, X) else (!Y.valid, Y)).2) =
    (if (!X.valid) = true then (X, true) else if (!Y.valid) = true then (Y, true) else G Y) := by
  cases X.valid <;> cases Y.valid <;> simp [h]

theorem datas_hand (start wbl : Nat) (blk : List Access) (first : Bool) (ds : List DataL) (s : St) :
    Skel.datas Visitor.ops bo buf start wbl blk first ds s = visitDatas bo buf start wbl blk first ds s := by
  induction ds generalizing first s with
  | nil => rfl
  | cons d ds ih =>
    simp only [Skel.datas, visitDatas, Skel.callback, Visitor.ops, onData_run]
    exact stop_aux2 _ _ _ _ (fun t => ih false t)

theorem entry_hand (ec : Bool) (ch : Nat → Nat → List Access → St → St × Bool) (bl : Nat) (s : St) :
    Skel.entry Visitor.ops ec ch bl s = onEntryWith ec ch bl s := by
  simp only [Skel.entry, onEntryWith, Skel.callback, Visitor.ops, onEntry_run]
  generalize (if ec = true then s.setPtr (s.ptr + bl) else s) = s0
  have hg : (s0.step.validate s0.step.gbl) = s0.step.validate s0.gbl := rfl
  have hg2 : s0.step.gbl = s0.gbl := rfl
  rw [hg, hg2]
  cases h : (s0.step.validate s0.gbl).valid
  · simp [h, St.noteZero]
  · simp [h]

theorem entry_hand' (ec : Bool) (ch : Nat → Nat → List Access → St → St × Bool) :
    Skel.entry Visitor.ops ec ch = onEntryWith ec ch := by
  funext bl s; exact entry_hand ec ch bl s

mutual
  theorem children_hand (l : CLevel) (start wbl : Nat) (blk : List Access) (s : St) :
      Skel.children Visitor.ops bo buf lim l start wbl blk s = visitChildren bo buf lim l start wbl blk s := by
    match l with
    | .mk bl fs gs ds =>
      simp only [Skel.children, visitChildren, fields_hand, Bool.false_eq_true, if_false, datas_hand]
      rw [groups_hand gs]
  theorem groups_hand (gs : List CGroup) (start wbl : Nat) (blk : List Access) (first : Bool) (s : St) :
      Skel.groups Visitor.ops bo buf lim gs start wbl blk first s = visitGroups bo buf lim gs start wbl blk first s := by
    match gs with
    | [] => simp only [Skel.groups, visitGroups]
    | g :: gs =>
      simp only [Skel.groups, visitGroups]
      simp only [group_hand g, groups_hand gs]
  theorem group_hand (g : CGroup) (p : Nat) (s : St) :
      Skel.group Visitor.ops bo buf lim g p s = onGroup bo buf lim g p s := by
    match g with
    | .mk dim l =>
      have hc : Skel.children Visitor.ops bo buf lim l = visitChildren bo buf lim l := by
        funext a b c d; exact children_hand l a b c d
      simp only [Skel.group, onGroup, hc, entry_hand']
      simp only [Skel.callback, Visitor.ops, onGroup_run]
      cases (s.step.validate dim.size).valid <;> simp
end


/-! `size` never grows: `size - visitor.get_size()` does not wrap -/

theorem validate_size_le (s : St) (k : Nat) : (s.validate k).size ≤ s.size := by
  simp only [St.validate, vas]
  split
  · exact Nat.le_refl _
  · exact Nat.sub_le _ _

theorem visitDatas_size_le (start wbl : Nat) (blk : List Access) (first : Bool) (ds : List DataL) (s : St) :
    (visitDatas bo buf start wbl blk first ds s).1.size ≤ s.size := by
  induction ds generalizing first s with
  | nil => exact Nat.le_refl _
  | cons d ds ih =>
    simp only [visitDatas]
    have h0 : (if first then (s.readAll blk).setPtr (start + wbl) else s).size = s.size := by cases first <;> rfl
    generalize (if first then (s.readAll blk).setPtr (start + wbl) else s) = s0 at h0 ⊢
    generalize rd bo buf s0.ptr d.lenSize = len
    generalize dataSizeBytes d.lenSize len = sb
    have h1 : ((((s0.read .dataLength s0.ptr d.lenSize).setPtr (s0.ptr + sb)).step).validate d.lenSize).size ≤ s.size :=
      Nat.le_trans (validate_size_le _ _) (Nat.le_of_eq h0)
    have h2 : ((((((s0.read .dataLength s0.ptr d.lenSize).setPtr (s0.ptr + sb)).step).validate d.lenSize).read .dataLength
        s0.ptr d.lenSize).validate len).size ≤ s.size :=
      Nat.le_trans (validate_size_le _ _) h1
    split
    · exact h1
    · split
      · exact h2
      · exact Nat.le_trans (ih false _) h2

theorem loopE_size_le (body : St → St × Bool) (hb : ∀ s, (body s).1.size ≤ s.size) :
    ∀ k s, (loopE lim body k s).size ≤ s.size := by
  intro k
  induction k with
  | zero => intro s; exact Nat.le_refl _
  | succ k ih =>
    intro s
    simp only [loopE]
    split
    · exact Nat.le_refl _
    · split
      · exact hb s
      · exact Nat.le_trans (ih _) (hb s)

theorem onEntryWith_size_le (ec : Bool) (ch : Nat → Nat → List Access → St → St × Bool)
    (hch : ∀ a b c s, (ch a b c s).1.size ≤ s.size) (bl : Nat) (s : St) :
    (onEntryWith ec ch bl s).1.size ≤ s.size := by
  simp only [onEntryWith]
  have h0 : (if ec then s.setPtr (s.ptr + bl) else s).size = s.size := by cases ec <;> rfl
  generalize (if ec then s.setPtr (s.ptr + bl) else s) = s0 at h0 ⊢
  have h1 : (s0.step.validate s0.gbl).size ≤ s.size := Nat.le_trans (validate_size_le _ _) (Nat.le_of_eq h0)
  generalize (s0.gbl == 0 && (s0.step.validate s0.gbl).valid) = c
  split
  · simpa using h1
  · exact Nat.le_trans (hch _ _ _ _) (by simpa using h1)

mutual
  theorem visitChildren_size_le (l : CLevel) (start wbl : Nat) (blk : List Access) (s : St) :
      (visitChildren bo buf lim l start wbl blk s).1.size ≤ s.size := by
    match l with
    | .mk bl fs gs ds =>
      simp only [visitChildren]
      have h1 : (visitFields start wbl blk fs s).size = s.size := (visitFields_core start wbl blk fs s).1
      have h2 := visitGroups_size_le gs start wbl blk true (visitFields start wbl blk fs s)
      split
      · exact Nat.le_trans h2 (Nat.le_of_eq h1)
      · exact Nat.le_trans (visitDatas_size_le bo buf _ _ _ _ _ _) (Nat.le_trans h2 (Nat.le_of_eq h1))
  theorem visitGroups_size_le (gs : List CGroup) (start wbl : Nat) (blk : List Access) (first : Bool) (s : St) :
      (visitGroups bo buf lim gs start wbl blk first s).1.size ≤ s.size := by
    match gs with
    | [] => simp only [visitGroups]; exact Nat.le_refl _
    | g :: gs =>
      simp only [visitGroups]
      have h0 : (if first then (s.readAll blk).setPtr (start + wbl) else s).size = s.size := by cases first <;> rfl
      generalize (if first then (s.readAll blk).setPtr (start + wbl) else s) = s0 at h0 ⊢
      have h1 := onGroup_size_le g s0.ptr (s0.setPtr (s0.ptr + g.dim.size))
      have h1' : (onGroup bo buf lim g s0.ptr (s0.setPtr (s0.ptr + g.dim.size))).1.size ≤ s.size :=
        Nat.le_trans h1 (Nat.le_of_eq h0)
      split
      · exact h1'
      · exact Nat.le_trans (visitGroups_size_le gs _ _ _ _ _) h1'
  theorem onGroup_size_le (g : CGroup) (p : Nat) (s : St) : (onGroup bo buf lim g p s).1.size ≤ s.size := by
    match g with
    | .mk dim l =>
      simp only [onGroup]
      have h1 : (s.step.validate dim.size).size ≤ s.size := validate_size_le _ _
      split
      · exact h1
      · have hL := loopE_size_le lim (onEntryWith l.emptyCtor (visitChildren bo buf lim l) (rd bo buf (p + dim.blOff) dim.blSize))
          (fun t => onEntryWith_size_le _ _ (fun a b c t' => visitChildren_size_le l a b c t') _ t)
          (rd bo buf (p + dim.numOff) dim.numSize)
          ((((s.step.validate dim.size).read .dimBlockLength (p + dim.blOff) dim.blSize).setGbl
              (rd bo buf (p + dim.blOff) dim.blSize)).read .dimBlockLength (p + dim.blOff) dim.blSize |>.read
              .dimNumInGroup (p + dim.numOff) dim.numSize)
        exact Nat.le_trans hL h1
end

theorem onMessage_size_le (m : CMsg) (s : St) : (Checked.onMessage bo buf lim m s).size ≤ s.size := by
  unfold Checked.onMessage
  have h1 : (s.step.validate m.hdrSize).size ≤ s.size := validate_size_le _ _
  simp only []
  split
  · exact h1
  · have h2 : (((s.step.validate m.hdrSize).read .hdrBlockLength m.blOff m.blSize).validate (rd bo buf m.blOff m.blSize)).size
        ≤ s.size := Nat.le_trans (validate_size_le _ _) h1
    split
    · exact h2
    · exact Nat.le_trans (visitChildren_size_le bo buf lim _ _ _ _ _) h2

theorem sizeSub_of_le {a b : Nat} (h : b ≤ a) : sizeSub a b = a - b := by simp [sizeSub, h]

/-! `size_bytes_checked` around the skeleton is `runMsg` / `runGroup` -/

theorem onMessage_hand (m : CMsg) (c : Cursor) (t : Tag) (s : St) :
    (Visitor.onMessage (Skel.msgView Visitor.ops bo buf lim m) c t s.step).2 = Checked.onMessage bo buf lim m s := by
  rw [onMessage_run]
  have hc : Skel.children Visitor.ops bo buf lim m.level = visitChildren bo buf lim m.level := by
    funext a b c d; exact children_hand bo buf lim m.level a b c d
  simp only [hc, Checked.onMessage]

theorem finish_hand (n : Nat) (s : St) (h : s.size ≤ n) :
    Skel.finish (if s.valid then (({ valid := true, size := sizeSub n s.size } : SbcResult), s)
                 else ({ valid := false, size := 0 }, s)) = Checked.finish n s := by
  cases hv : s.valid <;> simp [Skel.finish, Checked.finish, hv, sizeSub_of_le h]

theorem sbc_top (view : View) (hs : Nat) (vis : St → St) (n : Nat) (s : St)
    (ha : view.addressof = pure ⟨some 0⟩) (hh : view.getHeaderSize = pure hs)
    (hi : view.initCursor = fun t => ({}, t.setPtr hs)) (hv : view.visit = fun _ v t => (v, vis t)) :
    Visitor.sizeBytesChecked view n s =
      if n < hs then ({ valid := false, size := 0 }, s)
      else
        if (vis (({ s with size := n, valid := true, gbl := 0 } : St).setPtr hs)).valid then
          ({ valid := true, size := sizeSub n (vis (({ s with size := n, valid := true, gbl := 0 } : St).setPtr hs)).size },
           vis (({ s with size := n, valid := true, gbl := 0 } : St).setPtr hs))
        else ({ valid := false, size := 0 }, vis (({ s with size := n, valid := true, gbl := 0 } : St).setPtr hs)) := by
  by_cases h : n < hs
  · simp [Visitor.sizeBytesChecked, bind, pure, ha, hh, Ptr.toBool, h]
  · cases hv2 : (vis (({ s with size := n, valid := true, gbl := 0 } : St).setPtr hs)).valid <;>
      simp [Visitor.sizeBytesChecked, bind, pure, ha, hh, hi, hv, Ptr.toBool, h, ctor_run, isValid_run, getSize_run, hv2]

theorem blank_init (n hs : Nat) :
    ({ Skel.blank with size := n, valid := true, gbl := 0 } : St).setPtr hs = initial n hs := by
  simp [Skel.blank, St.setPtr, initial]

theorem runMsg_hand (m : CMsg) (n : Nat) : Skel.runMsg Visitor.ops bo buf lim m n = runMsg bo buf lim m n := by
  unfold Skel.runMsg runMsg
  have h := sbc_top (Skel.topMsgView Visitor.ops bo buf lim m) m.hdrSize
    (fun t => (Visitor.onMessage (Skel.msgView Visitor.ops bo buf lim m) {} {} t.step).2) n Skel.blank rfl rfl rfl rfl
  have hs : Visitor.ops.sizeBytesChecked = Visitor.sizeBytesChecked := rfl
  rw [hs, h]
  simp only [blank_init, onMessage_hand]
  split
  · rfl
  · exact finish_hand n _ (onMessage_size_le bo buf lim m (initial n m.hdrSize))

theorem runGroup_hand (g : CGroup) (n : Nat) : Skel.runGroup Visitor.ops bo buf lim g n = runGroup bo buf lim g n := by
  unfold Skel.runGroup runGroup
  have h := sbc_top (Skel.topGroupView Visitor.ops bo buf lim g) g.dim.size
    (fun t => (Skel.group Visitor.ops bo buf lim g 0 t).1) n Skel.blank rfl rfl rfl rfl
  have hs : Visitor.ops.sizeBytesChecked = Visitor.sizeBytesChecked := rfl
  rw [hs, h]
  simp only [blank_init, group_hand]
  split
  · rfl
  · exact finish_hand n _ (onGroup_size_le bo buf lim g 0 (initial n g.dim.size))

end
end Factor

namespace Tie
/-- `size_bytes_checked(message, n)`: generated code and cursor (hand model) around the EXTRACTED visitor -/
theorem runMsg_extracted (bo : ByteOrder) (buf : List Nat) (lim : Option Nat) (m : CMsg) (n : Nat) :
    Skel.runMsg extractedOps bo buf lim m n = runMsg bo buf lim m n := by
  rw [ops_tie]; exact Factor.runMsg_hand bo buf lim m n

/-- the group-view overload -/
theorem runGroup_extracted (bo : ByteOrder) (buf : List Nat) (lim : Option Nat) (g : CGroup) (n : Nat) :
    Skel.runGroup extractedOps bo buf lim g n = runGroup bo buf lim g n := by
  rw [ops_tie]; exact Factor.runGroup_hand bo buf lim g n
end Tie

end Sbepp.Checked
