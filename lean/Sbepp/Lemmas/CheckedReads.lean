/-
  Lemmas for C06, access log part (continues `Lemmas/Checked.lean`).

  * `runMsg_reads_strict`, `runGroup_reads_strict`: on buffers that hold a complete
    structure whose wire block lengths are at least the compiled ones (strict
    specification `sparse…`), for `n < 2^64`, every logged read stops at or below `n`; the
    exactness lemmas supply the positions, `sparse…_parse` turns a strict success
    into a success of the plain specification.
  * `runMsg_reads_slack`, `runGroup_reads_slack`: on EVERY buffer every logged read
    stops at or below `n + slack`, by the invariant "valid → remaining size +
    cursor position ≤ n" (which holds whether or not `size_t` arithmetic wraps:
    since /repo 3b08414 `on_data` validates `sizeof(length)` and `length`
    separately while the accessor advances the cursor by their `std::size_t` sum,
    so after a wrap the cursor is below the position the validated bytes account
    for; for `n < 2^64` equality holds, `Lemmas/Checked.lean`).
-/
import Sbepp.Lemmas.Checked

namespace Sbepp.Checked
open Sbepp Sbepp.Spec.CheckedSize

/-! ## reads stay below `n` on complete messages whose blocks cover the compiled fields -/

theorem iterO_mono (f g : Nat → Option Nat) (h : ∀ q r, f q = some r → g q = some r) :
    ∀ k q r, iterO f k q = some r → iterO g k q = some r
  | 0, q, r, hr => by simpa [iterO] using hr
  | k + 1, q, r, hr => by
    simp only [iterO] at hr ⊢
    cases hf : f q with
    | none => simp [hf] at hr
    | some q1 =>
      rw [hf] at hr
      simp only [Option.bind_some] at hr
      rw [h q q1 hf]
      simp only [Option.bind_some]
      exact iterO_mono f g h k q1 r hr

mutual
  theorem sparseL_parse (bo : ByteOrder) (buf : List Nat) (n : Nat) (l : Level) (pos wbl r : Nat)
      (h : sparseL bo buf n l pos wbl = some r) : parseL bo buf n l pos wbl = some r := by
    match l with
    | .mk bl lv gs ds =>
      simp only [sparseL, parseL] at h ⊢
      split at h
      · rename_i hc
        simp only [hc.2, if_true]
        cases hg : sparseGs bo buf n gs (pos + wbl) with
        | none => simp [hg] at h
        | some q1 =>
          rw [hg] at h
          rw [sparseGs_parse bo buf n gs (pos + wbl) q1 hg]
          exact h
      · simp at h
  theorem sparseGs_parse (bo : ByteOrder) (buf : List Nat) (n : Nat) (gs : List Group) (p r : Nat)
      (h : sparseGs bo buf n gs p = some r) : parseGs bo buf n gs p = some r := by
    match gs with
    | [] => simpa [sparseGs, parseGs] using h
    | g :: gs =>
      simp only [sparseGs, parseGs] at h ⊢
      cases hg : sparseG bo buf n g p with
      | none => simp [hg] at h
      | some q1 =>
        rw [hg] at h
        simp only [Option.bind_some] at h
        rw [sparseG_parse bo buf n g p q1 hg]
        simp only [Option.bind_some]
        exact sparseGs_parse bo buf n gs q1 r h
  theorem sparseG_parse (bo : ByteOrder) (buf : List Nat) (n : Nat) (g : Group) (p r : Nat)
      (h : sparseG bo buf n g p = some r) : parseG bo buf n g p = some r := by
    match g with
    | .mk dim l =>
      simp only [sparseG, parseG] at h ⊢
      split at h
      · rename_i hc
        simp only [hc, if_true]
        exact iterO_mono _ _ (fun q r hq => sparseL_parse bo buf n l q _ r hq) _ _ _ h
      · simp at h
end


/-- dimension members lie inside the dimension header -/
def WFDim (d : Dim) : Prop := d.blOff + d.blSize ≤ d.size ∧ d.numOff + d.numSize ≤ d.size

mutual
  /-- fields lie inside the compiled block, dimension members inside their header
      (guaranteed by the schema validator) -/
  def InsideL : CLevel → Prop
    | .mk bl fs gs _ => (∀ f ∈ fs, f.off + f.size ≤ bl) ∧ InsideGs gs
  def InsideGs : List CGroup → Prop
    | [] => True
    | g :: gs => InsideG g ∧ InsideGs gs
  def InsideG : CGroup → Prop
    | .mk dim l => WFDim dim ∧ InsideL l
end

/-- every read logged between `s` and `s'` stops at or below `n` -/
def NewReadsOK (n : Nat) (s s' : St) : Prop := ∀ a ∈ s'.reads, a ∈ s.reads ∨ a.stop ≤ n

theorem nro_refl (n : Nat) (s : St) : NewReadsOK n s s := fun _ ha => Or.inl ha

theorem nro_trans {n : Nat} {s s1 s2 : St} (h1 : NewReadsOK n s s1) (h2 : NewReadsOK n s1 s2) : NewReadsOK n s s2 := by
  intro a ha
  rcases h2 a ha with h | h
  · exact h1 a h
  · exact Or.inr h

theorem nro_same {n : Nat} {s s' : St} (h : s'.reads = s.reads) : NewReadsOK n s s' := by
  intro a ha; rw [h] at ha; exact Or.inl ha

theorem nro_read {n : Nat} (s : St) (k : AKind) (o z : Nat) (h : o + z ≤ n) : NewReadsOK n s (s.read k o z) := by
  intro a ha
  simp only [St.read, List.mem_cons] at ha
  rcases ha with h1 | h1
  · right; subst h1; exact h
  · left; exact h1

theorem nro_readIf {n : Nat} (s : St) (c : Bool) (k : AKind) (o z : Nat) (h : o + z ≤ n) :
    NewReadsOK n s (s.readIf c k o z) := by
  cases c
  · exact nro_refl n s
  · exact nro_read s k o z h

theorem nro_readAll {n : Nat} (s : St) (blk : List Access) (h : ∀ a ∈ blk, a.stop ≤ n) : NewReadsOK n s (s.readAll blk) := by
  intro a' ha
  simp only [St.readAll, List.mem_append, List.mem_map] at ha
  rcases ha with ⟨b, hb, hab⟩ | h1
  · right; subst hab; exact h b hb
  · left; exact h1

section
variable (bo : ByteOrder) (buf : List Nat) (n : Nat)

theorem visitFields_reads (start wbl : Nat) (blk : List Access) (hblk : ∀ a ∈ blk, a.stop ≤ n) (fs : List FieldA)
    (hin : ∀ f ∈ fs, start + f.off + f.size ≤ n) (s : St) : NewReadsOK n s (visitFields start wbl blk fs s) := by
  induction fs generalizing s with
  | nil => exact nro_refl n s
  | cons f fs ih =>
    have hf : start + f.off + f.size ≤ n := hin f (by simp)
    have hin' : ∀ g ∈ fs, start + g.off + g.size ≤ n := fun g hg => hin g (by simp [hg])
    have h1 := nro_readIf (n := n) s f.isValue .field (start + f.off) f.size hf
    cases fs with
    | nil =>
      simp only [visitFields]
      exact nro_trans (nro_trans h1 (nro_readAll _ blk hblk)) (nro_same rfl)
    | cons g gs =>
      have h4 := ih hin' (((s.readIf f.isValue .field (start + f.off) f.size).setPtr (start + f.off + f.size)).step)
      simp only [visitFields] at h4 ⊢
      exact nro_trans (nro_trans h1 (nro_same rfl)) h4

theorem visitDatas_reads (hN : n < 2 ^ 64) (start wbl : Nat) (blk : List Access) (hblk : ∀ a ∈ blk, a.stop ≤ n)
    (ds : List DataL) (first : Bool) (s : St) (p : Nat)
    (hv : s.valid = true) (hp : p = if first then start + wbl else s.ptr) (hs : s.size + p = n)
    (q' : Nat) (hsp : parseDs bo buf n ds p = some q') :
    NewReadsOK n s (visitDatas bo buf start wbl blk first ds s).1 := by
  induction ds generalizing first s p with
  | nil => exact nro_refl n s
  | cons d ds ih =>
    obtain ⟨s0, hs0, h0p, h0s, h0v, h0r⟩ :
        ∃ s0 : St, s0 = (if first then (s.readAll blk).setPtr (start + wbl) else s) ∧ s0.ptr = p ∧
          s0.size = s.size ∧ s0.valid = true ∧ NewReadsOK n s s0 := by
      refine ⟨_, rfl, ?_, ?_, ?_, ?_⟩
      · cases first <;> simp_all [St.readAll, St.setPtr]
      · cases first <;> simp_all [St.readAll, St.setPtr]
      · cases first <;> simp_all [St.readAll, St.setPtr]
      · cases first
        · exact nro_refl n s
        · exact nro_trans (nro_readAll s blk hblk) (nro_same rfl)
    simp only [visitDatas, ← hs0, h0p]
    simp only [parseDs] at hsp
    generalize rd bo buf p d.lenSize = len at hsp ⊢
    by_cases hfit : p + d.lenSize + len ≤ n
    · have hfit1 : p + d.lenSize ≤ n := by omega
      simp only [hfit, hfit1, if_true] at hsp
      have hsb := dataSizeBytes_fits d.lenSize len p n hN hfit
      rw [hsb]
      obtain ⟨s1, hs1, h1p, h1s, h1v, h1r⟩ :
          ∃ s1 : St, s1 = ((s0.read .dataLength p d.lenSize).setPtr (p + (d.lenSize + len))).step ∧
            s1.ptr = p + (d.lenSize + len) ∧ s1.size = s.size ∧ s1.valid = true ∧ NewReadsOK n s0 s1 := by
        refine ⟨_, rfl, ?_, ?_, ?_, ?_⟩
        · simp [St.read, St.setPtr, St.step]
        · simp [St.read, St.setPtr, St.step, h0s]
        · simp [St.read, St.setPtr, St.step, h0v]
        · exact nro_trans (nro_read s0 .dataLength p d.lenSize hfit1) (nro_same rfl)
      rw [← hs1]
      obtain ⟨hv2, hs2⟩ := validate_fits s1 d.lenSize p n h1v (by rw [h1s]; exact hs) hfit1
      obtain ⟨hv3, hs3⟩ := validate_fits ((s1.validate d.lenSize).read .dataLength p d.lenSize) len (p + d.lenSize) n
        (by simpa [St.read] using hv2) (by simpa [St.read] using hs2) hfit
      simp only [hv2, hv3, Bool.not_true, Bool.false_eq_true, if_false]
      have hrest := ih false _ (p + d.lenSize + len) hv3
        (by simp [St.validate, St.read, h1p]; omega) hs3 hsp
      refine nro_trans (nro_trans (nro_trans h0r h1r) ?_) hrest
      refine nro_trans (s1 := s1.validate d.lenSize) (nro_same rfl) ?_
      refine nro_trans (nro_read _ .dataLength p d.lenSize hfit1) ?_
      exact nro_same rfl
    · exfalso
      by_cases h1 : p + d.lenSize ≤ n <;> simp [h1, hfit] at hsp


theorem loopE_reads (body : St → St × Bool) (f g : Nat → Option Nat) (bl : Nat)
    (hfg : ∀ q r, f q = some r → g q = some r)
    (hbody : ∀ s q, s.valid = true → s.ptr = q → s.gbl = bl → s.size + q = n →
      Agree n s (body s).1 (g q) ∧ (∀ q', g q = some q' → (body s).1.ptr = q') ∧ (body s).2 = !(body s).1.valid)
    (hreads : ∀ s q r, s.valid = true → s.ptr = q → s.gbl = bl → s.size + q = n → f q = some r →
      NewReadsOK n s (body s).1) :
    ∀ k s q r, s.valid = true → s.ptr = q → s.gbl = bl → s.size + q = n → iterO f k q = some r →
      NewReadsOK n s (loopE none body k s) := by
  intro k
  induction k with
  | zero => intro s q r _ _ _ _ _; exact nro_refl n s
  | succ k ih =>
    intro s q r hv hp hg hs hr
    simp only [iterO] at hr
    cases hf : f q with
    | none => simp [hf] at hr
    | some q1 =>
      rw [hf] at hr
      simp only [Option.bind_some] at hr
      obtain ⟨ha, hptr, hstop⟩ := hbody s q hv hp hg hs
      rw [hfg q q1 hf] at ha
      obtain ⟨hv1, hs1, hg1⟩ := ha
      simp only [loopE, outOfFuel, Bool.false_eq_true, if_false, hstop, hv1, Bool.not_true]
      exact nro_trans (hreads s q q1 hv hp hg hs hf)
        (ih (body s).1 q1 r hv1 (hptr q1 (hfg q q1 hf)) (by rw [hg1, hg]) hs1 hr)

mutual
  theorem visitChildren_reads (hN : n < 2 ^ 64) (l : CLevel) (hi : InsideL l) (start wbl : Nat)
      (blk : List Access) (hblk : ∀ a ∈ blk, a.stop ≤ n) (s : St) (hv : s.valid = true)
      (hs : s.size + (start + wbl) = n) (hbl : l.blockLen ≤ wbl) (q' : Nat)
      (hsp : (sparseGs bo buf n (eraseGs l.groups) (start + wbl)).bind (parseDs bo buf n l.datas) = some q') :
      NewReadsOK n s (visitChildren bo buf none l start wbl blk s).1 := by
    match l, hi with
    | .mk bl fs gs ds, hi =>
      obtain ⟨hif, hig⟩ := hi
      simp only [CLevel.blockLen] at hbl
      simp only [CLevel.groups, CLevel.datas] at hsp
      obtain ⟨f1, f2, f3, f4⟩ := visitFields_core start wbl blk fs s
      have hF := visitFields_reads n start wbl blk hblk fs
        (fun f hf => by have := hif f hf; omega) s
      cases hpg : sparseGs bo buf n (eraseGs gs) (start + wbl) with
      | none => simp [hpg] at hsp
      | some q1 =>
        rw [hpg] at hsp
        simp only [Option.bind_some] at hsp
        have hpp := sparseGs_parse bo buf n (eraseGs gs) (start + wbl) q1 hpg
        have hG := visitGroups_exact bo buf n hN gs start wbl blk true (visitFields start wbl blk fs s) (start + wbl)
          (by rw [f2, hv]) (by simp) (by rw [f1]; exact hs)
        obtain ⟨ga, gp, gstop⟩ := hG
        rw [hpp] at ga
        obtain ⟨gv, gs1, gg⟩ := ga
        have gptr := gp q1 hpp
        have hGr := visitGroups_reads hN gs hig start wbl blk hblk true (visitFields start wbl blk fs s) (start + wbl)
          (by rw [f2, hv]) (by simp) (by rw [f1]; exact hs) q1 hpg
        simp only [visitChildren, gstop, gv, Bool.not_true, Bool.false_eq_true, if_false]
        have hD := visitDatas_reads bo buf n hN start wbl blk hblk ds gs.isEmpty
          (visitGroups bo buf none gs start wbl blk true (visitFields start wbl blk fs s)).1 q1 gv
          (by
            cases gs with
            | nil => simp [eraseGs, parseGs] at hpp; simp [hpp]
            | cons g gs' => simp at gptr; simp [gptr]) gs1 q' hsp
        exact nro_trans (nro_trans hF hGr) hD
  theorem visitGroups_reads (hN : n < 2 ^ 64) (gs : List CGroup) (hi : InsideGs gs)
      (start wbl : Nat) (blk : List Access) (hblk : ∀ a ∈ blk, a.stop ≤ n) (first : Bool) (s : St) (p : Nat)
      (hv : s.valid = true) (hp : p = if first then start + wbl else s.ptr) (hs : s.size + p = n)
      (q' : Nat) (hsp : sparseGs bo buf n (eraseGs gs) p = some q') :
      NewReadsOK n s (visitGroups bo buf none gs start wbl blk first s).1 := by
    match gs, hi with
    | [], _ => simp only [visitGroups]; exact nro_refl n s
    | g :: gs, hi =>
      obtain ⟨hig, higs⟩ := hi
      obtain ⟨s0, hs0, h0p, h0s, h0v, h0g, h0r⟩ :
          ∃ s0 : St, s0 = (if first then (s.readAll blk).setPtr (start + wbl) else s) ∧ s0.ptr = p ∧
            s0.size = s.size ∧ s0.valid = true ∧ s0.gbl = s.gbl ∧ NewReadsOK n s s0 := by
        refine ⟨_, rfl, ?_, ?_, ?_, ?_, ?_⟩
        · cases first <;> simp_all [St.readAll, St.setPtr]
        · cases first <;> simp_all [St.readAll, St.setPtr]
        · cases first <;> simp_all [St.readAll, St.setPtr]
        · cases first <;> simp_all [St.readAll, St.setPtr]
        · cases first
          · exact nro_refl n s
          · exact nro_trans (nro_readAll s blk hblk) (nro_same rfl)
      simp only [eraseGs, sparseGs] at hsp
      cases hpg : sparseG bo buf n g.erase p with
      | none => simp [hpg] at hsp
      | some q1 =>
        rw [hpg] at hsp
        simp only [Option.bind_some] at hsp
        have hpp := sparseG_parse bo buf n g.erase p q1 hpg
        have hG := onGroup_exact bo buf n hN g p (s0.setPtr (p + g.dim.size)) (by simp [St.setPtr, h0v])
          (by simp [St.setPtr]) (by simp [St.setPtr, h0s, hs])
        obtain ⟨ga, gp, gstop⟩ := hG
        rw [hpp] at ga
        obtain ⟨gv, gs1, gg⟩ := ga
        have hGr := onGroup_reads hN g hig p (s0.setPtr (p + g.dim.size)) (by simp [St.setPtr, h0v])
          (by simp [St.setPtr]) (by simp [St.setPtr, h0s, hs]) q1 hpg
        simp only [visitGroups, ← hs0, h0p, gstop, gv, Bool.not_true, Bool.false_eq_true, if_false]
        have hR := visitGroups_reads hN gs higs start wbl blk hblk false
          (onGroup bo buf none g p (s0.setPtr (p + g.dim.size))).1 q1 gv (by simp [gp q1 hpp]) gs1 q' hsp
        exact nro_trans (nro_trans (nro_trans h0r (nro_same rfl)) hGr) hR
  theorem onGroup_reads (hN : n < 2 ^ 64) (g : CGroup) (hi : InsideG g) (p : Nat) (s : St)
      (hv : s.valid = true) (hptr : s.ptr = p + g.dim.size) (hs : s.size + p = n)
      (q' : Nat) (hsp : sparseG bo buf n g.erase p = some q') :
      NewReadsOK n s (onGroup bo buf none g p s).1 := by
    match g, hi with
    | .mk dim l, hi =>
      obtain ⟨⟨hd1, hd2⟩, hil⟩ := hi
      simp only [CGroup.erase, sparseG] at hsp
      by_cases hfit : p + dim.size ≤ n
      · simp only [hfit, if_true] at hsp
        obtain ⟨hv1, hs1⟩ := validate_fits s.step dim.size p n (by simp [St.step, hv]) (by simp [St.step, hs]) hfit
        simp only [onGroup, hv1, Bool.not_true, Bool.false_eq_true, if_false]
        have hL := loopE_reads n (fun t => onEntry bo buf none l (rd bo buf (p + dim.blOff) dim.blSize) t)
          (fun q => sparseL bo buf n l.erase q (rd bo buf (p + dim.blOff) dim.blSize))
          (fun q => parseL bo buf n l.erase q (rd bo buf (p + dim.blOff) dim.blSize))
          (rd bo buf (p + dim.blOff) dim.blSize)
          (fun q r hq => sparseL_parse bo buf n l.erase q _ r hq)
          (fun t q tv tp tg ts => onEntry_exact bo buf n hN l _ t q tv tp tg ts)
          (fun t q r tv tp tg ts hq => onEntry_reads hN l hil _ t q tv tp tg ts r hq)
          (rd bo buf (p + dim.numOff) dim.numSize)
          ((((s.step.validate dim.size).read .dimBlockLength (p + dim.blOff) dim.blSize).setGbl
              (rd bo buf (p + dim.blOff) dim.blSize)).read .dimBlockLength (p + dim.blOff) dim.blSize |>.read
              .dimNumInGroup (p + dim.numOff) dim.numSize)
          (p + dim.size) q' (by simp [St.read, St.setGbl, hv1])
          (by simp [St.read, St.setGbl, St.step, hptr, CGroup.dim])
          (by simp [St.read, St.setGbl])
          (by simp only [St.read, St.setGbl]; exact hs1) hsp
        refine nro_trans ?_ (nro_trans hL (nro_same rfl))
        refine nro_trans (s1 := s.step.validate dim.size) (nro_same rfl) ?_
        refine nro_trans (nro_read _ .dimBlockLength (p + dim.blOff) dim.blSize (by omega)) ?_
        refine nro_trans (s1 := ((s.step.validate dim.size).read .dimBlockLength (p + dim.blOff) dim.blSize).setGbl
          (rd bo buf (p + dim.blOff) dim.blSize)) (nro_same rfl) ?_
        refine nro_trans (nro_read _ .dimBlockLength (p + dim.blOff) dim.blSize (by omega)) ?_
        exact nro_read _ .dimNumInGroup (p + dim.numOff) dim.numSize (by omega)
      · simp [hfit] at hsp
  theorem onEntry_reads (hN : n < 2 ^ 64) (l : CLevel) (hi : InsideL l) (bl : Nat) (s : St) (q : Nat)
      (hv : s.valid = true) (hptr : s.ptr = q) (hg : s.gbl = bl) (hs : s.size + q = n)
      (q' : Nat) (hsp : sparseL bo buf n l.erase q bl = some q') :
      NewReadsOK n s (onEntry bo buf none l bl s).1 := by
    match l, hi with
    | .mk cbl fs gs ds, hi =>
      obtain ⟨s0, hs0, h0s, h0v, h0g, h0r⟩ :
          ∃ s0 : St, s0 = (if (CLevel.mk cbl fs gs ds).emptyCtor then s.setPtr (s.ptr + bl) else s) ∧
            s0.size = s.size ∧ s0.valid = true ∧ s0.gbl = bl ∧ s0.reads = s.reads := by
        refine ⟨_, rfl, ?_, ?_, ?_, ?_⟩ <;> cases (CLevel.mk cbl fs gs ds).emptyCtor <;> simp_all [St.setPtr]
      simp only [CLevel.erase, sparseL] at hsp
      by_cases hfit : cbl ≤ bl ∧ q + bl ≤ n
      · simp only [hfit, and_self, if_true] at hsp
        simp only [onEntry, onEntryWith, ← hs0, h0g]
        generalize (bl == 0 && (s0.step.validate bl).valid) = c
        obtain ⟨hv1, hs1⟩ := validate_fits s0.step bl q n (by simp [St.step, h0v]) (by simp [St.step, h0s, hs]) hfit.2
        simp only [noteZero_valid, hv1, Bool.not_true, Bool.false_eq_true, if_false, hptr]
        have hC := visitChildren_reads hN (CLevel.mk cbl fs gs ds) hi q bl [] (by simp)
          ((s0.step.validate bl).noteZero c) (by simp [hv1]) (by simp; exact hs1) hfit.1 q' hsp
        refine nro_trans ?_ hC
        apply nro_same
        have : ((s0.step.validate bl).noteZero c).reads = s0.reads := by cases c <;> rfl
        rw [this, h0r]
      · simp [hfit] at hsp
end


theorem sparseL_erase (l : CLevel) (pos wbl : Nat) :
    sparseL bo buf n l.erase pos wbl =
      if l.blockLen ≤ wbl ∧ pos + wbl ≤ n then
        (sparseGs bo buf n (eraseGs l.groups) (pos + wbl)).bind (parseDs bo buf n l.datas) else none := by
  cases l with
  | mk bl fs gs ds =>
    simp only [CLevel.erase, sparseL, CLevel.groups, CLevel.datas, CLevel.blockLen]
    by_cases h : bl ≤ wbl ∧ pos + wbl ≤ n <;> simp [h]

theorem all_reads_of_nro {p : Nat} {s' : St} (h : NewReadsOK n (initial n p) s') : ∀ a ∈ s'.reads, a.stop ≤ n := by
  intro a ha
  rcases h a ha with h1 | h1
  · simp [initial] at h1
  · exact h1

theorem runMsg_reads_strict (hN : n < 2 ^ 64) (m : CMsg) (hi : InsideL m.level)
    (hh : m.blOff + m.blSize ≤ m.hdrSize) (sz : Nat)
    (hsp : sparseMsg bo buf n m.hdrSize m.blOff m.blSize m.level.erase = some sz) :
    ∀ a ∈ (runMsg bo buf none m n).reads, a.stop ≤ n := by
  unfold sparseMsg at hsp
  by_cases hle : m.hdrSize ≤ n
  · simp only [hle, if_true, sparseL_erase] at hsp
    by_cases hfit : m.level.blockLen ≤ rd bo buf m.blOff m.blSize ∧ m.hdrSize + rd bo buf m.blOff m.blSize ≤ n
    · simp only [hfit, and_self, if_true] at hsp
      have hh' : ¬ n < m.hdrSize := by omega
      unfold runMsg
      simp only [hh', if_false, finish]
      apply all_reads_of_nro n (p := m.hdrSize)
      obtain ⟨hv1, hs1⟩ := validate_fits (initial n m.hdrSize).step m.hdrSize 0 n (by simp [initial, St.step])
        (by simp [initial, St.step]) (by omega)
      simp only [Nat.zero_add] at hs1
      obtain ⟨hv2, hs2⟩ := validate_fits (((initial n m.hdrSize).step.validate m.hdrSize).read .hdrBlockLength m.blOff m.blSize)
        (rd bo buf m.blOff m.blSize) m.hdrSize n (by simpa [St.read] using hv1) (by simpa [St.read] using hs1) hfit.2
      unfold onMessage
      simp only [hv1, hv2, Bool.not_true, Bool.false_eq_true, if_false]
      have hC := visitChildren_reads bo buf n hN m.level hi m.hdrSize (rd bo buf m.blOff m.blSize)
        [⟨.hdrBlockLength, m.blOff, m.blSize, 0⟩] (by intro a ha; simp at ha; subst ha; simp [Access.stop]; omega)
        _ hv2 hs2 hfit.1 sz hsp
      refine nro_trans ?_ hC
      refine nro_trans (s1 := (initial n m.hdrSize).step.validate m.hdrSize) (nro_same rfl) ?_
      refine nro_trans (nro_read _ .hdrBlockLength m.blOff m.blSize (by omega)) ?_
      exact nro_same rfl
    · simp [hfit] at hsp
  · simp [hle] at hsp

theorem runGroup_reads_strict (hN : n < 2 ^ 64) (g : CGroup) (hi : InsideG g) (sz : Nat)
    (hsp : sparseG bo buf n g.erase 0 = some sz) :
    ∀ a ∈ (runGroup bo buf none g n).reads, a.stop ≤ n := by
  have hle : ¬ n < g.dim.size := by
    cases g with
    | mk dim l =>
      simp only [CGroup.erase, sparseG] at hsp
      by_cases h : dim.size ≤ n
      · simp only [CGroup.dim]; omega
      · simp [h] at hsp
  unfold runGroup
  simp only [hle, if_false, finish]
  apply all_reads_of_nro n (p := g.dim.size)
  exact onGroup_reads bo buf n hN g hi 0 (initial n g.dim.size) (by simp [initial]) (by simp [initial])
    (by simp [initial]) sz hsp
end

/-! ## every read stops within `slack` bytes of `n`, whatever the buffer holds -/

def maxStop : List FieldA → Nat
  | [] => 0
  | f :: fs => max (f.off + f.size) (maxStop fs)

def maxLen : List DataL → Nat
  | [] => 0
  | d :: ds => max d.lenSize (maxLen ds)

theorem le_maxStop {fs : List FieldA} {f : FieldA} (h : f ∈ fs) : f.off + f.size ≤ maxStop fs := by
  induction fs with
  | nil => simp at h
  | cons g gs ih =>
    simp only [List.mem_cons] at h
    simp only [maxStop]
    rcases h with h | h
    · subst h; omega
    · have := ih h; omega

theorem le_maxLen {ds : List DataL} {d : DataL} (h : d ∈ ds) : d.lenSize ≤ maxLen ds := by
  induction ds with
  | nil => simp at h
  | cons g gs ih =>
    simp only [List.mem_cons] at h
    simp only [maxLen]
    rcases h with h | h
    · subst h; omega
    · have := ih h; omega

mutual
  /-- the furthest a single accessor of the tree reaches beyond the position it
      is applied at: compiled field ends, length prefix widths, dimension members -/
  def CLevel.slack : CLevel → Nat
    | .mk _ fs gs ds => max (maxStop fs) (max (maxLen ds) (slackGs gs))
  def slackGs : List CGroup → Nat
    | [] => 0
    | g :: gs => max g.slack (slackGs gs)
  def CGroup.slack : CGroup → Nat
    | .mk dim l => max (max (dim.blOff + dim.blSize) (dim.numOff + dim.numSize)) l.slack
end

def CMsg.slack (m : CMsg) : Nat := max (m.blOff + m.blSize) m.level.slack

/-- if still valid, the visitor's remaining size and the position `pos` add up to at most `n`
    (exactly `n` unless the cursor advance over a `<data>` member wrapped in `std::size_t`, which
    leaves the cursor BELOW the position the validated bytes account for) -/
def Synced (n : Nat) (s s' : St) (pos : Nat) : Prop := s'.valid = true → s'.size + pos ≤ n ∧ s'.gbl = s.gbl

theorem validate_cases (s : St) (k : Nat) :
    ((s.validate k).valid = true → s.valid = true ∧ k ≤ s.size ∧ (s.validate k).size + k = s.size) := by
  unfold St.validate vas
  by_cases h : s.size < k
  · simp [h]
  · simp only [h, if_false]
    intro hv
    exact ⟨hv, by omega, by omega⟩

section
variable (bo : ByteOrder) (buf : List Nat) (n K : Nat)

theorem dataSizeBytes_le (w len : Nat) : dataSizeBytes w len ≤ w + len := Nat.mod_le _ _

theorem visitDatas_slack (start wbl : Nat) (blk : List Access) (hblk : ∀ a ∈ blk, a.stop ≤ n + K)
    (ds : List DataL) (hK : maxLen ds ≤ K) (first : Bool) (s : St) (p : Nat)
    (hv : s.valid = true) (hp : p = if first then start + wbl else s.ptr) (hs : s.size + p ≤ n) :
    Synced n s (visitDatas bo buf start wbl blk first ds s).1
      (if ds = [] then p else (visitDatas bo buf start wbl blk first ds s).1.ptr) ∧
    (visitDatas bo buf start wbl blk first ds s).2 = !(visitDatas bo buf start wbl blk first ds s).1.valid ∧
    NewReadsOK (n + K) s (visitDatas bo buf start wbl blk first ds s).1 := by
  induction ds generalizing first s p with
  | nil => simp [visitDatas, Synced, hv, hs]; exact nro_refl _ s
  | cons d ds ih =>
    have hd : d.lenSize ≤ K := by simp only [maxLen] at hK; omega
    have hK' : maxLen ds ≤ K := by simp only [maxLen] at hK; omega
    obtain ⟨s0, hs0, h0p, h0s, h0v, h0g, h0r⟩ :
        ∃ s0 : St, s0 = (if first then (s.readAll blk).setPtr (start + wbl) else s) ∧ s0.ptr = p ∧
          s0.size = s.size ∧ s0.valid = true ∧ s0.gbl = s.gbl ∧ NewReadsOK (n + K) s s0 := by
      refine ⟨_, rfl, ?_, ?_, ?_, ?_, ?_⟩
      · cases first <;> simp_all [St.readAll, St.setPtr]
      · cases first <;> simp_all [St.readAll, St.setPtr]
      · cases first <;> simp_all [St.readAll, St.setPtr]
      · cases first <;> simp_all [St.readAll, St.setPtr]
      · cases first
        · exact nro_refl _ s
        · exact nro_trans (nro_readAll s blk hblk) (nro_same rfl)
    simp only [visitDatas, ← hs0, h0p]
    generalize rd bo buf p d.lenSize = len
    have hsble := dataSizeBytes_le d.lenSize len
    generalize dataSizeBytes d.lenSize len = sb at hsble ⊢
    have hpn : p ≤ n := by omega
    -- the state the callback starts in
    obtain ⟨s1, hs1, h1p, h1s, h1v, h1g, h1r⟩ :
        ∃ s1 : St, s1 = ((s0.read .dataLength p d.lenSize).setPtr (p + sb)).step ∧
          s1.ptr = p + sb ∧ s1.size = s.size ∧ s1.valid = true ∧ s1.gbl = s.gbl ∧ NewReadsOK (n + K) s s1 := by
      refine ⟨_, rfl, ?_, ?_, ?_, ?_, ?_⟩
      · simp [St.read, St.setPtr, St.step]
      · simp [St.read, St.setPtr, St.step, h0s]
      · simp [St.read, St.setPtr, St.step, h0v]
      · simp [St.read, St.setPtr, St.step, h0g]
      · exact nro_trans h0r (nro_trans (nro_read s0 .dataLength p d.lenSize (by omega)) (nro_same rfl))
    rw [← hs1]
    have hr2 : NewReadsOK (n + K) s (s1.validate d.lenSize) := nro_trans h1r (nro_same rfl)
    cases hval2 : (s1.validate d.lenSize).valid with
    | false =>
      simp only [Bool.not_false, if_true]
      refine ⟨?_, by simp [hval2], hr2⟩
      intro h; rw [hval2] at h; exact absurd h (by simp)
    | true =>
      simp only [Bool.not_true, Bool.false_eq_true, if_false]
      obtain ⟨_, hk1, hk2⟩ := validate_cases _ d.lenSize hval2
      have hr3 : NewReadsOK (n + K) s (((s1.validate d.lenSize).read .dataLength p d.lenSize).validate len) :=
        nro_trans hr2 (nro_trans (nro_read _ .dataLength p d.lenSize (by omega)) (nro_same rfl))
      cases hval : (((s1.validate d.lenSize).read .dataLength p d.lenSize).validate len).valid with
      | false =>
        simp only [Bool.not_false, if_true]
        refine ⟨?_, by simp [hval], hr3⟩
        intro h; rw [hval] at h; exact absurd h (by simp)
      | true =>
        simp only [Bool.not_true, Bool.false_eq_true, if_false]
        obtain ⟨_, hk3, hk4⟩ := validate_cases _ len hval
        have hsz : (((s1.validate d.lenSize).read .dataLength p d.lenSize).validate len).size + (p + sb) ≤ n := by
          have : ((s1.validate d.lenSize).read .dataLength p d.lenSize).size = (s1.validate d.lenSize).size := rfl
          omega
        obtain ⟨i1, i2, i3⟩ := ih hK' false _ (p + sb) hval (by simp [St.validate, St.read, h1p]) hsz
        refine ⟨?_, i2, nro_trans hr3 i3⟩
        intro hfin
        obtain ⟨j1, j2⟩ := i1 hfin
        simp only [List.cons_ne_nil, if_false]
        refine ⟨?_, by rw [j2]; simp [St.validate, St.read, h1g]⟩
        by_cases hds : ds = []
        · subst hds
          simp only [visitDatas, if_true] at j1 ⊢
          simp only [St.validate, St.read] at j1 ⊢
          omega
        · simp only [hds, if_false] at j1; exact j1


theorem visitFields_slack (start wbl : Nat) (blk : List Access) (hblk : ∀ a ∈ blk, a.stop ≤ n + K) (fs : List FieldA)
    (hK : maxStop fs ≤ K) (hstart : start ≤ n) (s : St) : NewReadsOK (n + K) s (visitFields start wbl blk fs s) :=
  visitFields_reads (n + K) start wbl blk hblk fs (fun f hf => by have := le_maxStop hf; omega) s

theorem loopE_slack (body : St → St × Bool) (bl : Nat)
    (hbody : ∀ s q, s.valid = true → s.ptr = q → s.gbl = bl → s.size + q ≤ n →
      Synced n s (body s).1 (body s).1.ptr ∧ (body s).2 = !(body s).1.valid ∧ NewReadsOK (n + K) s (body s).1) :
    ∀ k s q, s.valid = true → s.ptr = q → s.gbl = bl → s.size + q ≤ n →
      Synced n s (loopE none body k s) (loopE none body k s).ptr ∧ NewReadsOK (n + K) s (loopE none body k s) := by
  intro k
  induction k with
  | zero =>
    intro s q _ hp _ hs
    simp only [loopE]
    exact ⟨fun _ => ⟨by rw [hp]; exact hs, rfl⟩, nro_refl _ s⟩
  | succ k ih =>
    intro s q hv hp hg hs
    obtain ⟨hsy, hstop, hr⟩ := hbody s q hv hp hg hs
    simp only [loopE, outOfFuel, Bool.false_eq_true, if_false, hstop]
    cases hval : (body s).1.valid with
    | false =>
      simp only [Bool.not_false, if_true]
      exact ⟨fun h => by rw [hval] at h; exact absurd h (by simp), hr⟩
    | true =>
      simp only [Bool.not_true, Bool.false_eq_true, if_false]
      obtain ⟨h1, h2⟩ := hsy hval
      obtain ⟨i1, i2⟩ := ih (body s).1 (body s).1.ptr hval rfl (by rw [h2, hg]) h1
      refine ⟨fun hfin => ?_, nro_trans hr i2⟩
      obtain ⟨j1, j2⟩ := i1 hfin
      exact ⟨j1, by rw [j2, h2]⟩

theorem slack_members {K bl : Nat} {fs : List FieldA} {gs : List CGroup} {ds : List DataL}
    (h : (CLevel.mk bl fs gs ds).slack ≤ K) : maxStop fs ≤ K ∧ maxLen ds ≤ K ∧ slackGs gs ≤ K := by
  simp only [CLevel.slack] at h
  omega

mutual
  theorem visitChildren_slack (l : CLevel) (hK : l.slack ≤ K) (start wbl : Nat) (blk : List Access)
      (hblk : ∀ a ∈ blk, a.stop ≤ n + K) (s : St) (hv : s.valid = true) (hs : s.size + (start + wbl) ≤ n) :
      ((l.emptyCtor = false ∨ s.ptr = start + wbl) →
        Synced n s (visitChildren bo buf none l start wbl blk s).1 (visitChildren bo buf none l start wbl blk s).1.ptr) ∧
      (visitChildren bo buf none l start wbl blk s).2 = !(visitChildren bo buf none l start wbl blk s).1.valid ∧
      NewReadsOK (n + K) s (visitChildren bo buf none l start wbl blk s).1 := by
    match l, hK with
    | .mk bl fs gs ds, hK =>
      obtain ⟨hKf, hKd, hKg⟩ := slack_members hK
      obtain ⟨f1, f2, f3, f4⟩ := visitFields_core start wbl blk fs s
      have hF := visitFields_slack n K start wbl blk hblk fs hKf (by omega) s
      obtain ⟨g1, g2, g3⟩ := visitGroups_slack gs hKg start wbl blk hblk true (visitFields start wbl blk fs s) (start + wbl)
        (by rw [f2, hv]) (by simp) (by rw [f1]; exact hs)
      simp only [visitChildren, CLevel.emptyCtor, g2]
      cases hgv : (visitGroups bo buf none gs start wbl blk true (visitFields start wbl blk fs s)).1.valid with
      | false =>
        simp only [Bool.not_false, if_true]
        exact ⟨fun _ h => by rw [hgv] at h; exact absurd h (by simp), by simp [g2, hgv], nro_trans hF g3⟩
      | true =>
        simp only [Bool.not_true, Bool.false_eq_true, if_false]
        obtain ⟨gs1, gg⟩ := g1 hgv
        obtain ⟨d1, d2, d3⟩ := visitDatas_slack bo buf n K start wbl blk hblk ds hKd gs.isEmpty
          (visitGroups bo buf none gs start wbl blk true (visitFields start wbl blk fs s)).1
          (if gs = [] then start + wbl else (visitGroups bo buf none gs start wbl blk true (visitFields start wbl blk fs s)).1.ptr)
          hgv (by cases gs <;> simp) gs1
        refine ⟨fun hpre hfin => ?_, d2, nro_trans (nro_trans hF g3) d3⟩
        obtain ⟨j1, j2⟩ := d1 hfin
        refine ⟨?_, by rw [j2, gg, f3]⟩
        by_cases hds : ds = []
        · subst hds
          simp only [visitDatas, if_true] at j1 ⊢
          by_cases hgs : gs = []
          · subst hgs
            simp only [visitGroups, if_true] at j1 ⊢
            rw [f4]
            by_cases hfs : fs = []
            · subst hfs; simp at hpre ⊢; omega
            · simp only [hfs, if_false]; exact j1
          · simp only [hgs, if_false] at j1; exact j1
        · simp only [hds, if_false] at j1; exact j1
  theorem visitGroups_slack (gs : List CGroup) (hK : slackGs gs ≤ K) (start wbl : Nat) (blk : List Access)
      (hblk : ∀ a ∈ blk, a.stop ≤ n + K) (first : Bool) (s : St) (p : Nat)
      (hv : s.valid = true) (hp : p = if first then start + wbl else s.ptr) (hs : s.size + p ≤ n) :
      Synced n s (visitGroups bo buf none gs start wbl blk first s).1
        (if gs = [] then p else (visitGroups bo buf none gs start wbl blk first s).1.ptr) ∧
      (visitGroups bo buf none gs start wbl blk first s).2 = !(visitGroups bo buf none gs start wbl blk first s).1.valid ∧
      NewReadsOK (n + K) s (visitGroups bo buf none gs start wbl blk first s).1 := by
    match gs, hK with
    | [], _ => simp [visitGroups, Synced, hv, hs]; exact nro_refl _ s
    | g :: gs, hK =>
      have hKg : g.slack ≤ K := by simp only [slackGs] at hK; omega
      have hKgs : slackGs gs ≤ K := by simp only [slackGs] at hK; omega
      obtain ⟨s0, hs0, h0p, h0s, h0v, h0g, h0r⟩ :
          ∃ s0 : St, s0 = (if first then (s.readAll blk).setPtr (start + wbl) else s) ∧ s0.ptr = p ∧
            s0.size = s.size ∧ s0.valid = true ∧ s0.gbl = s.gbl ∧ NewReadsOK (n + K) s s0 := by
        refine ⟨_, rfl, ?_, ?_, ?_, ?_, ?_⟩
        · cases first <;> simp_all [St.readAll, St.setPtr]
        · cases first <;> simp_all [St.readAll, St.setPtr]
        · cases first <;> simp_all [St.readAll, St.setPtr]
        · cases first <;> simp_all [St.readAll, St.setPtr]
        · cases first
          · exact nro_refl _ s
          · exact nro_trans (nro_readAll s blk hblk) (nro_same rfl)
      obtain ⟨o1, o2, o3⟩ := onGroup_slack g hKg p (s0.setPtr (p + g.dim.size)) (by simp [St.setPtr, h0v])
        (by simp [St.setPtr]) (by simp [St.setPtr, h0s, hs])
      simp only [visitGroups, ← hs0, h0p, o2]
      cases hgv : (onGroup bo buf none g p (s0.setPtr (p + g.dim.size))).1.valid with
      | false =>
        simp only [Bool.not_false, if_true]
        exact ⟨fun h => by rw [hgv] at h; exact absurd h (by simp), by simp [o2, hgv],
          nro_trans (nro_trans h0r (nro_same rfl)) o3⟩
      | true =>
        simp only [Bool.not_true, Bool.false_eq_true, if_false]
        obtain ⟨os1, og⟩ := o1 hgv
        obtain ⟨r1, r2, r3⟩ := visitGroups_slack gs hKgs start wbl blk hblk false
          (onGroup bo buf none g p (s0.setPtr (p + g.dim.size))).1
          (onGroup bo buf none g p (s0.setPtr (p + g.dim.size))).1.ptr hgv (by simp) os1
        refine ⟨fun hfin => ?_, r2, nro_trans (nro_trans (nro_trans h0r (nro_same rfl)) o3) r3⟩
        obtain ⟨j1, j2⟩ := r1 hfin
        simp only [List.cons_ne_nil, if_false]
        refine ⟨?_, by rw [j2, og]; simp [St.setPtr, h0g]⟩
        by_cases hgs : gs = []
        · subst hgs
          simp only [visitGroups, if_true] at j1 ⊢
          exact j1
        · simp only [hgs, if_false] at j1; exact j1
  theorem onGroup_slack (g : CGroup) (hK : g.slack ≤ K) (p : Nat) (s : St)
      (_hv : s.valid = true) (hptr : s.ptr = p + g.dim.size) (hs : s.size + p ≤ n) :
      Synced n s (onGroup bo buf none g p s).1 (onGroup bo buf none g p s).1.ptr ∧
      (onGroup bo buf none g p s).2 = !(onGroup bo buf none g p s).1.valid ∧
      NewReadsOK (n + K) s (onGroup bo buf none g p s).1 := by
    match g, hK with
    | .mk dim l, hK =>
      have hKd : dim.blOff + dim.blSize ≤ K ∧ dim.numOff + dim.numSize ≤ K ∧ l.slack ≤ K := by
        simp only [CGroup.slack] at hK; omega
      have hpn : p ≤ n := by omega
      simp only [onGroup]
      cases hval : (s.step.validate dim.size).valid with
      | false =>
        simp only [Bool.not_false, if_true]
        exact ⟨fun h => by rw [hval] at h; exact absurd h (by simp), by simp [hval], nro_same rfl⟩
      | true =>
        simp only [Bool.not_true, Bool.false_eq_true, if_false]
        obtain ⟨_, hk1, hk2⟩ := validate_cases _ dim.size hval
        have hs1 : (s.step.validate dim.size).size + (p + dim.size) ≤ n := by
          have : s.step.size = s.size := rfl
          omega
        have hL := loopE_slack n K (onEntryWith l.emptyCtor (visitChildren bo buf none l) (rd bo buf (p + dim.blOff) dim.blSize))
          (rd bo buf (p + dim.blOff) dim.blSize)
          (fun t q tv tp tg ts => onEntry_slack l hKd.2.2 _ t q tv tp tg ts)
          (rd bo buf (p + dim.numOff) dim.numSize)
          ((((s.step.validate dim.size).read .dimBlockLength (p + dim.blOff) dim.blSize).setGbl
              (rd bo buf (p + dim.blOff) dim.blSize)).read .dimBlockLength (p + dim.blOff) dim.blSize |>.read
              .dimNumInGroup (p + dim.numOff) dim.numSize)
          (p + dim.size) (by simp [St.read, St.setGbl, hval])
          (by simp [St.read, St.setGbl, St.step, hptr, CGroup.dim])
          (by simp [St.read, St.setGbl])
          (by simp only [St.read, St.setGbl]; exact hs1)
        obtain ⟨l1, l2⟩ := hL
        refine ⟨fun hfin => ?_, trivial, ?_⟩
        · obtain ⟨j1, _⟩ := l1 hfin
          exact ⟨j1, rfl⟩
        · refine nro_trans ?_ (nro_trans l2 (nro_same rfl))
          refine nro_trans (s1 := s.step.validate dim.size) (nro_same rfl) ?_
          refine nro_trans (nro_read _ .dimBlockLength (p + dim.blOff) dim.blSize (by omega)) ?_
          refine nro_trans (s1 := ((s.step.validate dim.size).read .dimBlockLength (p + dim.blOff) dim.blSize).setGbl
            (rd bo buf (p + dim.blOff) dim.blSize)) (nro_same rfl) ?_
          refine nro_trans (nro_read _ .dimBlockLength (p + dim.blOff) dim.blSize (by omega)) ?_
          exact nro_read _ .dimNumInGroup (p + dim.numOff) dim.numSize (by omega)
  theorem onEntry_slack (l : CLevel) (hK : l.slack ≤ K) (bl : Nat) (s : St) (q : Nat)
      (hv : s.valid = true) (hptr : s.ptr = q) (hg : s.gbl = bl) (hs : s.size + q ≤ n) :
      Synced n s (onEntry bo buf none l bl s).1 (onEntry bo buf none l bl s).1.ptr ∧
      (onEntry bo buf none l bl s).2 = !(onEntry bo buf none l bl s).1.valid ∧
      NewReadsOK (n + K) s (onEntry bo buf none l bl s).1 := by
    match l, hK with
    | .mk cbl fs gs ds, hK =>
      obtain ⟨s0, hs0, h0p, h0s, h0v, h0g, h0r⟩ :
          ∃ s0 : St, s0 = (if (CLevel.mk cbl fs gs ds).emptyCtor then s.setPtr (s.ptr + bl) else s) ∧
            ((CLevel.mk cbl fs gs ds).emptyCtor = false ∨ s0.ptr = q + bl) ∧
            s0.size = s.size ∧ s0.valid = true ∧ s0.gbl = bl ∧ s0.reads = s.reads := by
        refine ⟨_, rfl, ?_, ?_, ?_, ?_, ?_⟩ <;> cases (CLevel.mk cbl fs gs ds).emptyCtor <;> simp_all [St.setPtr]
      simp only [onEntry, onEntryWith, ← hs0, h0g]
      generalize (bl == 0 && (s0.step.validate bl).valid) = c
      have hnz : ((s0.step.validate bl).noteZero c).reads = s.reads := by
        have : ((s0.step.validate bl).noteZero c).reads = s0.reads := by cases c <;> rfl
        rw [this, h0r]
      cases hval : (s0.step.validate bl).valid with
      | false =>
        simp only [noteZero_valid, hval, Bool.not_false, if_true]
        exact ⟨fun h => by rw [noteZero_valid, hval] at h; exact absurd h (by simp), trivial, nro_same hnz⟩
      | true =>
        simp only [noteZero_valid, hval, Bool.not_true, Bool.false_eq_true, if_false, hptr]
        obtain ⟨_, hk1, hk2⟩ := validate_cases _ bl hval
        have hs1 : ((s0.step.validate bl).noteZero c).size + (q + bl) ≤ n := by
          have : s0.step.size = s0.size := rfl
          simp only [noteZero_size]; omega
        obtain ⟨c1, c2, c3⟩ := visitChildren_slack (CLevel.mk cbl fs gs ds) hK q bl [] (by simp)
          ((s0.step.validate bl).noteZero c) (by simp [hval]) hs1
        refine ⟨fun hfin => ?_, trivial, nro_trans (nro_same hnz) c3⟩
        have hpre : (CLevel.mk cbl fs gs ds).emptyCtor = false ∨ ((s0.step.validate bl).noteZero c).ptr = q + bl := by
          rcases h0p with h | h
          · left; exact h
          · right; simp [St.step, h]
        obtain ⟨j1, j2⟩ := c1 hpre hfin
        exact ⟨j1, by rw [j2]; simp [St.step, h0g, hg]⟩
end


theorem all_reads_of_nro' {N : Nat} {s s' : St} (h : NewReadsOK N s s') (h0 : s.reads = []) :
    ∀ a ∈ s'.reads, a.stop ≤ N := by
  intro a ha
  rcases h a ha with h1 | h1
  · rw [h0] at h1; simp at h1
  · exact h1

theorem runMsg_reads_slack (m : CMsg) :
    ∀ a ∈ (runMsg bo buf none m n).reads, a.stop ≤ n + m.slack := by
  unfold runMsg
  by_cases hh : n < m.hdrSize
  · simp [hh, rejected]
  · simp only [hh, if_false, finish]
    have hK1 : m.blOff + m.blSize ≤ m.slack := by unfold CMsg.slack; omega
    have hK2 : m.level.slack ≤ m.slack := by unfold CMsg.slack; omega
    apply all_reads_of_nro' (s := initial n m.hdrSize) _ rfl
    unfold onMessage
    simp only []
    cases hv1 : ((initial n m.hdrSize).step.validate m.hdrSize).valid with
    | false => simp only [Bool.not_false, if_true]; exact nro_same rfl
    | true =>
      simp only [Bool.not_true, Bool.false_eq_true, if_false]
      obtain ⟨_, hk1, hk2⟩ := validate_cases _ m.hdrSize hv1
      have hs1 : ((initial n m.hdrSize).step.validate m.hdrSize).size + m.hdrSize = n := by
        have : (initial n m.hdrSize).step.size = n := rfl
        omega
      have hr1 : NewReadsOK (n + m.slack) (initial n m.hdrSize)
          ((((initial n m.hdrSize).step.validate m.hdrSize).read .hdrBlockLength m.blOff m.blSize).validate
            (rd bo buf m.blOff m.blSize)) := by
        refine nro_trans (s1 := (initial n m.hdrSize).step.validate m.hdrSize) (nro_same rfl) ?_
        refine nro_trans (nro_read _ .hdrBlockLength m.blOff m.blSize (by omega)) ?_
        exact nro_same rfl
      cases hv2 : ((((initial n m.hdrSize).step.validate m.hdrSize).read .hdrBlockLength m.blOff m.blSize).validate
            (rd bo buf m.blOff m.blSize)).valid with
      | false => simp only [Bool.not_false, if_true]; exact hr1
      | true =>
        simp only [Bool.not_true, Bool.false_eq_true, if_false]
        obtain ⟨_, hk3, hk4⟩ := validate_cases _ (rd bo buf m.blOff m.blSize) hv2
        have hs2 : ((((initial n m.hdrSize).step.validate m.hdrSize).read .hdrBlockLength m.blOff m.blSize).validate
            (rd bo buf m.blOff m.blSize)).size + (m.hdrSize + rd bo buf m.blOff m.blSize) = n := by
          have : (((initial n m.hdrSize).step.validate m.hdrSize).read .hdrBlockLength m.blOff m.blSize).size
            = ((initial n m.hdrSize).step.validate m.hdrSize).size := rfl
          omega
        obtain ⟨_, _, c3⟩ := visitChildren_slack bo buf n m.slack m.level hK2 m.hdrSize (rd bo buf m.blOff m.blSize)
          [⟨.hdrBlockLength, m.blOff, m.blSize, 0⟩] (by intro a ha; simp at ha; subst ha; simp [Access.stop]; omega)
          _ hv2 (Nat.le_of_eq hs2)
        exact nro_trans hr1 c3

theorem runGroup_reads_slack (g : CGroup) :
    ∀ a ∈ (runGroup bo buf none g n).reads, a.stop ≤ n + g.slack := by
  unfold runGroup
  by_cases hh : n < g.dim.size
  · simp [hh, rejected]
  · simp only [hh, if_false, finish]
    apply all_reads_of_nro' (s := initial n g.dim.size) _ rfl
    exact (onGroup_slack bo buf n g.slack g (Nat.le_refl _) 0 (initial n g.dim.size) (by simp [initial])
      (by simp [initial]) (by simp [initial])).2.2
end

end Sbepp.Checked
