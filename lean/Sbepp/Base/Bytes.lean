/-
  Bytes, byte order and partial images.

  A buffer is a `List Nat` whose elements are bytes (`< 256`).  `putLE/putBE w v`
  is the `w`-byte object representation of `v` in little/big-endian order;
  `getLE/getBE` read it back.  An *image* is a `List (Option Nat)`: `some b`
  where the byte is defined, `none` where the schema leaves a gap.
-/
namespace Sbepp

/-- little-endian bytes of `v`, exactly `w` of them -/
def putLE : Nat → Nat → List Nat
  | 0, _ => []
  | w + 1, v => (v % 256) :: putLE w (v / 256)

def getLE : List Nat → Nat
  | [] => 0
  | b :: bs => b + 256 * getLE bs

def putBE (w v : Nat) : List Nat := (putLE w v).reverse
def getBE (bs : List Nat) : Nat := getLE bs.reverse

inductive ByteOrder | little | big
  deriving DecidableEq, Repr, Inhabited

def put (bo : ByteOrder) (w v : Nat) : List Nat :=
  match bo with
  | .little => putLE w v
  | .big => putBE w v

def get (bo : ByteOrder) (bs : List Nat) : Nat :=
  match bo with
  | .little => getLE bs
  | .big => getBE bs

def IsBytes (bs : List Nat) : Prop := ∀ b ∈ bs, b < 256

@[simp] theorem putLE_length (w v : Nat) : (putLE w v).length = w := by
  induction w generalizing v with
  | zero => rfl
  | succ w ih => simp [putLE, ih]

@[simp] theorem putBE_length (w v : Nat) : (putBE w v).length = w := by simp [putBE]

@[simp] theorem put_length (bo : ByteOrder) (w v : Nat) : (put bo w v).length = w := by
  cases bo <;> simp [put]

theorem getLE_putLE (w v : Nat) (h : v < 256 ^ w) : getLE (putLE w v) = v := by
  induction w generalizing v with
  | zero => simp [putLE, getLE]; simp at h; omega
  | succ w ih =>
    simp only [putLE, getLE]
    have : v / 256 < 256 ^ w := by
      rw [Nat.pow_succ] at h
      exact Nat.div_lt_of_lt_mul (by rw [Nat.mul_comm]; exact h)
    rw [ih _ this]; omega

theorem get_put (bo : ByteOrder) (w v : Nat) (h : v < 256 ^ w) : get bo (put bo w v) = v := by
  cases bo
  · exact getLE_putLE w v h
  · simp [get, put, getBE, putBE, getLE_putLE w v h]

theorem putLE_isBytes (w v : Nat) : IsBytes (putLE w v) := by
  induction w generalizing v with
  | zero => intro b hb; simp [putLE] at hb
  | succ w ih =>
    intro b hb
    simp only [putLE, List.mem_cons] at hb
    rcases hb with h | h
    · omega
    · exact ih _ b h

theorem put_isBytes (bo : ByteOrder) (w v : Nat) : IsBytes (put bo w v) := by
  cases bo
  · exact putLE_isBytes w v
  · intro b hb; simp only [put, putBE, List.mem_reverse] at hb; exact putLE_isBytes w v b hb

theorem putLE_getLE (bs : List Nat) (h : IsBytes bs) : putLE bs.length (getLE bs) = bs := by
  induction bs with
  | nil => rfl
  | cons b bs ih =>
    have hb : b < 256 := h b (by simp)
    have hbs : IsBytes bs := fun x hx => h x (by simp [hx])
    simp only [List.length_cons, putLE, getLE]
    have h1 : (b + 256 * getLE bs) % 256 = b := by omega
    have h2 : (b + 256 * getLE bs) / 256 = getLE bs := by omega
    rw [h1, h2, ih hbs]

theorem put_get (bo : ByteOrder) (bs : List Nat) (h : IsBytes bs) : put bo bs.length (get bo bs) = bs := by
  cases bo
  · exact putLE_getLE bs h
  · have hr : IsBytes bs.reverse := fun x hx => h x (by simpa using hx)
    have := putLE_getLE bs.reverse hr
    simp only [List.length_reverse] at this
    simp [put, get, putBE, getBE, this]

theorem getLE_lt (bs : List Nat) (h : IsBytes bs) : getLE bs < 256 ^ bs.length := by
  induction bs with
  | nil => simp [getLE]
  | cons b bs ih =>
    have hb : b < 256 := h b (by simp)
    have hbs : IsBytes bs := fun x hx => h x (by simp [hx])
    have := ih hbs
    simp only [getLE, List.length_cons, Nat.pow_succ]
    omega

/-! ### buffers: slices and writes -/

/-- `n` bytes of `buf` starting at `pos` -/
def slice (buf : List Nat) (pos n : Nat) : List Nat := (buf.drop pos).take n

/-- overwrite `bs.length` bytes of `buf` at `pos` (the buffer keeps its length;
    bytes that would fall beyond the end are dropped) -/
def writeAt (buf : List Nat) (pos : Nat) (bs : List Nat) : List Nat :=
  buf.take pos ++ (bs.take (buf.length - pos)) ++ buf.drop (pos + bs.length)

theorem slice_append_mid (pre mid post : List Nat) :
    slice (pre ++ mid ++ post) pre.length mid.length = mid := by
  simp [slice, List.append_assoc]

theorem writeAt_append_mid (pre mid post bs : List Nat) (h : bs.length = mid.length) :
    writeAt (pre ++ mid ++ post) pre.length bs = pre ++ bs ++ post := by
  unfold writeAt
  have h1 : (pre ++ mid ++ post).take pre.length = pre := by simp [List.append_assoc]
  have h2 : (pre ++ mid ++ post).length - pre.length = mid.length + post.length := by
    simp [List.length_append]
  have h3 : (pre ++ mid ++ post).drop (pre.length + bs.length) = post := by
    rw [h, List.append_assoc, ← List.drop_drop]
    simp
  rw [h1, h2, h3, List.take_of_length_le (by omega)]

@[simp] theorem writeAt_length (buf : List Nat) (pos : Nat) (bs : List Nat) (h : pos + bs.length ≤ buf.length) :
    (writeAt buf pos bs).length = buf.length := by
  unfold writeAt
  simp [List.length_append, List.length_take, List.length_drop]
  omega

/-! ### partial images -/

abbrev Image := List (Option Nat)

/-- `buf` agrees with `img` placed at `pos`: every defined byte of the image is
    in the buffer -/
def Agrees (buf : List Nat) (pos : Nat) (img : Image) : Prop :=
  ∀ i b, img[i]? = some (some b) → buf[pos + i]? = some b

/-- the fully defined image of a byte string -/
def Image.ofBytes (bs : List Nat) : Image := bs.map some

/-- a gap of `n` undefined bytes -/
def Image.gap (n : Nat) : Image := List.replicate n none

/-- overlay: write the defined bytes of `img` into `buf` at `pos`, keep the rest -/
def overlay (buf : List Nat) (pos : Nat) (img : Image) : List Nat :=
  buf.mapIdx (fun i b =>
    if pos ≤ i then
      match img[i - pos]? with
      | some (some x) => x
      | _ => b
    else b)

end Sbepp
