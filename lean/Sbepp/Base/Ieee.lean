/-
  Primitive kinds of SBE and IEEE-754 binary32/binary64 on bit patterns.

  A primitive value is its object representation, a `Nat` (DESIGN §4.3).  The
  model never uses Lean `Float`: a floating-point value is its bit pattern,
  `Ieee.classify` maps it to `nan` or to `num key` where `key : Int` is an
  order-isomorphic key (sign-magnitude → integer; `+0` and `−0` both `0`;
  `±inf` at the ends).  The comparison functions have the C++ (IEEE)
  semantics: every comparison involving a NaN is false except `!=`.

  Core Lean only.  That the host's `float`/`double` comparisons agree with
  these definitions is validated by Layer R (harness/c16_opt.cpp) and listed
  in the trusted base.
-/
namespace Sbepp

/-- the 11 primitive types of SBE -/
inductive Prim
  | char | int8 | int16 | int32 | int64
  | uint8 | uint16 | uint32 | uint64
  | float | double
  deriving DecidableEq, Repr, Inhabited

namespace Prim

def all : List Prim :=
  [.char, .int8, .int16, .int32, .int64, .uint8, .uint16, .uint32, .uint64, .float, .double]

/-- SBE name (also the key of both default tables) -/
def name : Prim → String
  | .char => "char" | .int8 => "int8" | .int16 => "int16" | .int32 => "int32" | .int64 => "int64"
  | .uint8 => "uint8" | .uint16 => "uint16" | .uint32 => "uint32" | .uint64 => "uint64"
  | .float => "float" | .double => "double"

def ofName? (s : String) : Option Prim :=
  all.find? (fun p => p.name == s)

/-- width of the object representation in bits -/
def bits : Prim → Nat
  | .char | .int8 | .uint8 => 8
  | .int16 | .uint16 => 16
  | .int32 | .uint32 | .float => 32
  | .int64 | .uint64 | .double => 64

def isFloat : Prim → Bool
  | .float | .double => true
  | _ => false

/-- signed integer types.  Plain `char` is signed on the verified platform
    (x86-64 SysV); Layer R checks that assumption on every run. -/
def isSigned : Prim → Bool
  | .char | .int8 | .int16 | .int32 | .int64 => true
  | _ => false

theorem mem_all (p : Prim) : p ∈ all := by cases p <;> decide

end Prim

/-- the six relational operators -/
inductive Rel
  | eq | ne | lt | le | gt | ge
  deriving DecidableEq, Repr, Inhabited

def Rel.all : List Rel := [.eq, .ne, .lt, .le, .gt, .ge]

/-- syntax of the C++ constant expressions that occur as min/max/null
    literals in sbepp.hpp and in sbeppc's output: integer literals, unary
    minus, `+`/`-`, and `[::]std::numeric_limits<T>::f()`.  Produced both by
    the Lean parser (`Spec.parseLit`) and, as the "parsed form" of the
    extracted tables, by /verif/extract/tables.py. -/
inductive LitExpr
  /-- integer literal: value, written in hex?, has `u`/`U` suffix?, has `l`/`L` suffix? -/
  | int (v : Nat) (hex : Bool) (u : Bool) (l : Bool)
  | neg (e : LitExpr)
  | add (a b : LitExpr)
  | sub (a b : LitExpr)
  /-- `std::numeric_limits<ty>::fn()`; `ty` with blanks removed, e.g. `std::int8_t` -/
  | limit (ty : String) (fn : String)
  deriving DecidableEq, Repr, Inhabited

/-- `<`, `<=`, `>`, `>=` -/
def Rel.isOrdering : Rel → Bool
  | .eq | .ne => false
  | _ => true

namespace Ieee

/-- an IEEE-754 binary interchange format: exponent and trailing-significand widths -/
structure Fmt where
  ebits : Nat
  mbits : Nat
  deriving DecidableEq, Repr

def binary32 : Fmt := ⟨8, 23⟩
def binary64 : Fmt := ⟨11, 52⟩

/-- comparison class of a value: NaN, or a number with an order-isomorphic integer key -/
inductive Class
  | nan
  | num (key : Int)
  deriving DecidableEq, Repr, Inhabited

/-- exponent and significand fields taken together (everything but the sign) -/
def magnitude (f : Fmt) (bits : Nat) : Nat := bits % 2 ^ (f.ebits + f.mbits)
def signBit (f : Fmt) (bits : Nat) : Nat := bits / 2 ^ (f.ebits + f.mbits) % 2
def expField (f : Fmt) (bits : Nat) : Nat := magnitude f bits / 2 ^ f.mbits
def fracField (f : Fmt) (bits : Nat) : Nat := magnitude f bits % 2 ^ f.mbits

/-- NaN: exponent all ones, non-zero fraction (quiet and signalling alike) -/
def isNaN (f : Fmt) (bits : Nat) : Bool :=
  expField f bits == 2 ^ f.ebits - 1 && fracField f bits != 0

/-- sign-magnitude → integer key.  For non-NaN patterns the magnitude field
    read as an integer is monotone in the represented value (`inf` is the
    largest), so `±magnitude` orders exactly like the values; `+0`/`−0` ↦ `0`. -/
def classify (f : Fmt) (bits : Nat) : Class :=
  if isNaN f bits then .nan
  else .num (if signBit f bits = 1 then -(magnitude f bits : Int) else (magnitude f bits : Int))

/-! C++ built-in comparisons on arithmetic values seen through `Class` -/

def feq : Class → Class → Bool
  | .num a, .num b => a == b
  | _, _ => false

def fne (a b : Class) : Bool := !feq a b

def flt : Class → Class → Bool
  | .num a, .num b => decide (a < b)
  | _, _ => false

def fle : Class → Class → Bool
  | .num a, .num b => decide (a ≤ b)
  | _, _ => false

def fgt (a b : Class) : Bool := flt b a
def fge (a b : Class) : Bool := fle b a

def frel : Rel → Class → Class → Bool
  | .eq => feq | .ne => fne | .lt => flt | .le => fle | .gt => fgt | .ge => fge

/-- result of the built-in `<=>` on arithmetic operands (`std::partial_ordering`
    for floating-point operands; for integers `unordered` never occurs and the
    type is `std::strong_ordering`) -/
inductive Ord3
  | less | equivalent | greater | unordered
  deriving DecidableEq, Repr, Inhabited

def fcmp3 : Class → Class → Ord3
  | .num a, .num b => if a < b then .less else if a = b then .equivalent else .greater
  | _, _ => .unordered

/-- `ord < 0`, `ord <= 0`, `ord > 0`, `ord >= 0` as defined for the comparison
    category types in [cmp.partialord]: all false for `unordered` -/
def Ord3.lt0 : Ord3 → Bool | .less => true | _ => false
def Ord3.le0 : Ord3 → Bool | .less | .equivalent => true | _ => false
def Ord3.gt0 : Ord3 → Bool | .greater => true | _ => false
def Ord3.ge0 : Ord3 → Bool | .greater | .equivalent => true | _ => false

def Ord3.test : Rel → Ord3 → Bool
  | .lt => Ord3.lt0 | .le => Ord3.le0 | .gt => Ord3.gt0 | .ge => Ord3.ge0
  | .eq => fun o => o == .equivalent
  | .ne => fun o => o != .equivalent

end Ieee

namespace Prim

def fmt? : Prim → Option Ieee.Fmt
  | .float => some Ieee.binary32
  | .double => some Ieee.binary64
  | _ => none

/-- numeric value of an integer object representation (two's complement for
    the signed types); patterns wider than the type are reduced first -/
def toInt (p : Prim) (v : Nat) : Int :=
  let r := v % 2 ^ p.bits
  if p.isSigned && decide (2 ^ (p.bits - 1) ≤ r) then (r : Int) - (2 ^ p.bits : Nat) else (r : Int)

/-- the value of an object of primitive type `p` with representation `v`, as
    seen by the built-in comparison operators: integers are numbers (never
    NaN), floating-point patterns are classified -/
def load (p : Prim) (v : Nat) : Ieee.Class :=
  match p.fmt? with
  | some f => Ieee.classify f v
  | none => .num (p.toInt v)

end Prim
end Sbepp
