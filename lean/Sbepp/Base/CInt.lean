/-
  C++ integer semantics (LP64, 32-bit int, two's complement) used by the
  extracted arithmetic kernels.

  A value is a type tag plus its object representation read as an unsigned
  number (`bits < 2^width`).  Signed values are two's complement.  Every
  operation returns `none` where the C++ standard says the behaviour is
  undefined (signed overflow, bad shift counts, division by zero).

  `ptr` is a pointer into (or around) one buffer, represented as a signed
  64-bit byte offset from the start of the buffer.  Pointer arithmetic adds the
  *mathematical* value of the integer operand (no conversion), as the standard
  specifies; leaving the 64-bit range is `none`.
-/
namespace Sbepp

inductive CTy
  | bool | i8 | u8 | i16 | u16 | i32 | u32 | i64 | u64 | ptr
  deriving DecidableEq, Repr, Inhabited

namespace CTy

def bits : CTy → Nat
  | .bool => 1
  | .i8 | .u8 => 8
  | .i16 | .u16 => 16
  | .i32 | .u32 => 32
  | .i64 | .u64 | .ptr => 64

def signed : CTy → Bool
  | .i8 | .i16 | .i32 | .i64 | .ptr => true
  | _ => false

/-- integer conversion rank (bool < char < short < int < long) -/
def rank : CTy → Nat
  | .bool => 0
  | .i8 | .u8 => 1
  | .i16 | .u16 => 2
  | .i32 | .u32 => 3
  | .i64 | .u64 | .ptr => 4

def isPtr : CTy → Bool
  | .ptr => true
  | _ => false

/-- integral promotion: everything of rank below `int` becomes `int`
    (all values of bool/char/short types fit in a 32-bit int). -/
def promote (t : CTy) : CTy :=
  if t.rank < 3 then .i32 else t

def toUnsigned : CTy → CTy
  | .i8 => .u8 | .i16 => .u16 | .i32 => .u32 | .i64 => .u64
  | t => t

def toSigned : CTy → CTy
  | .u8 => .i8 | .u16 => .i16 | .u32 => .i32 | .u64 => .i64
  | t => t

/-- usual arithmetic conversions on two *promoted* integer types -/
def common (a b : CTy) : CTy :=
  if a = b then a
  else if a.signed = b.signed then (if a.rank < b.rank then b else a)
  else
    let u := if a.signed then b else a
    let s := if a.signed then a else b
    if s.rank ≤ u.rank then u
    else /- signed type has greater rank and (LP64) can represent all values of u -/ s

def name : CTy → String
  | .bool => "bool" | .i8 => "i8" | .u8 => "u8" | .i16 => "i16" | .u16 => "u16"
  | .i32 => "i32" | .u32 => "u32" | .i64 => "i64" | .u64 => "u64" | .ptr => "ptr"

def ofName? : String → Option CTy
  | "bool" => some .bool | "i8" => some .i8 | "u8" => some .u8
  | "i16" => some .i16 | "u16" => some .u16 | "i32" => some .i32
  | "u32" => some .u32 | "i64" => some .i64 | "u64" => some .u64
  | "ptr" => some .ptr | _ => none

end CTy

structure CVal where
  ty : CTy
  bits : Nat
  deriving DecidableEq, Repr, Inhabited

namespace CVal

/-- numeric value (two's complement for signed types) -/
def toInt (v : CVal) : Int :=
  if v.ty.signed && decide (2 ^ (v.ty.bits - 1) ≤ v.bits) then
    (v.bits : Int) - (2 ^ v.ty.bits : Nat)
  else (v.bits : Int)

/-- value of type `t` with numeric value `i` reduced modulo 2^width (the
    conversion rule for unsigned targets; for signed targets this is what every
    supported implementation does and what C++20 mandates). `bool` targets are
    handled by `conv`. -/
def wrap (t : CTy) (i : Int) : CVal :=
  ⟨t, (i % ((2 ^ t.bits : Nat) : Int)).toNat⟩

def inRange (t : CTy) (i : Int) : Bool :=
  if t.signed then
    decide (-((2 ^ (t.bits - 1) : Nat) : Int) ≤ i) && decide (i < ((2 ^ (t.bits - 1) : Nat) : Int))
  else decide (0 ≤ i) && decide (i < ((2 ^ t.bits : Nat) : Int))

/-- exact result or UB -/
def exact (t : CTy) (i : Int) : Option CVal :=
  if inRange t i then some (wrap t i) else none

/-- arithmetic result in type `t`: UB on signed overflow, modular otherwise -/
def arith (t : CTy) (i : Int) : Option CVal :=
  if t.signed then exact t i else some (wrap t i)

def isTrue (v : CVal) : Bool := v.bits != 0

def ofBool (b : Bool) : CVal := ⟨.bool, if b then 1 else 0⟩

/-- implicit / static_cast conversion between arithmetic types -/
def conv (t : CTy) (v : CVal) : CVal :=
  match t with
  | .bool => ofBool v.isTrue
  | _ => wrap t v.toInt

def promote (v : CVal) : CVal := conv v.ty.promote v

end CVal

inductive UnOp | neg | bnot | lnot | plus
  deriving DecidableEq, Repr

inductive BinOp
  | mul | div | mod | add | sub | shl | shr
  | lt | le | gt | ge | eq | ne
  | band | bxor | bor | land | lor
  deriving DecidableEq, Repr

namespace CVal

def unop (op : UnOp) (v : CVal) : Option CVal :=
  match op with
  | .lnot => some (ofBool (!v.isTrue))
  | .plus => if v.ty.isPtr then some v else some v.promote
  | .neg =>
    if v.ty.isPtr then none else
    let p := v.promote
    arith p.ty (-p.toInt)
  | .bnot =>
    if v.ty.isPtr then none else
    let p := v.promote
    some ⟨p.ty, 2 ^ p.ty.bits - 1 - p.bits⟩

def cmp (op : BinOp) (a b : Int) : Bool :=
  match op with
  | .lt => decide (a < b) | .le => decide (a ≤ b)
  | .gt => decide (a > b) | .ge => decide (a ≥ b)
  | .eq => decide (a = b) | .ne => decide (a ≠ b)
  | _ => false

def isCmp : BinOp → Bool
  | .lt | .le | .gt | .ge | .eq | .ne => true
  | _ => false

def shlOp (pa pb : CVal) : Option CVal :=
  let n := pb.toInt
  if n < 0 ∨ n ≥ pa.ty.bits then none
  else if pa.ty.signed then
    -- CWG 1457: E1 non-negative and E1*2^E2 representable in the corresponding
    -- unsigned type; the result is that value converted to the signed type
    if pa.toInt < 0 then none
    else if pa.bits * 2 ^ n.toNat < 2 ^ pa.ty.bits then some ⟨pa.ty, pa.bits * 2 ^ n.toNat⟩
    else none
  else some ⟨pa.ty, (pa.bits * 2 ^ n.toNat) % 2 ^ pa.ty.bits⟩

/-- right shift: arithmetic for negative signed values (implementation-defined
    before C++20, arithmetic on every supported compiler) -/
def shrOp (pa pb : CVal) : Option CVal :=
  let n := pb.toInt
  if n < 0 ∨ n ≥ pa.ty.bits then none
  else some (wrap pa.ty (pa.toInt / ((2 ^ n.toNat : Nat) : Int)))

/-- arithmetic/bitwise/comparison on operands already converted to the common type `t` -/
def arithOp (op : BinOp) (t : CTy) (x y : CVal) : Option CVal :=
  match op with
  | .mul => arith t (x.toInt * y.toInt)
  | .add => arith t (x.toInt + y.toInt)
  | .sub => arith t (x.toInt - y.toInt)
  | .div => if y.toInt = 0 then none else arith t (Int.tdiv x.toInt y.toInt)
  | .mod =>
    if y.toInt = 0 then none
    -- INT_MIN % -1 is UB because the quotient is not representable
    else if t.signed && !(inRange t (Int.tdiv x.toInt y.toInt)) then none
    else arith t (Int.tmod x.toInt y.toInt)
  | .band => some ⟨t, x.bits &&& y.bits⟩
  | .bor => some ⟨t, x.bits ||| y.bits⟩
  | .bxor => some ⟨t, x.bits ^^^ y.bits⟩
  | .lt => some (ofBool (decide (x.toInt < y.toInt)))
  | .le => some (ofBool (decide (x.toInt ≤ y.toInt)))
  | .gt => some (ofBool (decide (x.toInt > y.toInt)))
  | .ge => some (ofBool (decide (x.toInt ≥ y.toInt)))
  | .eq => some (ofBool (decide (x.toInt = y.toInt)))
  | .ne => some (ofBool (decide (x.toInt ≠ y.toInt)))
  | _ => none

/-- both operands of integer type (`&&`/`||` are handled by the expression
    evaluator because of short-circuiting) -/
def intBinop (op : BinOp) (a b : CVal) : Option CVal :=
  if op = .shl then shlOp a.promote b.promote
  else if op = .shr then shrOp a.promote b.promote
  else
    let t := CTy.common a.promote.ty b.promote.ty
    arithOp op t (conv t a.promote) (conv t b.promote)

/-- at least one pointer operand -/
def ptrBinop (op : BinOp) (a b : CVal) : Option CVal :=
  if a.ty.isPtr && b.ty.isPtr then
    if isCmp op then some (ofBool (cmp op a.toInt b.toInt))
    else if op = .sub then exact .i64 (a.toInt - b.toInt)
    else none
  else if a.ty.isPtr then
    if op = .add then exact .ptr (a.toInt + b.toInt)
    else if op = .sub then exact .ptr (a.toInt - b.toInt)
    else none
  else
    if op = .add then exact .ptr (a.toInt + b.toInt) else none

def binop (op : BinOp) (a b : CVal) : Option CVal :=
  if a.ty.isPtr || b.ty.isPtr then ptrBinop op a b else intBinop op a b

end CVal

end Sbepp
