/-
  S-expressions: the transport format between the Python orchestration and the
  Lean model driver (schemas, values, scripts).  Atoms are runs of characters
  other than whitespace and parentheses; arbitrary strings travel hex-encoded
  as `x<hex>` atoms.
-/
namespace Sbepp

inductive SExp
  | atom (s : String)
  | list (l : List SExp)
  deriving Repr, Inhabited

namespace SExp

def tokenize (s : String) : List String :=
  let (toks, cur) := s.foldl (fun (acc : List String × String) c =>
    let (toks, cur) := acc
    if c = '(' ∨ c = ')' then
      let toks := if cur.isEmpty then toks else cur :: toks
      (String.singleton c :: toks, "")
    else if c.isWhitespace then
      (if cur.isEmpty then toks else cur :: toks, "")
    else (toks, cur.push c)) ([], "")
  (if cur.isEmpty then toks else cur :: toks).reverse

/-- parse with an explicit stack; returns the top-level list of expressions -/
def parseToks : List String → List (List SExp) → Option (List SExp)
  | [], [top] => some top.reverse
  | [], _ => none
  | "(" :: rest, stack => parseToks rest ([] :: stack)
  | ")" :: rest, cur :: parent :: stack => parseToks rest ((SExp.list cur.reverse :: parent) :: stack)
  | ")" :: _, _ => none
  | a :: rest, cur :: stack => parseToks rest ((SExp.atom a :: cur) :: stack)
  | _ :: _, [] => none

def parse (s : String) : Option (List SExp) := parseToks (tokenize s) [[]]

def parseOne (s : String) : Option SExp :=
  match parse s with
  | some [e] => some e
  | _ => none

def asAtom? : SExp → Option String
  | .atom s => some s
  | _ => none

def asList? : SExp → Option (List SExp)
  | .list l => some l
  | _ => none

/-- `(key v...)` children of a list whose head atom is `key` -/
def field? (e : SExp) (key : String) : Option (List SExp) :=
  match e with
  | .list l => l.findSome? (fun c =>
      match c with
      | .list (.atom k :: rest) => if k = key then some rest else none
      | _ => none)
  | _ => none

def atomField? (e : SExp) (key : String) : Option String :=
  match e.field? key with
  | some [.atom s] => some s
  | _ => none

def natField? (e : SExp) (key : String) : Option Nat := (e.atomField? key).bind String.toNat?

def listField (e : SExp) (key : String) : List SExp := (e.field? key).getD []

def head? : SExp → Option String
  | .list (.atom h :: _) => some h
  | _ => none

def hexVal (c : Char) : Option Nat :=
  if c.isDigit then some (c.toNat - '0'.toNat)
  else if 'a' ≤ c ∧ c ≤ 'f' then some (c.toNat - 'a'.toNat + 10)
  else if 'A' ≤ c ∧ c ≤ 'F' then some (c.toNat - 'A'.toNat + 10)
  else none

/-- hex string -> bytes -/
def unhex (s : String) : Option (List Nat) :=
  let rec go : List Char → Option (List Nat)
    | [] => some []
    | [_] => none
    | a :: b :: rest =>
      match hexVal a, hexVal b, go rest with
      | some x, some y, some r => some ((x * 16 + y) :: r)
      | _, _, _ => none
  go s.toList

def hexDigit (n : Nat) : Char := "0123456789abcdef".toList.getD n '?'

def hex (bs : List Nat) : String :=
  String.ofList (bs.flatMap (fun b => [hexDigit (b / 16 % 16), hexDigit (b % 16)]))

end SExp
end Sbepp
