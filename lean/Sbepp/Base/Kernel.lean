/-
  A kernel is a small C++ function body translated by /verif/extract:
  typed parameters (including the members it reads/writes), straight-line
  statements and an optional returned expression (already wrapped in the cast
  to the declared return type).
-/
import Sbepp.Base.CExpr

namespace Sbepp

structure Kernel where
  params : List (String × CTy)
  body : List CStmt
  ret : Option CExpr
  deriving Repr, Inhabited

def mkEnv : List (String × CTy) → List Nat → Env
  | (x, t) :: ps, a :: as => (x, ⟨t, a % 2 ^ t.bits⟩) :: mkEnv ps as
  | _, _ => []

structure KResult where
  env : Env
  ret : Option CVal
  deriving Repr

/-- run a kernel on raw argument bit patterns -/
def Kernel.run (k : Kernel) (args : List Nat) : Outcome KResult :=
  match execStmts (mkEnv k.params args) 0 k.body with
  | .ok env =>
    match k.ret with
    | none => .ok ⟨env, none⟩
    | some e =>
      match e.eval env with
      | some v => .ok ⟨env, some v⟩
      | none => .ub
  | .ub => .ub
  | .assertFailed i => .assertFailed i

/-- the returned value as a bit pattern, if the run is defined -/
def Kernel.retBits (k : Kernel) (args : List Nat) : Option Nat :=
  match k.run args with
  | .ok ⟨_, some v⟩ => some v.bits
  | _ => none

/-- final value of a variable as a bit pattern -/
def Kernel.varBits (k : Kernel) (args : List Nat) (x : String) : Option Nat :=
  match k.run args with
  | .ok ⟨env, _⟩ => (env.get? x).map (·.bits)
  | _ => none

end Sbepp
