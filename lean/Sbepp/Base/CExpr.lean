/-
  Deep-embedded C++ expressions and straight-line statement lists with an
  evaluator implementing the C++ conversion rules of `CInt`.
  `Extracted/Kernels.lean` (regenerated from /repo on every run) consists of
  terms of these types.
-/
import Sbepp.Base.CInt

namespace Sbepp

inductive CExpr
  | lit (ty : CTy) (v : Int)
  | var (name : String)
  | cast (ty : CTy) (e : CExpr)
  | un (op : UnOp) (e : CExpr)
  | bin (op : BinOp) (a b : CExpr)
  | cond (c a b : CExpr)
  deriving Repr, Inhabited

abbrev Env := List (String × CVal)

def Env.get? (env : Env) (x : String) : Option CVal :=
  match env with
  | [] => none
  | (k, v) :: rest => if k = x then some v else Env.get? rest x

def Env.set (env : Env) (x : String) (v : CVal) : Env :=
  match env with
  | [] => [(x, v)]
  | (k, w) :: rest => if k = x then (k, v) :: rest else (k, w) :: Env.set rest x v

namespace CExpr

def eval (env : Env) : CExpr → Option CVal
  | .lit t v => some (CVal.wrap t v)
  | .var x => env.get? x
  | .cast t e => (eval env e).map (CVal.conv t)
  | .un op e => (eval env e).bind (CVal.unop op)
  | .bin .land a b =>
    match eval env a with
    | none => none
    | some x => if x.isTrue then (eval env b).map (fun y => CVal.ofBool y.isTrue)
                else some (CVal.ofBool false)
  | .bin .lor a b =>
    match eval env a with
    | none => none
    | some x => if x.isTrue then some (CVal.ofBool true)
                else (eval env b).map (fun y => CVal.ofBool y.isTrue)
  | .bin op a b =>
    match eval env a, eval env b with
    | some x, some y => CVal.binop op x y
    | _, _ => none
  | .cond c a b =>
    match eval env c with
    | none => none
    | some x => if x.isTrue then eval env a else eval env b

end CExpr

/-- Straight-line statements of a kernel body. `assign x e` converts to the
    declared type of `x` (which must already be in the environment);
    `decl t x e` introduces a new variable; `assert e` is an `SBEPP_ASSERT`
    (recorded, evaluation continues as in a build with a handler that
    returns—our harness never returns, so the model stops at the first failed
    assertion). -/
inductive CStmt
  | assign (x : String) (e : CExpr)
  | decl (t : CTy) (x : String) (e : CExpr)
  | assert (e : CExpr)
  deriving Repr, Inhabited

inductive Outcome (α : Type)
  | ok (a : α)
  | ub
  | assertFailed (idx : Nat)
  deriving Repr

def CStmt.exec (env : Env) (idx : Nat) : CStmt → Outcome Env
  | .assign x e =>
    match env.get? x, e.eval env with
    | some old, some v => .ok (env.set x (CVal.conv old.ty v))
    | _, _ => .ub
  | .decl t x e =>
    match e.eval env with
    | some v => .ok ((x, CVal.conv t v) :: env)
    | none => .ub
  | .assert e =>
    match e.eval env with
    | some v => if v.isTrue then .ok env else .assertFailed idx
    | none => .ub

def execStmts (env : Env) (idx : Nat) : List CStmt → Outcome Env
  | [] => .ok env
  | s :: rest =>
    match s.exec env idx with
    | .ok env' => execStmts env' (idx + 1) rest
    | .ub => .ub
    | .assertFailed i => .assertFailed i

end Sbepp
