/-
  Model of the layout part of `sbe_schema_validator.hpp`: sizes, offsets of
  composite elements (`validate_element_offset`), offsets of fields
  (`validate_field_offset`), block lengths (`validate_block_length`), actual
  presence, level headers.  Produces the named resolved layout `NMessage` from
  which both the wire specification and the runtime model are driven.
-/
import Sbepp.Schema.Ast
import Sbepp.Schema.Layout

namespace Sbepp.Schema
open Sbepp

def primSize? : String → Option Nat
  | "char" | "int8" | "uint8" => some 1
  | "int16" | "uint16" => some 2
  | "int32" | "uint32" | "float" => some 4
  | "int64" | "uint64" | "double" => some 8
  | _ => none

def isPrimitive (s : String) : Bool := (primSize? s).isSome

structure NLeaf where
  path : List String
  off : Nat
  size : Nat
  prim : String
  count : Nat
  kind : String
  deriving Repr, Inhabited

def NLeaf.leaf (l : NLeaf) : Leaf := ⟨l.off, l.size⟩

structure NDim where
  name : String
  dim : Dim
  blPrim : String
  numPrim : String
  leaves : List NLeaf
  deriving Repr, Inhabited

structure NData where
  name : String
  lenSize : Nat
  lenPrim : String
  lenOff : Nat
  hdrSize : Nat
  elemPrim : String
  deriving Repr, Inhabited

mutual
  inductive NLevel
    | mk (blockLen : Nat) (leaves : List NLeaf) (groups : List NGroup) (datas : List NData)
  inductive NGroup
    | mk (name : String) (dim : NDim) (level : NLevel)
end

instance : Inhabited NLevel := ⟨.mk 0 [] [] []⟩

mutual
  def NLevel.erase : NLevel → Level
    | .mk bl lv gs ds => .mk bl (lv.map NLeaf.leaf) (eraseGs gs) (ds.map (fun d => ⟨d.lenSize⟩))
  def eraseGs : List NGroup → List Group
    | [] => []
    | g :: gs => g.erase :: eraseGs gs
  def NGroup.erase : NGroup → Group
    | .mk _ dim l => .mk dim.dim l.erase
end

structure NMessage where
  name : String
  id : Nat
  hdrSize : Nat
  hdrLeaves : List NLeaf
  level : NLevel
  deriving Inhabited

def lookup (types : List Elem) (name : String) : Option Elem :=
  types.find? (fun e => e.name.toLower = name.toLower)

/-- the primitive type behind an enum/set `encodingType` -/
def encPrim (types : List Elem) (enc : String) : Except String String :=
  if isPrimitive enc then .ok enc
  else match lookup types enc with
    | some (.type t) => if t.length = 1 then .ok t.prim else .error s!"encoding type `{enc}` must have length 1"
    | some _ => .error s!"encoding `{enc}` is not a type"
    | none => .error s!"encoding `{enc}` doesn't exist"

/-- `is_constant_composite_element` -/
def isConstElem (types : List Elem) : Elem → Bool
  | .type t => t.presence == .constant
  | .ref _ ty _ _ =>
    match lookup types ty with
    | some (.type t) => t.presence == .constant
    | _ => false
  | _ => false

def Elem.offset : Elem → Option Nat
  | .type t => t.offset
  | .composite _ o _ _ => o
  | .ref _ _ o _ => o
  | .enum _ _ o _ _ => o
  | .set _ _ o _ _ => o

/-! ### the layout steps of the validator

  The arithmetic of `validate_element_offset`, `validate_field_offset` and
  `validate_block_length` as pure step functions.  `Lemmas/ValidatorLayoutTie.lean`
  proves them equal to the definitions `extract/validator_layout.py` regenerates
  from `sbe_schema_validator.hpp` on every run. -/

/-- message of the two layout diagnostics of sbeppc; `tag` = the leading words of the `throw_error` format string -/
def layoutMsg (tag : String) (a b : Nat) : String := s!"{tag} ({a}) is less than minimum possible ({b})"

/-- the offset `validate_element_offset` / `validate_field_offset` store for an element
    (`offset_in_composite`, `level_offset`): the custom offset if there is one — it must not be below the
    running offset —, else the running offset -/
def storedOffset (custom : Option Nat) (cur : Nat) : Except String Nat :=
  match custom with
  | some o => if o < cur then Except.error (layoutMsg "custom offset" o cur) else .ok o
  | none => .ok cur

/-- `std::numeric_limits<offset_t>::max()` (`offset_t` = `std::uint64_t`; the width is the one
    `extract/validator_layout.py` reads from sbepp.hpp, see `Lemmas/ValidatorLayoutTie.lean`) -/
def offsetMax : Nat := 18446744073709551615

/-- message of the overflow diagnostic (sbeppc since fix 0032) -/
def overflowMsg (off size : Nat) : String := s!"offset ({off}) plus size ({size}) is too big"

/-- one whole step of `validate_element_offset` / `validate_field_offset` on a non-constant element of
    size `size`: the stored offset and the new running offset (stored offset + size), which `offset_t` must be
    able to hold -/
def offsetStep (custom : Option Nat) (cur size : Nat) : Except String (Nat × Nat) :=
  match storedOffset custom cur with
  | .error err => .error err
  | .ok off => if offsetMax < off + size then .error (overflowMsg off size) else .ok (off, off + size)

mutual
  /-- size and leaves (with absolute offsets from `base`) of one encoding -/
  def elemLeaves (types : List Elem) : Nat → List String → Nat → Elem → Except String (Nat × List NLeaf)
    | 0, _, _, _ => .error "cyclic reference"
    | fuel + 1, path, base, e =>
      match e with
      | .type t =>
        match primSize? t.prim with
        | none => .error s!"unknown primitive type `{t.prim}`"
        | some ps =>
          if t.presence == .constant then .ok (ps * t.length, [])
          else
            let sz := ps * t.length
            .ok (sz, [{ path := path, off := base, size := sz, prim := t.prim, count := t.length,
                        kind := if t.length = 1 then "type" else "array" }])
      | .enum _ enc _ _ _ => do
        let p ← encPrim types enc
        let ps := (primSize? p).getD 0
        .ok (ps, [{ path := path, off := base, size := ps, prim := p, count := 1, kind := "enum" }])
      | .set _ enc _ _ _ => do
        let p ← encPrim types enc
        let ps := (primSize? p).getD 0
        .ok (ps, [{ path := path, off := base, size := ps, prim := p, count := 1, kind := "set" }])
      | .ref _ ty _ _ =>
        match lookup types ty with
        | none => .error s!"encoding `{ty}` doesn't exist"
        | some target => elemLeaves types fuel path base target
      | .composite _ _ elems _ => compLeaves types fuel path base 0 elems
  /-- `validate_encoding(composite)`: running offset over the elements -/
  def compLeaves (types : List Elem) : Nat → List String → Nat → Nat → List Elem → Except String (Nat × List NLeaf)
    | _, _, _, cur, [] => .ok (cur, [])
    | 0, _, _, _, _ :: _ => .error "cyclic reference"
    | fuel + 1, path, base, cur, e :: rest =>
      if isConstElem types e then
        -- constants take no space; they are still validated
        match elemLeaves types fuel (path ++ [e.name]) base e with
        | .error err => .error err
        | .ok _ => compLeaves types fuel path base cur rest
      else
        -- `validate_element_offset`: `offsetStep e.offset cur sz = .ok (off, off + sz)` (`compLeaves_step`)
        match storedOffset e.offset cur with
        | .error err => .error err
        | .ok off =>
          match elemLeaves types fuel (path ++ [e.name]) (base + off) e with
          | .error err => .error err
          | .ok (sz, lv) =>
            if offsetMax < off + sz then .error (overflowMsg off sz)
            else
              match compLeaves types fuel path base (off + sz) rest with
              | .error err => .error err
              | .ok (total, lv') => .ok (total, lv ++ lv')
end

def FUEL : Nat := 64

/-- `get_actual_presence` -/
def actualPresence (types : List Elem) (f : FieldDef) : Except String Presence :=
  if isPrimitive f.type then .ok f.presence
  else match lookup types f.type with
    | none => .error s!"field type `{f.type}` doesn't exist"
    | some (.type t) => .ok t.presence
    | some (.composite _ _ _ _) => .ok f.presence
    | some (.enum _ _ _ _ _) => .ok (if f.presence == .optional then .required else f.presence)
    | some (.set _ _ _ _ _) => .ok .required
    | some (.ref _ _ _ _) => .error "ref at top level"

/-- `validate_members` field loop: offsets and leaves of the non-constant fields -/
def fieldLeaves (types : List Elem) : Nat → List FieldDef → Except String (Nat × List NLeaf)
  | cur, [] => .ok (cur, [])
  | cur, f :: rest => do
    let pres ← actualPresence types f
    if pres == .constant then
      match lookup types f.type with
      | some (.composite _ _ _ _) => .error "composite field can't be a constant"
      | _ => fieldLeaves types cur rest
    else
      -- `validate_field_offset`: `offsetStep f.offset cur sz = .ok (off, off + sz)` (`fieldLeaves_step`)
      let off ← storedOffset f.offset cur
      let (sz, lv) ← (if isPrimitive f.type then
                        let ps := (primSize? f.type).getD 0
                        Except.ok (ps, [{ path := [f.name], off := off, size := ps, prim := f.type, count := 1, kind := "type" : NLeaf }])
                      else match lookup types f.type with
                        | some enc => elemLeaves types FUEL [f.name] off enc
                        | none => .error s!"field type `{f.type}` doesn't exist")
      if offsetMax < off + sz then .error (overflowMsg off sz)
      else do
        let (total, lv') ← fieldLeaves types (off + sz) rest
        .ok (total, lv ++ lv')

def findLeaf (lv : List NLeaf) (name : String) : Option NLeaf := lv.find? (fun l => l.path = [name])

def dimExtras (lv : List NLeaf) (nGroups nDatas : Nat) : List (Leaf × Nat) :=
  (match findLeaf lv "numGroups" with | some l => [(l.leaf, nGroups)] | none => []) ++
  (match findLeaf lv "numVarDataFields" with | some l => [(l.leaf, nDatas)] | none => [])

def resolveDim (types : List Elem) (dimType : String) (nGroups nDatas : Nat) : Except String NDim :=
  match lookup types dimType with
  | some (.composite n _ elems _) => do
    let (sz, lv) ← compLeaves types FUEL [] 0 0 elems
    match findLeaf lv "blockLength", findLeaf lv "numInGroup" with
    | some bl, some num =>
      .ok { name := n, dim := ⟨sz, bl.off, bl.size, num.off, num.size, dimExtras lv nGroups nDatas⟩, blPrim := bl.prim, numPrim := num.prim,
            leaves := lv }
    | _, _ => .error s!"group header `{dimType}` doesn't have required elements"
  | some _ => .error s!"group header encoding `{dimType}` is not a composite"
  | none => .error s!"group header encoding `{dimType}` doesn't exist"

def resolveData (types : List Elem) (d : DataDef) : Except String NData :=
  match lookup types d.type with
  | some (.composite _ _ elems _) => do
    let (sz, lv) ← compLeaves types FUEL [] 0 0 elems
    match findLeaf lv "length", findLeaf lv "varData" with
    | some len, some vd =>
      if vd.count ≠ 0 then .error "data header element `varData` must have length equal to 0"
      else if len.off ≠ 0 ∨ sz ≠ len.size then
        -- `validate_data_header_layout`: the runtime reads the length at offset 0, payload right behind it
        .error s!"data header `{d.type}` must consist of `length` at offset 0 directly followed by `varData`"
      else .ok { name := d.name, lenSize := len.size, lenPrim := len.prim, lenOff := len.off, hdrSize := sz,
                 elemPrim := vd.prim }
    | _, _ => .error s!"data header `{d.type}` doesn't have required elements"
  | some _ => .error s!"data header encoding `{d.type}` is not a composite"
  | none => .error s!"data header encoding `{d.type}` doesn't exist"

/-- `validate_block_length` as a pure step (the "blockLength step" of the validator): the stored
    `actual_block_length` — the custom `blockLength` if there is one (it must not be below the computed one), else
    the computed one.  Tied to the C++ text by `Lemmas/ValidatorLayoutTie.lean`. -/
def blockLength (custom : Option Nat) (computed : Nat) : Except String Nat :=
  match custom with
  | some b => if b < computed then .error (layoutMsg "custom `blockLength`" b computed) else .ok b
  | none => .ok computed

/-- the name under which the tie theorems refer to it -/
abbrev blockLengthStep := @blockLength

mutual
  def resolveGroups (types : List Elem) : List GroupDef → Except String (List NGroup)
    | [] => .ok []
    | g :: gs =>
      match resolveGroup types g with
      | .error e => .error e
      | .ok r =>
        match resolveGroups types gs with
        | .error e => .error e
        | .ok rs => .ok (r :: rs)
  def resolveGroup (types : List Elem) : GroupDef → Except String NGroup
    | .mk name _ dimType bl fields groups datas _ =>
      match fieldLeaves types 0 fields with
      | .error e => .error e
      | .ok (computed, lv) =>
        match blockLength bl computed with
        | .error e => .error e
        | .ok b =>
          match resolveDim types dimType groups.length datas.length with
          | .error e => .error e
          | .ok dim =>
            match resolveGroups types groups with
            | .error e => .error e
            | .ok gs =>
              match datas.mapM (resolveData types) with
              | .error e => .error e
              | .ok ds => .ok (.mk name dim (.mk b lv gs ds))
end

def resolveMessage (s : SchemaDef) (m : MessageDef) : Except String NMessage := do
  let (computed, lv) ← fieldLeaves s.types 0 m.fields
  let b ← blockLength m.blockLength computed
  let gs ← resolveGroups s.types m.groups
  let ds ← m.datas.mapM (resolveData s.types)
  match lookup s.types s.headerType with
  | some (.composite _ _ elems _) =>
    let (hsz, hlv) ← compLeaves s.types FUEL [] 0 0 elems
    .ok { name := m.name, id := m.id, hdrSize := hsz, hdrLeaves := hlv, level := .mk b lv gs ds }
  | _ => .error s!"message header encoding `{s.headerType}` doesn't exist or is not a composite"

end Sbepp.Schema
