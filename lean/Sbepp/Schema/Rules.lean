/-
  C08 — executable model of sbeppc's accept/reject decision on a parsed schema:
  a transliteration, in the order the C++ performs them, of

    * `schema_parser.hpp`        (what can fail on a schema that already is an AST:
                                  empty required strings, numeric attributes outside
                                  their C++ type, the uniqueness sets),
    * `sbe_schema_validator.hpp` (`validate_types` with the in-progress map,
                                  `validate_message_header`, `validate_message`),
    * `sbe_schema_cpp_validator.hpp` (keywords, namespace name).

  `check s` returns the first diagnostic: its class (one per `throw_error`
  message template) and the entity whose source location sbeppc prints.  Two
  loops of the C++ iterate an `unordered_map` (`validate_types`,
  `validate_type_names`): for those the model returns the diagnostic of the
  first failing public type in document order and, in `alts`, the first
  diagnostic of *every* failing public type — the set from which the hash order
  picks.  Layout arithmetic (primitive sizes, lookup, constant elements,
  `blockLength`) is `Schema/Resolve.lean`'s.
-/
import Sbepp.Schema.Resolve
import Sbepp.Spec.Rules

namespace Sbepp.Schema.Rules
open Sbepp Sbepp.Schema
open Sbepp.Spec.Rules (DiagClass Path)

structure Diag where
  cls : DiagClass
  loc : Path
  alts : List (DiagClass × Path) := []
  deriving Repr, Inhabited

abbrev R (α : Type) := Except Diag α

def fail {α} (c : DiagClass) (p : Path) : R α := .error { cls := c, loc := p }

/-- `if(!cond) throw_error(...)` -/
def need (cond : Bool) (c : DiagClass) (p : Path) : R Unit := if cond then .ok () else fail c p

/-- run `f` on every element, stop at the first error -/
def allOk {α} (f : α → R Unit) : List α → R Unit
  | [] => .ok ()
  | x :: xs => match f x with
    | .error d => .error d
    | .ok () => allOk f xs

/-! ### `utils::string_to_number<T>` = `std::from_chars`, base 10 -/

def digitVal (c : Char) : Option Nat := if '0' ≤ c ∧ c ≤ '9' then some (c.toNat - 48) else none

/-- all characters must be digits (full consumption) -/
def parseDigits : List Char → Nat → Option Nat
  | [], acc => some acc
  | c :: cs, acc => match digitVal c with
    | some d => parseDigits cs (acc * 10 + d)
    | none => none

/-- `from_chars` on a `bits`-wide integer: optional `-` for signed types only, at
    least one digit, no `+`, no blanks, nothing behind the digits, value in range -/
def parseNumL (cs : List Char) (bits : Nat) (signed : Bool) : Option Int :=
  match cs with
  | [] => none
  | '-' :: ds =>
    if signed then
      match ds with
      | [] => none
      | _ => match parseDigits ds 0 with
        | some m => if m ≤ 2 ^ (bits - 1) then some (-(m : Int)) else none
        | none => none
    else none
  | ds => match parseDigits ds 0 with
    | some m => if m < (if signed then 2 ^ (bits - 1) else 2 ^ bits) then some (m : Int) else none
    | none => none

def parseNum (s : String) (ty : Nat × Bool) : Option Int := parseNumL s.toList ty.1 ty.2

/-! ### `can_be_parsed_as_fp<T>`: XML pre-checks, then `strtof`/`strtod` with
    full consumption and `errno != ERANGE` -/

def isSpaceC (c : Char) : Bool := c == ' ' || ('\t' ≤ c && c ≤ '\r')

def lowerEq (cs : List Char) (pat : List Char) : Bool := cs.map Char.toLower == pat

/-- leading digits: (value, count, rest) -/
def takeDigits : List Char → Nat → Nat → Nat × Nat × List Char
  | [], acc, n => (acc, n, [])
  | c :: cs, acc, n => match digitVal c with
    | some d => takeDigits cs (acc * 10 + d) (n + 1)
    | none => (acc, n, c :: cs)

inductive StrtoVal
  | noConv | inf | nan
  | dec (mant : Nat) (exp10 : Int)

/-- what `strtod` converts from the front of `cs` and what it leaves -/
def strtod (cs : List Char) : StrtoVal × List Char :=
  let body := match cs with
    | '+' :: r => r
    | '-' :: r => r
    | r => r
  if lowerEq (body.take 3) ['i', 'n', 'f'] then
    if lowerEq ((body.drop 3).take 5) ['i', 'n', 'i', 't', 'y'] then (.inf, body.drop 8) else (.inf, body.drop 3)
  else if lowerEq (body.take 3) ['n', 'a', 'n'] then
    match body.drop 3 with
    | '(' :: r =>
      let seq := r.takeWhile (fun c => c.isAlphanum || c == '_')
      (match r.drop seq.length with
       | ')' :: r' => (.nan, r')
       | _ => (.nan, body.drop 3))
    | r => (.nan, r)
  else
    let (ip, nI, r1) := takeDigits body 0 0
    let (m, nF, r2) := match r1 with
      | '.' :: r => let (v, n, r') := takeDigits r ip 0; (v, n, r')
      | r => (ip, 0, r)
    if nI + nF = 0 then (.noConv, cs)
    else
      -- exponent part only if at least one digit follows
      let (e, r3) := match r2 with
        | c :: r =>
          if c == 'e' || c == 'E' then
            let (neg, r') := match r with
              | '+' :: x => (false, x)
              | '-' :: x => (true, x)
              | x => (false, x)
            let (ev, nE, r'') := takeDigits r' 0 0
            if nE = 0 then ((0 : Int), r2) else ((if neg then -(ev : Int) else (ev : Int)), r'')
          else ((0 : Int), r2)
        | [] => ((0 : Int), r2)
      (.dec m (e - nF), r3)

/-- round-half-even of `num / den` -/
def roundDiv (num den : Nat) : Nat :=
  let q := num / den
  let r := num % den
  if 2 * r < den then q else if 2 * r > den then q + 1 else if q % 2 = 0 then q else q + 1

/-- does the correctly rounded conversion of `mant · 10^exp10` to a binary
    format with `p` bits, exponents `[-emin, emax]`, set `ERANGE`?  (overflow, or
    a tiny result that is inexact) -/
def erange (p emax emin : Nat) (mant : Nat) (exp10 : Int) : Bool :=
  if mant = 0 then false
  else
    let mag : Int := exp10 + (Nat.toDigits 10 mant).length
    if mag > 400 then true
    else if mag < -1200 then true
    else
      let num := if exp10 ≥ 0 then mant * 10 ^ exp10.toNat else mant
      let den := if exp10 ≥ 0 then 1 else 10 ^ (-exp10).toNat
      -- binary exponent `sh` of the last mantissa bit: 2^(p-1) ≤ q / 2^sh < 2^p
      let scaled (sh : Int) : Nat × Nat := if sh ≥ 0 then (num, den * 2 ^ sh.toNat) else (num * 2 ^ (-sh).toNat, den)
      let fl (sh : Int) : Nat := (scaled sh).1 / (scaled sh).2
      let sh0 : Int := (Nat.log2 num : Int) - (Nat.log2 den : Int) - ((p : Int) - 1)
      let adj (sh : Int) : Int := if fl sh ≥ 2 ^ p then sh + 1 else if fl sh < 2 ^ (p - 1) then sh - 1 else sh
      let sh := adj (adj (adj sh0))
      let m := roundDiv (scaled sh).1 (scaled sh).2
      -- rounding may carry into the next binade
      let top : Int := if m ≥ 2 ^ p then sh + p else sh + p - 1   -- exponent of the leading bit
      if top > emax then true
      else if top < -(emin : Int) then
        -- tiny after rounding: the result is rounded again on the subnormal grid 2^(-emin-p+1)
        let g : Int := -(emin : Int) - (p : Int) + 1
        let (n2, d2) := scaled g
        decide (n2 % d2 ≠ 0)
      else false

def canBeParsedAsFp (double : Bool) (s : String) : Bool :=
  let str := s.toList
  match str with
  | [] => false
  | front :: _ =>
    if isSpaceC front then false
    else
      let (hasSign, signless) := match str with
        | '+' :: r => (true, r)
        | '-' :: r => (true, r)
        | r => (false, r)
      let pre : Bool :=
        if signless.length > 1 then
          if signless.take 1 == ['0'] && ((signless.drop 1).take 1 == ['x'] || (signless.drop 1).take 1 == ['X']) then false
          else if (signless.head?.map Char.isAlpha).getD false then
            let hasSignlessNan := signless == ['N', 'a', 'N'] && !hasSign
            if !hasSignlessNan && signless != ['I', 'N', 'F'] then false else true
          else true
        else true
      if !pre then false
      else
        let (v, rest) := strtod str
        let fullyParsed := rest.isEmpty
        let er := match v with
          | .dec m e => if double then erange 53 1023 1022 m e else erange 24 127 126 m e
          | _ => false
        match v with
        | .noConv => false
        | _ => !(er || !fullyParsed)

/-! ### `value_fits_into_type` -/

def intTy : String → Option (Nat × Bool)
  | "char" => some (8, true) | "int8" => some (8, true) | "uint8" => some (8, false)
  | "int16" => some (16, true) | "uint16" => some (16, false)
  | "int32" => some (32, true) | "uint32" => some (32, false)
  | "int64" => some (64, true) | "uint64" => some (64, false)
  | _ => none

def valueFitsIntoType (value prim : String) : Bool :=
  if value.isEmpty then false
  else match intTy prim with
    | some ty => (parseNum value ty).isSome
    | none =>
      if prim == "float" then canBeParsedAsFp false value
      else if prim == "double" then canBeParsedAsFp true value
      else false

/-! ### small predicates of the validators -/

/-- `sbe_schema_validator::is_sbe_symbolic_name` -/
def isSbeSymbolicName (name : String) : Bool :=
  match name.toList with
  | [] => false
  | c :: cs =>
    if c.isDigit then false
    else ((c :: cs).find? (fun ch => !(ch.isAlphanum || ch == '_'))).isNone

def isSingleByteType (t : String) : Bool := t == "char" || t == "int8" || t == "uint8"

def isIntegralType (t : String) : Bool :=
  ["char", "int8", "uint8", "int16", "uint16", "int32", "uint32", "int64", "uint64"].contains t

def isUnsignedPrimitiveType (t : String) : Bool := ["uint8", "uint16", "uint32", "uint64"].contains t

/-- `sbe_schema_cpp_validator::is_cpp_keyword` (order of the source) -/
def cppKeywords : List String :=
  ["alignas", "alignof", "and", "and_eq", "asm", "auto", "bitand", "bitor", "bool", "break", "case", "catch",
   "char", "char8_t", "char16_t", "char32_t", "class", "compl", "concept", "const", "consteval", "constexpr",
   "constinit", "const_cast", "continue", "co_await", "co_return", "co_yield", "decltype", "default", "delete",
   "do", "double", "dynamic_cast", "else", "enum", "explicit", "export", "extern", "false", "float", "for",
   "friend", "goto", "if", "inline", "int", "long", "mutable", "namespace", "new", "noexcept", "not", "not_eq",
   "nullptr", "operator", "or", "or_eq", "private", "protected", "public", "register", "reinterpret_cast",
   "requires", "return", "short", "signed", "sizeof", "static", "static_assert", "static_cast", "struct",
   "switch", "template", "this", "thread_local", "throw", "true", "try", "typedef", "typeid", "typename",
   "union", "unsigned", "using", "virtual", "void", "volatile", "wchar_t", "while", "xor", "xor_eq"]

def isCppKeyword (s : String) : Bool := cppKeywords.contains s
def isReservedCppNamespace (s : String) : Bool := s == "std" || s == "posix"

/-! ### parser: what can fail on an AST -/

def fitsBits (v : Nat) (bits : Nat) : Bool := decide (v < 2 ^ bits)
def optFits (v : Option Nat) (bits : Nat) : Bool := match v with | some x => fitsBits x bits | none => true

/-- `get_added_since`, `get_deprecated_since` (both `version_t`) -/
def pVersions (a : Attrs) (p : Path) : R Unit := do
  need (fitsBits a.since 64) .attrNotNumeric p
  need (optFits a.deprecated 64) .attrNotNumeric p

/-- `unique_set::add_or_throw` over a sequence of names -/
def uniqueNames (c : DiagClass) (pathOf : String → Path) : List String → List String → R Unit
  | _, [] => .ok ()
  | seen, n :: rest => if seen.contains n then fail c (pathOf n) else uniqueNames c pathOf (n :: seen) rest

def pType (p : Path) (t : TypeDef) : R Unit := do
  need (!t.name.isEmpty) .attrEmpty p
  need (fitsBits t.length 64) .attrNotNumeric p
  need (optFits t.offset 64) .attrNotNumeric p
  need (!t.prim.isEmpty) .attrEmpty p
  pVersions t.attrs p

/-- `get_enum_valid_values`: each value is parsed, then added to the unique set -/
def pValidValues (p : Path) : List String → List ValidValue → R Unit
  | _, [] => .ok ()
  | seen, v :: rest => do
    let vp := p ++ [v.name]
    need (!v.name.isEmpty) .attrEmpty vp
    pVersions v.attrs vp
    need (!v.value.isEmpty) .nodeContentEmpty vp
    need (!seen.contains v.name) .duplicateValidValue vp
    pValidValues p (v.name :: seen) rest

def pChoices (p : Path) : List String → List Choice → R Unit
  | _, [] => .ok ()
  | seen, c :: rest => do
    let cp := p ++ [c.name]
    need (!c.name.isEmpty) .attrEmpty cp
    pVersions c.attrs cp
    need (fitsBits c.index 8) .choiceIndexNotNumeric cp
    need (!seen.contains c.name) .duplicateChoice cp
    pChoices p (c.name :: seen) rest

mutual
  def pElem (p : Path) : Elem → R Unit
    | .type t => pType p t
    | .enum n enc o vs a => do
      need (!n.isEmpty) .attrEmpty p
      need (!enc.isEmpty) .attrEmpty p
      pVersions a p
      need (optFits o 64) .attrNotNumeric p
      pValidValues p [] vs
    | .set n enc o cs a => do
      need (!n.isEmpty) .attrEmpty p
      need (!enc.isEmpty) .attrEmpty p
      pVersions a p
      need (optFits o 64) .attrNotNumeric p
      pChoices p [] cs
    | .ref n ty o a => do
      need (!n.isEmpty) .attrEmpty p
      need (!ty.isEmpty) .attrEmpty p
      need (optFits o 64) .attrNotNumeric p
      pVersions a p
    | .composite n o elems a => do
      need (!n.isEmpty) .attrEmpty p
      need (optFits o 64) .attrNotNumeric p
      pVersions a p
      pElems p [] elems
  /-- `parse_composite_elements`: parse, then `unique_element_names.add_or_throw` -/
  def pElems (p : Path) : List String → List Elem → R Unit
    | _, [] => .ok ()
    | seen, e :: rest => do
      pElem (p ++ [e.name]) e
      need (!seen.contains e.name) .duplicateCompositeElement (p ++ [e.name])
      pElems p (e.name :: seen) rest
end

/-- `parse_types_node` + `add_unique_type` (case-insensitive) -/
def pTypes : List String → List Elem → R Unit
  | _, [] => .ok ()
  | seen, e :: rest => do
    pElem ["types", e.name] e
    need (!seen.contains e.name.toLower) .duplicateEncoding ["types", e.name]
    pTypes (e.name.toLower :: seen) rest

def pField (lp : Path) (f : FieldDef) : R Unit := do
  let p := lp ++ [f.name]
  need (!f.name.isEmpty) .attrEmpty p
  need (fitsBits f.id 16) .attrNotNumeric p
  need (!f.type.isEmpty) .attrEmpty p
  need (optFits f.offset 64) .attrNotNumeric p
  pVersions f.attrs p

def pData (lp : Path) (d : DataDef) : R Unit := do
  let p := lp ++ [d.name]
  need (!d.name.isEmpty) .attrEmpty p
  need (fitsBits d.id 16) .attrNotNumeric p
  need (!d.type.isEmpty) .attrEmpty p
  pVersions d.attrs p

def pFields (lp : Path) : List String → List FieldDef → R (List String)
  | seen, [] => .ok seen
  | seen, f :: rest => do
    pField lp f
    need (!seen.contains f.name) .duplicateMemberName (lp ++ [f.name])
    pFields lp (f.name :: seen) rest

def pDatas (lp : Path) : List String → List DataDef → R Unit
  | _, [] => .ok ()
  | seen, d :: rest => do
    pData lp d
    need (!seen.contains d.name) .duplicateMemberName (lp ++ [d.name])
    pDatas lp (d.name :: seen) rest

mutual
  /-- `parse_group_member` -/
  def pGroup (lp : Path) : GroupDef → R Unit
    | .mk n id _ bl fields groups datas a => do
      let p := lp ++ [n]
      need (!n.isEmpty) .attrEmpty p
      need (fitsBits id 16) .attrNotNumeric p
      need (optFits bl 64) .attrNotNumeric p
      pVersions a p
      let seen ← pFields p [] fields
      let seen ← pGroups p seen groups
      pDatas p seen datas
  def pGroups (lp : Path) : List String → List GroupDef → R (List String)
    | seen, [] => .ok seen
    | seen, g :: rest => do
      pGroup lp g
      need (!seen.contains (Spec.Rules.gName g)) .duplicateMemberName (lp ++ [Spec.Rules.gName g])
      pGroups lp (Spec.Rules.gName g :: seen) rest
end

/-- `parse_message_node` + `add_unique_message` -/
def pMessages : List String → List Nat → List MessageDef → R Unit
  | _, _, [] => .ok ()
  | names, ids, m :: rest => do
    let p := ["messages", m.name]
    need (!m.name.isEmpty) .attrEmpty p
    need (fitsBits m.id 32) .attrNotNumeric p
    need (optFits m.blockLength 64) .attrNotNumeric p
    pVersions m.attrs p
    let seen ← pFields p [] m.fields
    let seen ← pGroups p seen m.groups
    pDatas p seen m.datas
    need (!names.contains m.name) .duplicateMessageName p
    need (!ids.contains m.id) .duplicateMessageId p
    pMessages (m.name :: names) (m.id :: ids) rest

/-- `parse_message_schema` (id, version), then the children in document order
    (the renderer emits `<types>` before the messages) -/
def parsePhase (s : SchemaDef) : R Unit := do
  need (fitsBits s.id 32) .attrNotNumeric ["schema"]
  need (fitsBits s.version 64) .attrNotNumeric ["schema"]
  pTypes [] s.types
  pMessages [] [] s.messages

/-! ### `sbe_schema_validator`: encodings -/

def vName (n : String) (p : Path) : R Unit := need (isSbeSymbolicName n) .invalidName p

/-- `utils::parse_value_ref`: split at the first `.` -/
def parseValueRef (r : String) : String × String :=
  let cs := r.toList
  let a := cs.takeWhile (· != '.')
  if a.length = cs.length then ("", "") else (String.ofList a, String.ofList (cs.drop (a.length + 1)))

/-- `find_value_ref`: (enum name, enum encodingType, valid value) -/
def findValueRef (types : List Elem) (ref : String) (p : Path) : R (String × String × ValidValue) :=
  let (en, vn) := parseValueRef ref
  if en.isEmpty || vn.isEmpty then fail .badValueRef p
  else match lookup types en with
    | none => fail .unknownEncoding p
    | some (.enum n enc _ vs _) =>
      (match vs.find? (fun v => v.name == vn) with
       | none => fail .noSuchValidValue p
       | some v => .ok (n, enc, v))
    | some _ => fail .notAnEnum p

/-- `std::to_string(static_cast<int>(value[0]))` -/
def firstCharAsIntString (v : String) : String :=
  match v.toUTF8.data.toList with
  | b :: _ => toString (if b.toNat < 128 then (b.toNat : Int) else (b.toNat : Int) - 256)
  | [] => "0"

/-- `get_enum_primitive_type`: the enum's `encodingType` is a primitive type or names a `<type>` -/
def getEnumPrimitiveType (types : List Elem) (encType : String) : String :=
  if !isPrimitive encType then
    match lookup types encType with
    | some (.type t) => t.prim
    | _ => encType
  else encType

/-- `value_ref_fits_into_type` -/
def valueRefFitsIntoType (types : List Elem) (encType : String) (v : ValidValue) (prim : String) : Bool :=
  if getEnumPrimitiveType types encType == "char" then valueFitsIntoType (firstCharAsIntString v.value) prim
  else valueFitsIntoType v.value prim

def vOptionalValue (v : Option String) (prim : String) (p : Path) : R Unit :=
  match v with
  | some x => need (valueFitsIntoType x prim) .valueOutOfRange p
  | none => .ok ()

/-- `validate_constant_value` -/
def vConstantValue (types : List Elem) (p : Path) (t : TypeDef) : R Unit := do
  need (t.valueRef.isSome != t.constValue.isSome) .constantWithoutValue p
  (match t.valueRef with
   | some r => do
     let (_, enc, v) ← findValueRef types r p
     need (valueRefFitsIntoType types enc v t.prim) .valueRefOutOfRange p
   | none =>
     if t.prim == "char" then need (!(t.length < (t.constValue.getD "").utf8ByteSize)) .constantTooLong p
     else need (valueFitsIntoType (t.constValue.getD "") t.prim) .valueOutOfRange p)
  need (!((t.valueRef.isSome || t.prim != "char") && t.length != 1)) .nonCharConstantLength p

/-- `validate_encoding(const sbe::type&)`; returns `context.size` -/
def vType (types : List Elem) (p : Path) (t : TypeDef) : R Nat := do
  vName t.name p
  need (isPrimitive t.prim) .unknownPrimitiveType p
  (if t.presence == .constant then vConstantValue types p t
   else if t.length == 1 then do
     vOptionalValue t.minValue t.prim p
     vOptionalValue t.maxValue t.prim p
     if t.presence == .optional then vOptionalValue t.nullValue t.prim p else .ok ()
   else need (isSingleByteType t.prim) .arrayNotSingleByte p)
  .ok (t.length * (primSize? t.prim).getD 0)

/-- the `encodingType` part shared by enums and sets; yields the primitive type
    (of a named type: whatever its `primitiveType` attribute says, unvalidated) -/
def vEncodingType (types : List Elem) (p : Path) (enc : String) : R String :=
  if isPrimitive enc then .ok enc
  else match lookup types enc with
    | none => fail .unknownEncoding p
    | some (.type t) => if t.length != 1 then fail .encodingTypeLength p else .ok t.prim
    | some _ => fail .notAType p

def vValidValue (prim : String) (p : Path) (v : ValidValue) : R Unit := do
  let vp := p ++ [v.name]
  vName v.name vp
  let isChar := prim == "char"
  let wrongChar := isChar && v.value.utf8ByteSize != 1
  need (!(wrongChar || (!isChar && !valueFitsIntoType v.value prim))) .valueOutOfRange vp

/-- `utils::strip_leading_zeros` -/
def stripLeadingZeros (value : List Char) : List Char :=
  let isNegative := value.head? == some '-'
  let digits := if isNegative then value.drop 1 else value
  let digits := match digits.dropWhile (· == '0') with
    | [] => digits.getLast?.toList      -- all zeros: the last one stays
    | r => r
  (if isNegative then ['-'] else []) ++ digits

/-- the key of `unique_values`: `1`, `01` and `-0`, `0` represent the same value -/
def normalizedEnumValue (prim : String) (v : ValidValue) : String :=
  if prim == "char" then v.value
  else
    let n := stripLeadingZeros v.value.toList
    String.ofList (if n == ['-', '0'] then ['0'] else n)

/-- the loop of `validate_valid_values` -/
def vValidValues (prim : String) (p : Path) : List String → List ValidValue → R Unit
  | _, [] => .ok ()
  | seen, v :: rest => do
    vValidValue prim p v
    need (!seen.contains (normalizedEnumValue prim v)) .duplicateEnumValue (p ++ [v.name])
    vValidValues prim p (normalizedEnumValue prim v :: seen) rest

def vEnum (types : List Elem) (p : Path) (n enc : String) (vs : List ValidValue) : R Nat := do
  vName n p
  let prim ← vEncodingType types p enc
  need (isIntegralType prim) .enumTypeNotIntegral p
  vValidValues prim p [] vs
  .ok ((primSize? prim).getD 0)

def vChoice (bitLength : Nat) (p : Path) (c : Choice) : R Unit := do
  let cp := p ++ [c.name]
  vName c.name cp
  need (!(c.index > bitLength)) .choiceIndexOutOfRange cp

def vSet (types : List Elem) (p : Path) (n enc : String) (cs : List Choice) : R Nat := do
  vName n p
  let prim ← vEncodingType types p enc
  need (isUnsignedPrimitiveType prim) .setTypeNotUnsigned p
  allOk (vChoice ((primSize? prim).getD 0 * 8 - 1) p) cs
  .ok ((primSize? prim).getD 0)

/-- the end of `validate_element_offset` / `validate_field_offset`: `current_offset += enc_size` must not leave
    `offset_t` (fix 0032) -/
def vAdvance (p : Path) (off sz : Nat) : R Nat :=
  if offsetMax < off + sz then fail .offsetOverflow p else .ok (off + sz)

/-- `validate_element_offset`: next running offset -/
def vElementOffset (types : List Elem) (p : Path) (e : Elem) (cur sz : Nat) : R Nat :=
  if isConstElem types e then .ok cur
  else match e.offset with
    | some o => if o < cur then fail .offsetTooSmall p else vAdvance p o sz
    | none => vAdvance p cur sz

mutual
  /-- `validate_encoding` for the five kinds.  `vis` = names whose
      `encoding_processing_states` entry is `in_progress`; `jump` validates a
      public encoding reached through a `<ref>` -/
  def vElemWith (types : List Elem) (jump : List String → Elem → R Nat) (vis : List String) (p : Path) :
      Elem → R Nat
    | .type t => vType types p t
    | .enum n enc _ vs _ => vEnum types p n enc vs
    | .set n enc _ cs _ => vSet types p n enc cs
    | .ref n ty _ _ => do
      vName n p
      match lookup types ty with
      | none => fail .unknownEncoding p
      | some target =>
        -- `validate_public_encoding`
        if vis.contains target.name then fail .cyclicReference ["types", target.name]
        else jump (target.name :: vis) target
    | .composite n _ elems _ => do
      vName n p
      vElemsWith types jump vis p 0 elems
  def vElemsWith (types : List Elem) (jump : List String → Elem → R Nat) (vis : List String) (p : Path) :
      Nat → List Elem → R Nat
    | cur, [] => .ok cur
    | cur, e :: rest => do
      let sz ← vElemWith types jump vis (p ++ [e.name]) e
      let cur' ← vElementOffset types (p ++ [e.name]) e cur sz
      vElemsWith types jump vis p cur' rest
end

/-- `validate_public_encoding` once the name has been entered as in-progress;
    the fuel counts `<ref>` jumps (at most one per public type: `fuel_never_exhausted`) -/
def vPublic (types : List Elem) : Nat → List String → Elem → R Nat
  | 0, _, e => fail .fuelExhausted ["types", e.name]
  | k + 1, vis, e => vElemWith types (vPublic types k) vis ["types", e.name] e

/-- validation of one public encoding starting from an empty state map -/
def vRoot (types : List Elem) (t : Elem) : R Nat := vPublic types (types.length + 1) [t.name] t

/-- `context_manager::get(enc).size` after `validate_types` -/
def encSize (types : List Elem) (t : Elem) : Nat :=
  match vRoot types t with
  | .ok n => n
  | .error _ => 0

def firstErrors {α} (f : α → R Nat) (l : List α) : List Diag :=
  l.filterMap (fun x => match f x with | .error d => some d | .ok _ => none)

/-- first diagnostic in document order, with the set the hash order chooses from -/
def anyOrder (errs : List Diag) : R Unit :=
  match errs with
  | [] => .ok ()
  | d :: _ => .error { d with alts := (errs.map (fun e => (e.cls, e.loc))).eraseDups }

/-- `validate_types`: iterates an `unordered_map` -/
def typesPhase (s : SchemaDef) : R Unit := anyOrder (firstErrors (vRoot s.types) s.types)

/-! ### what `validate_types` left in the contexts of a composite's members -/

/-- `get_primitive_type_size` of the primitive type behind an `encodingType` -/
def encPrimSize (types : List Elem) (enc : String) : Nat :=
  if isPrimitive enc then (primSize? enc).getD 0
  else match lookup types enc with
    | some (.type t) => (primSize? t.prim).getD 0
    | _ => 0

mutual
  /-- `context.size` as the five `validate_encoding` overloads assign it -/
  def ctxSize (types : List Elem) : Elem → Nat
    | .type t => t.length * (primSize? t.prim).getD 0
    | .enum _ enc _ _ _ => encPrimSize types enc
    | .set _ enc _ _ _ => encPrimSize types enc
    | .ref _ ty _ _ =>
      (match lookup types ty with
       | some t => encSize types t
       | none => 0)
    | .composite _ _ elems _ => ctxEnd types 0 elems
  /-- the running `offset` of `validate_encoding(composite)` behind these members -/
  def ctxEnd (types : List Elem) (cur : Nat) : List Elem → Nat
    | [] => cur
    | e :: rest =>
      if isConstElem types e then ctxEnd types cur rest
      else ctxEnd types (e.offset.getD cur + ctxSize types e) rest
end

/-- `context.offset_in_composite` of the first member called `name` (`find_composite_element`);
    a constant member has none: `value_or(0)` -/
def ctxMemberOffset (types : List Elem) (name : String) (cur : Nat) : List Elem → Nat
  | [] => 0
  | e :: rest =>
    if isConstElem types e then (if e.name == name then 0 else ctxMemberOffset types name cur rest)
    else if e.name == name then e.offset.getD cur
    else ctxMemberOffset types name (e.offset.getD cur + ctxSize types e) rest

/-! ### level headers -/

/-- `get_level_header_element`: the `<type>` behind member `name` and the member's path -/
def levelHeaderElement (types : List Elem) (hp : Path) (elems : List Elem) (name : String) : R (TypeDef × Path) :=
  match elems.find? (fun e => e.name == name) with
  | none => fail .headerMissingElement hp
  | some (.type t) => .ok (t, hp ++ [t.name])
  | some (.ref n ty _ _) =>
    (match lookup types ty with
     | some (.type t) => .ok (t, hp ++ [n])
     | _ => fail .headerElementRefKind (hp ++ [n]))
  | some e => fail .headerElementKind (hp ++ [e.name])

/-- `validate_level_header_element` -/
def vLevelHeaderElement (types : List Elem) (hp : Path) (elems : List Elem) (name : String) : R Unit := do
  let (t, ep) ← levelHeaderElement types hp elems name
  need (t.length == 1) .headerElementArray ep
  need (t.presence != .constant) .headerElementConstant ep
  need (isIntegralType t.prim) .headerElementNotInteger ep

/-- `validate_level_header` -/
def vLevelHeader (types : List Elem) (user : Path) (hdr : String) (required : List String) : R Unit :=
  match lookup types hdr with
  | none => fail .headerUnknown user
  | some (.composite n _ elems _) => do
    allOk (vLevelHeaderElement types ["types", n] elems) required
    -- optional elements, the header fillers set them if they exist
    allOk (fun field =>
      if (elems.find? (fun e => e.name == field)).isSome then vLevelHeaderElement types ["types", n] elems field
      else .ok ()) ["numGroups", "numVarDataFields"]
  | some e => fail .headerNotComposite ["types", e.name]

/-- `validate_header_value`: what a header filler writes must be representable by the element -/
def vHeaderValue (types : List Elem) (hdr name : String) (value : Nat) (loc : Path) : R Unit :=
  match lookup types hdr with
  | some (.composite n _ elems _) =>
    if (elems.find? (fun e => e.name == name)).isNone then .ok ()
    else do
      let (t, _) ← levelHeaderElement types ["types", n] elems name
      need (valueFitsIntoType (toString value) t.prim) .headerValueOutOfRange loc
  | _ => .ok ()   -- (`std::get` on a header that was validated before)

/-- `validate_data_header` -/
def vDataHeader (types : List Elem) (user : Path) (hdr : String) : R Unit :=
  match lookup types hdr with
  | none => fail .headerUnknown user
  | some (.composite n o elems a) => do
    vLevelHeaderElement types ["types", n] elems "length"
    let (t, ep) ← levelHeaderElement types ["types", n] elems "varData"
    need (t.length == 0) .varDataLength ep
    -- `validate_data_header_layout`
    let (lt, lp) ← levelHeaderElement types ["types", n] elems "length"
    need (!(ctxMemberOffset types "length" 0 elems != 0
            || encSize types (.composite n o elems a) != (primSize? lt.prim).getD 0)) .dataHeaderLayout lp
  | some e => fail .headerNotComposite ["types", e.name]

/-! ### members -/

/-- `validate_constant_field` -/
def vConstantField (types : List Elem) (p : Path) (f : FieldDef) : R Unit :=
  if isPrimitive f.type then
    -- `validate_value_ref2`
    match f.valueRef with
    | none => fail .fieldConstantWithoutValueRef p
    | some r => do
      let (_, enc, v) ← findValueRef types r p
      need (valueRefFitsIntoType types enc v f.type) .valueRefOutOfRange p
  else match lookup types f.type with
    | some (.composite _ _ _ _) => fail .compositeFieldConstant p
    | some (.enum _ _ _ _ _) =>
      -- `validate_value_ref3`
      (match f.valueRef with
       | none => fail .fieldConstantWithoutValueRef p
       | some r => do
         let (n, _, _) ← findValueRef types r p
         need (f.type.toLower == n.toLower) .enumConstantTypeMismatch p)
    | _ => .ok ()

/-- the head of the field loop of `validate_members`: `context.size` and the actual presence -/
def fieldInfo (types : List Elem) (p : Path) (f : FieldDef) : R (Nat × Presence) :=
  if !isPrimitive f.type then
    match lookup types f.type with
    | none => fail .unknownFieldType p
    | some enc =>
      (match actualPresence types f with
       | .ok pr => .ok (encSize types enc, pr)
       | .error _ => fail .unknownFieldType p)
  else .ok ((primSize? f.type).getD 0, f.presence)

/-- the field loop of `validate_members`; returns the final running offset -/
def vFields (types : List Elem) (lp : Path) : Nat → List FieldDef → R Nat
  | cur, [] => .ok cur
  | cur, f :: rest => do
    vName f.name (lp ++ [f.name])
    let info ← fieldInfo types (lp ++ [f.name]) f
    if info.2 == .constant then do
      vConstantField types (lp ++ [f.name]) f
      vFields types lp cur rest
    else
      -- `validate_field_offset`
      match f.offset with
      | some o =>
        if o < cur then fail .offsetTooSmall (lp ++ [f.name])
        else do
          let next ← vAdvance (lp ++ [f.name]) o info.1
          vFields types lp next rest
      | none => do
        let next ← vAdvance (lp ++ [f.name]) cur info.1
        vFields types lp next rest

def vDatas (types : List Elem) (lp : Path) : List DataDef → R Unit
  | [] => .ok ()
  | d :: rest => do
    vName d.name (lp ++ [d.name])
    vDataHeader types (lp ++ [d.name]) d.type
    vDatas types lp rest

/-- `validate_block_length` and the two counters of `validate_members` -/
def vLevelValues (types : List Elem) (hdr : String) (p : Path) (bl : Option Nat) (off nGroups nDatas : Nat) : R Unit :=
  match blockLength bl off with
  | .error _ => fail .blockLengthTooSmall p
  | .ok b => do
    vHeaderValue types hdr "blockLength" b p
    vHeaderValue types hdr "numGroups" nGroups p
    vHeaderValue types hdr "numVarDataFields" nDatas p

mutual
  /-- `validate_members` of a group (after its name and header) -/
  def vGroup (types : List Elem) (lp : Path) : GroupDef → R Unit
    | .mk n _ dim bl fields groups datas _ => do
      let p := lp ++ [n]
      vName n p
      vLevelHeader types p dim ["numInGroup", "blockLength"]
      let off ← vFields types p 0 fields
      vLevelValues types dim p bl off groups.length datas.length
      vGroups types p groups
      vDatas types p datas
  def vGroups (types : List Elem) (lp : Path) : List GroupDef → R Unit
    | [] => .ok ()
    | g :: rest => do
      vGroup types lp g
      vGroups types lp rest
end

/-- `validate_message` -/
def vMessage (types : List Elem) (hdr : String) (m : MessageDef) : R Unit := do
  let p := ["messages", m.name]
  vName m.name p
  vHeaderValue types hdr "templateId" m.id p
  let off ← vFields types p 0 m.fields
  vLevelValues types hdr p m.blockLength off m.groups.length m.datas.length
  vGroups types p m.groups
  vDatas types p m.datas

/-- `validate_messages` -/
def messagesPhase (s : SchemaDef) : R Unit := do
  vLevelHeader s.types ["schema"] s.headerType ["schemaId", "templateId", "version", "blockLength"]
  vHeaderValue s.types s.headerType "schemaId" s.id ["schema"]
  vHeaderValue s.types s.headerType "version" s.version ["schema"]
  allOk (vMessage s.types s.headerType) s.messages

/-! ### `sbe_schema_cpp_validator` -/

def cName (n : String) (p : Path) : R Unit := need (!isCppKeyword n) .keywordName p

mutual
  def cElem (p : Path) : Elem → R Nat
    | .type t => do cName t.name p; .ok 0
    | .enum n _ _ vs _ => do
      cName n p
      allOk (fun v => cName v.name (p ++ [v.name])) vs
      .ok 0
    | .set n _ _ cs _ => do
      cName n p
      allOk (fun c => cName c.name (p ++ [c.name])) cs
      .ok 0
    | .ref n _ _ _ => do cName n p; .ok 0
    | .composite n _ elems _ => do
      cName n p
      cElems p elems
  def cElems (p : Path) : List Elem → R Nat
    | [] => .ok 0
    | e :: rest => do
      let _ ← cElem (p ++ [e.name]) e
      cElems p rest
end

mutual
  def cGroup (lp : Path) : GroupDef → R Unit
    | .mk n _ _ _ fields groups datas _ => do
      let p := lp ++ [n]
      cName n p
      allOk (fun f => cName f.name (p ++ [f.name])) fields
      cGroups p groups
      allOk (fun d => cName d.name (p ++ [d.name])) datas
  def cGroups (lp : Path) : List GroupDef → R Unit
    | [] => .ok ()
    | g :: rest => do
      cGroup lp g
      cGroups lp rest
end

def cMessage (m : MessageDef) : R Unit := do
  let p := ["messages", m.name]
  cName m.name p
  allOk (fun f => cName f.name (p ++ [f.name])) m.fields
  cGroups p m.groups
  allOk (fun d => cName d.name (p ++ [d.name])) m.datas

def cppPhase (s : SchemaDef) : R Unit := do
  -- `validate_schema_name` (no `--schema-name` option)
  need (!(!isSbeSymbolicName s.package || isCppKeyword s.package || isReservedCppNamespace s.package))
    .badSchemaName ["schema"]
  -- `validate_type_names`: iterates the `unordered_map`
  anyOrder (firstErrors (fun t => cElem ["types", t.name] t) s.types)
  allOk cMessage s.messages

/-- parser, `sbe_schema_validator::validate`, `sbe_schema_cpp_validator::validate` -/
def check (s : SchemaDef) : R Unit := do
  parsePhase s
  typesPhase s
  messagesPhase s
  cppPhase s

end Sbepp.Schema.Rules
