/-
  The schema as sbeppc's parser hands it to the validator (mirrors
  `sbe.hpp`, restricted to what layout, wire image, header fillers, traits and
  visiting depend on), and its decoding from the S-expression transport.
-/
import Sbepp.Base.SExp
import Sbepp.Base.Bytes

namespace Sbepp.Schema
open Sbepp

inductive Presence | required | optional | constant
  deriving DecidableEq, Repr, Inhabited

/-- descriptive attributes every schema entity may carry (free text travels
    hex-encoded as `x<hex of UTF-8>` atoms) -/
structure Attrs where
  description : String := ""
  since : Nat := 0
  deprecated : Option Nat := none
  semanticType : String := ""
  deriving Repr, Inhabited, DecidableEq

structure TypeDef where
  name : String
  prim : String
  length : Nat
  presence : Presence
  offset : Option Nat
  minValue : Option String := none
  maxValue : Option String := none
  nullValue : Option String := none
  constValue : Option String := none
  valueRef : Option String := none
  characterEncoding : Option String := none
  attrs : Attrs := {}
  deriving Repr, Inhabited

structure ValidValue where
  name : String
  value : String
  attrs : Attrs := {}
  deriving Repr, Inhabited

structure Choice where
  name : String
  index : Nat
  attrs : Attrs := {}
  deriving Repr, Inhabited

inductive Elem
  | type (t : TypeDef)
  | composite (name : String) (offset : Option Nat) (elems : List Elem) (attrs : Attrs := {})
  | ref (name : String) (type : String) (offset : Option Nat) (attrs : Attrs := {})
  | enum (name : String) (encType : String) (offset : Option Nat) (values : List ValidValue := []) (attrs : Attrs := {})
  | set (name : String) (encType : String) (offset : Option Nat) (choices : List Choice := []) (attrs : Attrs := {})
  deriving Repr, Inhabited

def Elem.name : Elem → String
  | .type t => t.name
  | .composite n _ _ _ => n
  | .ref n _ _ _ => n
  | .enum n _ _ _ _ => n
  | .set n _ _ _ _ => n

structure FieldDef where
  name : String
  id : Nat
  type : String
  offset : Option Nat
  presence : Presence
  valueRef : Option String := none
  attrs : Attrs := {}
  deriving Repr, Inhabited

structure DataDef where
  name : String
  id : Nat
  type : String
  attrs : Attrs := {}
  deriving Repr, Inhabited

inductive GroupDef
  | mk (name : String) (id : Nat) (dimType : String) (blockLength : Option Nat)
       (fields : List FieldDef) (groups : List GroupDef) (datas : List DataDef) (attrs : Attrs := {})
  deriving Repr, Inhabited

structure MessageDef where
  name : String
  id : Nat
  blockLength : Option Nat
  fields : List FieldDef
  groups : List GroupDef
  datas : List DataDef
  attrs : Attrs := {}
  deriving Repr, Inhabited

structure SchemaDef where
  package : String
  id : Nat
  version : Nat
  semanticVersion : String := ""
  description : String := ""
  byteOrder : ByteOrder
  headerType : String
  types : List Elem
  messages : List MessageDef
  deriving Repr, Inhabited

/-! ### decoding from S-expressions -/

def parsePresence (s : Option String) : Presence :=
  match s with
  | some "optional" => .optional
  | some "constant" => .constant
  | _ => .required

/-- text attribute: `x<hex of UTF-8 bytes>` -/
def textField? (e : SExp) (key : String) : Option String :=
  match e.atomField? key with
  | some a =>
    if a.startsWith "x" then
      (SExp.unhex (a.drop 1).toString).bind (fun bs =>
        String.fromUTF8? (ByteArray.mk (bs.map (fun b => b.toUInt8)).toArray))
    else none
  | none => none

def parseAttrs (e : SExp) : Attrs :=
  { description := (textField? e "desc").getD "", since := (e.natField? "since").getD 0,
    deprecated := e.natField? "deprecated", semanticType := (textField? e "semanticType").getD "" }

def parseType (e : SExp) : Option TypeDef := do
  let name ← e.atomField? "name"
  let prim ← e.atomField? "prim"
  some { name, prim, length := (e.natField? "length").getD 1,
         presence := parsePresence (e.atomField? "presence"), offset := e.natField? "offset",
         minValue := textField? e "min", maxValue := textField? e "max", nullValue := textField? e "null",
         constValue := textField? e "const", valueRef := textField? e "valueRef",
         characterEncoding := textField? e "charEnc", attrs := parseAttrs e }

partial def parseElem (e : SExp) : Option Elem := do
  match e.head? with
  | some "type" => (parseType e).map Elem.type
  | some "composite" =>
    let name ← e.atomField? "name"
    let elems ← (e.listField "elems").mapM parseElem
    some (.composite name (e.natField? "offset") elems (parseAttrs e))
  | some "ref" => some (.ref (← e.atomField? "name") (← e.atomField? "type") (e.natField? "offset") (parseAttrs e))
  | some "enum" =>
    let values := (e.listField "values").filterMap (fun v => do
      some { name := ← v.atomField? "name", value := (textField? v "value").getD "", attrs := parseAttrs v })
    some (.enum (← e.atomField? "name") (← e.atomField? "enc") (e.natField? "offset") values (parseAttrs e))
  | some "set" =>
    let choices := (e.listField "choices").filterMap (fun v => do
      some { name := ← v.atomField? "name", index := (v.natField? "index").getD 0, attrs := parseAttrs v })
    some (.set (← e.atomField? "name") (← e.atomField? "enc") (e.natField? "offset") choices (parseAttrs e))
  | _ => none

def parseField (e : SExp) : Option FieldDef := do
  some { name := ← e.atomField? "name", id := (e.natField? "id").getD 0, type := ← e.atomField? "type",
         offset := e.natField? "offset", presence := parsePresence (e.atomField? "presence"),
         valueRef := textField? e "valueRef", attrs := parseAttrs e }

def parseData (e : SExp) : Option DataDef := do
  some { name := ← e.atomField? "name", id := (e.natField? "id").getD 0, type := ← e.atomField? "type",
         attrs := parseAttrs e }

partial def parseGroup (e : SExp) : Option GroupDef := do
  let fields ← (e.listField "fields").mapM parseField
  let groups ← (e.listField "groups").mapM parseGroup
  let datas ← (e.listField "datas").mapM parseData
  some (.mk (← e.atomField? "name") ((e.natField? "id").getD 0) (← e.atomField? "dim")
    (e.natField? "blockLength") fields groups datas (parseAttrs e))

def parseMessage (e : SExp) : Option MessageDef := do
  let fields ← (e.listField "fields").mapM parseField
  let groups ← (e.listField "groups").mapM parseGroup
  let datas ← (e.listField "datas").mapM parseData
  some { name := ← e.atomField? "name", id := (e.natField? "id").getD 0,
         blockLength := e.natField? "blockLength", fields, groups, datas, attrs := parseAttrs e }

def parseSchema (e : SExp) : Option SchemaDef := do
  let types ← (e.listField "types").mapM parseElem
  let messages ← (e.listField "messages").mapM parseMessage
  some { package := (e.atomField? "package").getD "", id := (e.natField? "id").getD 0,
         version := (e.natField? "version").getD 0,
         semanticVersion := (textField? e "semanticVersion").getD "",
         description := (textField? e "desc").getD "",
         byteOrder := if e.atomField? "byteOrder" = some "bigEndian" then .big else .little,
         headerType := (e.atomField? "headerType").getD "messageHeader", types, messages }

end Sbepp.Schema
