/-
  The schema as sbeppc's parser hands it to the validator (mirrors
  `sbe.hpp`, restricted to what layout, wire image, header fillers, traits and
  visiting depend on), and its decoding from the S-expression transport.
-/
import Sbepp.Base.SExp
import Sbepp.Base.Bytes

namespace Sbepp.Schema
open Sbepp

inductive Presence | required | optional | constant
  deriving DecidableEq, Repr, Inhabited

structure TypeDef where
  name : String
  prim : String
  length : Nat
  presence : Presence
  offset : Option Nat
  deriving Repr, Inhabited

inductive Elem
  | type (t : TypeDef)
  | composite (name : String) (offset : Option Nat) (elems : List Elem)
  | ref (name : String) (type : String) (offset : Option Nat)
  | enum (name : String) (encType : String) (offset : Option Nat)
  | set (name : String) (encType : String) (offset : Option Nat)
  deriving Repr, Inhabited

def Elem.name : Elem → String
  | .type t => t.name
  | .composite n _ _ => n
  | .ref n _ _ => n
  | .enum n _ _ => n
  | .set n _ _ => n

structure FieldDef where
  name : String
  id : Nat
  type : String
  offset : Option Nat
  presence : Presence
  deriving Repr, Inhabited

structure DataDef where
  name : String
  id : Nat
  type : String
  deriving Repr, Inhabited

inductive GroupDef
  | mk (name : String) (id : Nat) (dimType : String) (blockLength : Option Nat)
       (fields : List FieldDef) (groups : List GroupDef) (datas : List DataDef)
  deriving Repr, Inhabited

structure MessageDef where
  name : String
  id : Nat
  blockLength : Option Nat
  fields : List FieldDef
  groups : List GroupDef
  datas : List DataDef
  deriving Repr, Inhabited

structure SchemaDef where
  package : String
  id : Nat
  version : Nat
  byteOrder : ByteOrder
  headerType : String
  types : List Elem
  messages : List MessageDef
  deriving Repr, Inhabited

/-! ### decoding from S-expressions -/

def parsePresence (s : Option String) : Presence :=
  match s with
  | some "optional" => .optional
  | some "constant" => .constant
  | _ => .required

def parseType (e : SExp) : Option TypeDef := do
  let name ← e.atomField? "name"
  let prim ← e.atomField? "prim"
  some { name, prim, length := (e.natField? "length").getD 1,
         presence := parsePresence (e.atomField? "presence"), offset := e.natField? "offset" }

partial def parseElem (e : SExp) : Option Elem := do
  match e.head? with
  | some "type" => (parseType e).map Elem.type
  | some "composite" =>
    let name ← e.atomField? "name"
    let elems ← (e.listField "elems").mapM parseElem
    some (.composite name (e.natField? "offset") elems)
  | some "ref" => some (.ref (← e.atomField? "name") (← e.atomField? "type") (e.natField? "offset"))
  | some "enum" => some (.enum (← e.atomField? "name") (← e.atomField? "enc") (e.natField? "offset"))
  | some "set" => some (.set (← e.atomField? "name") (← e.atomField? "enc") (e.natField? "offset"))
  | _ => none

def parseField (e : SExp) : Option FieldDef := do
  some { name := ← e.atomField? "name", id := (e.natField? "id").getD 0, type := ← e.atomField? "type",
         offset := e.natField? "offset", presence := parsePresence (e.atomField? "presence") }

def parseData (e : SExp) : Option DataDef := do
  some { name := ← e.atomField? "name", id := (e.natField? "id").getD 0, type := ← e.atomField? "type" }

partial def parseGroup (e : SExp) : Option GroupDef := do
  let fields ← (e.listField "fields").mapM parseField
  let groups ← (e.listField "groups").mapM parseGroup
  let datas ← (e.listField "datas").mapM parseData
  some (.mk (← e.atomField? "name") ((e.natField? "id").getD 0) (← e.atomField? "dim")
    (e.natField? "blockLength") fields groups datas)

def parseMessage (e : SExp) : Option MessageDef := do
  let fields ← (e.listField "fields").mapM parseField
  let groups ← (e.listField "groups").mapM parseGroup
  let datas ← (e.listField "datas").mapM parseData
  some { name := ← e.atomField? "name", id := (e.natField? "id").getD 0,
         blockLength := e.natField? "blockLength", fields, groups, datas }

def parseSchema (e : SExp) : Option SchemaDef := do
  let types ← (e.listField "types").mapM parseElem
  let messages ← (e.listField "messages").mapM parseMessage
  some { package := (e.atomField? "package").getD "", id := (e.natField? "id").getD 0,
         version := (e.natField? "version").getD 0,
         byteOrder := if e.atomField? "byteOrder" = some "bigEndian" then .big else .little,
         headerType := (e.atomField? "headerType").getD "messageHeader", types, messages }

end Sbepp.Schema
