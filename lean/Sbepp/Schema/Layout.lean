/-
  Resolved layout of a message (what the validator computes and the generator
  bakes into accessors) and the abstract syntax of a well-formed SBE wire image.

  A *level* (message root or group entry) is a fixed block followed by its
  groups and then its data members.  Inside the block, `leaves` are the byte
  ranges of the (flattened) non-constant fields.
-/
import Sbepp.Base.Bytes

namespace Sbepp

/-- a primitive-typed byte range inside a block (scalar or single-byte array,
    composites are flattened into their leaves) -/
structure Leaf where
  off : Nat
  size : Nat
  deriving Repr, DecidableEq, Inhabited

/-- layout of a group dimension composite -/
structure Dim where
  size : Nat
  blOff : Nat
  blSize : Nat
  numOff : Nat
  numSize : Nat
  /-- optional `numGroups` / `numVarDataFields` members: byte range and the
      constant the header filler writes there -/
  extras : List (Leaf × Nat) := []
  deriving Repr, DecidableEq, Inhabited

/-- a `<data>` member: width of its length prefix -/
structure DataL where
  lenSize : Nat
  deriving Repr, DecidableEq, Inhabited

mutual
  inductive Level
    | mk (blockLen : Nat) (leaves : List Leaf) (groups : List Group) (datas : List DataL)
  inductive Group
    | mk (dim : Dim) (level : Level)
end

def Level.blockLen : Level → Nat | .mk b _ _ _ => b
def Level.leaves : Level → List Leaf | .mk _ l _ _ => l
def Level.groups : Level → List Group | .mk _ _ g _ => g
def Level.datas : Level → List DataL | .mk _ _ _ d => d
def Group.dim : Group → Dim | .mk d _ => d
def Group.level : Group → Level | .mk _ l => l

/-! ### wire images as trees of raw blocks

A level value is its raw block (wire `blockLength` bytes: field bytes at the leaf
offsets, anything in the gaps and in the extension area), its group values and
its data payloads.  A group value is its raw dimension block and its entries. -/
mutual
  inductive LVal
    | mk (block : List Nat) (groups : List GVal) (datas : List (List Nat))
  inductive GVal
    | mk (hdr : List Nat) (entries : List LVal)
end

def LVal.block : LVal → List Nat | .mk b _ _ => b
def LVal.groups : LVal → List GVal | .mk _ g _ => g
def LVal.datas : LVal → List (List Nat) | .mk _ _ d => d
def GVal.hdr : GVal → List Nat | .mk h _ => h
def GVal.entries : GVal → List LVal | .mk _ e => e

/-- the bytes of a data member: length prefix then payload -/
def flattenD (bo : ByteOrder) (d : DataL) (payload : List Nat) : List Nat :=
  put bo d.lenSize payload.length ++ payload

def flattenDs (bo : ByteOrder) : List DataL → List (List Nat) → List Nat
  | d :: ds, p :: ps => flattenD bo d p ++ flattenDs bo ds ps
  | _, _ => []

mutual
  /-- the wire image: block, then groups, then data -/
  def flattenL (bo : ByteOrder) : Level → LVal → List Nat
    | .mk _ _ gs ds, .mk block gvs dvs => block ++ flattenGs bo gs gvs ++ flattenDs bo ds dvs
  def flattenGs (bo : ByteOrder) : List Group → List GVal → List Nat
    | g :: gs, v :: vs => flattenG bo g v ++ flattenGs bo gs vs
    | _, _ => []
  def flattenG (bo : ByteOrder) : Group → GVal → List Nat
    | .mk _ l, .mk hdr es => hdr ++ flattenEs bo l es
  def flattenEs (bo : ByteOrder) : Level → List LVal → List Nat
    | _, [] => []
    | l, e :: es => flattenL bo l e ++ flattenEs bo l es
end

/-- a data payload fits its length prefix -/
def ConfD (d : DataL) (payload : List Nat) : Prop :=
  payload.length < 256 ^ d.lenSize ∧ IsBytes payload

def ConfDs : List DataL → List (List Nat) → Prop
  | [], [] => True
  | d :: ds, p :: ps => ConfD d p ∧ ConfDs ds ps
  | _, _ => False

mutual
  /-- well-formed image of a level whose wire block length is `wbl` -/
  def ConfL (bo : ByteOrder) : Level → LVal → Nat → Prop
    | .mk bl _ gs ds, .mk block gvs dvs, wbl =>
      block.length = wbl ∧ bl ≤ wbl ∧ ConfGs bo gs gvs ∧ ConfDs ds dvs
  def ConfGs (bo : ByteOrder) : List Group → List GVal → Prop
    | [], [] => True
    | g :: gs, v :: vs => ConfG bo g v ∧ ConfGs bo gs vs
    | _, _ => False
  /-- the dimension block carries the entries' block length and their count -/
  def ConfG (bo : ByteOrder) : Group → GVal → Prop
    | .mk dim l, .mk hdr es =>
      hdr.length = dim.size ∧
      dim.blOff + dim.blSize ≤ dim.size ∧ dim.numOff + dim.numSize ≤ dim.size ∧
      get bo (slice hdr dim.numOff dim.numSize) = es.length ∧
      ConfEs bo l es (get bo (slice hdr dim.blOff dim.blSize))
  def ConfEs (bo : ByteOrder) : Level → List LVal → Nat → Prop
    | _, [], _ => True
    | l, e :: es, wbl => ConfL bo l e wbl ∧ ConfEs bo l es wbl
end

end Sbepp

namespace Sbepp

/-! ### decidable conformance (used by the driver to validate generated trees) -/

def isBytesB (bs : List Nat) : Bool := bs.all (· < 256)

def confDsB : List DataL → List (List Nat) → Bool
  | [], [] => true
  | d :: ds, p :: ps => decide (p.length < 256 ^ d.lenSize) && isBytesB p && confDsB ds ps
  | _, _ => false

mutual
  def confLB (bo : ByteOrder) : Level → LVal → Nat → Bool
    | .mk bl _ gs ds, .mk block gvs dvs, wbl =>
      decide (block.length = wbl) && decide (bl ≤ wbl) && confGsB bo gs gvs && confDsB ds dvs
  def confGsB (bo : ByteOrder) : List Group → List GVal → Bool
    | [], [] => true
    | g :: gs, v :: vs => confGB bo g v && confGsB bo gs vs
    | _, _ => false
  def confGB (bo : ByteOrder) : Group → GVal → Bool
    | .mk dim l, .mk hdr es =>
      decide (hdr.length = dim.size) &&
      decide (dim.blOff + dim.blSize ≤ dim.size) && decide (dim.numOff + dim.numSize ≤ dim.size) &&
      decide (get bo (slice hdr dim.numOff dim.numSize) = es.length) &&
      confEsB bo l es (get bo (slice hdr dim.blOff dim.blSize))
  def confEsB (bo : ByteOrder) : Level → List LVal → Nat → Bool
    | _, [], _ => true
    | l, e :: es, wbl => confLB bo l e wbl && confEsB bo l es wbl
end

end Sbepp
