/-
  Line-protocol handler for C18 (model side): `traits <schema-sexp>` answers
  the whole trait table of the schema as one canonical line:

    ok <record>;<record>;…          records sorted by tag path
    record := <tag path> <key>=<value> <key>=<value> …

  (text values are hex encoded, so neither blanks nor `;` nor `=` occur inside
  a value), or `diag <message>` when the validator model rejects the schema.
-/
import Sbepp.Gen.Traits

namespace Sbepp.Drive.C18
open Sbepp Sbepp.Schema Sbepp.Gen.Traits

def renderRow (r : String × List (String × String)) : String :=
  " ".intercalate (r.1 :: r.2.map (fun kv => kv.1 ++ "=" ++ kv.2))

def render (rows : List (String × List (String × String))) : String :=
  ";".intercalate ((rows.mergeSort (fun a b => decide (a.1 ≤ b.1))).map renderRow)

/-- `traits <schema-sexp>` -/
def handle (payload : String) : String :=
  match (SExp.parseOne payload).bind parseSchema with
  | none => "bad-op bad-schema-sexp"
  | some s =>
    match traitTable s with
    | .error e => "diag " ++ e
    | .ok rows => "ok " ++ render rows

end Sbepp.Drive.C18
