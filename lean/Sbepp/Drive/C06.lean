/-
  Driver handler for C06: `checked (req (schema …) (msg NAME) (buf xHEX) (n N) [(group G)] [(lim L)])`
  → `model=valid,size,maxread,steps spec=valid,size out=.. ze=.. w=.. over=.. maxptr=..`

  `model`: `Rt.Checked.runMsg` / `runGroup` (group view variant when `(group G)`
  names a top-level group of the message) with a step limit (`out=1`: the limit
  was hit, the model answer is then meaningless); `spec`: `Spec.CheckedSize`
  (executable variant, proved equal to the specification).
-/
import Sbepp.Drive.Common
import Sbepp.Spec.Observe
import Sbepp.Rt.Checked
import Sbepp.Spec.CheckedSize

namespace Sbepp.Drive.C06
open Sbepp Sbepp.Schema Sbepp.Checked Sbepp.Spec.CheckedSize

def b2s (b : Bool) : String := if b then "1" else "0"

def fmtModel (r : Result) : String := s!"{b2s r.valid},{r.size},{r.maxRead},{r.steps}"

def kindName : AKind → String
  | .hdrBlockLength => "hdr-blockLength"
  | .field => "field"
  | .dimBlockLength => "dim-blockLength"
  | .dimNumInGroup => "dim-numInGroup"
  | .dataLength => "data-length-prefix"

/-- first read that touches an offset `≥ n`: `kind:off:size:steps-before`, `-` if none -/
def fmtOver (r : Result) (n : Nat) : String :=
  match r.firstOver n with
  | some a => s!"{kindName a.kind}:{a.off}:{a.size}:{a.step}"
  | none => "-"

def fmtSpec (o : Option Nat) : String :=
  match o with
  | some s => s!"1,{s}"
  | none => "0,0"

def groupIndex (md : MessageDef) (name : String) : Option Nat :=
  (md.groups.zipIdx.find? (fun (g, _) => match g with | .mk gn .. => gn = name)).map (·.2)

def handle (payload : String) : String :=
  match SExp.parseOne payload with
  | none => "bad-op"
  | some req =>
    match (req.field? "schema").bind (fun l => parseSchema (SExp.list (SExp.atom "schema" :: l))),
          req.atomField? "msg", (req.atomField? "buf").bind Observe.xhex, req.natField? "n" with
    | some s, some mname, some buf, some n =>
      match s.messages.find? (·.name = mname) with
      | none => "bad-op no-such-message"
      | some md =>
        match resolveMessage s md with
        | .error e => s!"diag {e}"
        | .ok m =>
          match chkMessage s md m with
          | none => "diag no-blockLength"
          | some cm =>
            let bo := s.byteOrder
            let lim := some ((req.natField? "lim").getD 200000)
            match req.atomField? "group" with
            | none =>
              let r := runMsg bo buf lim cm n
              let sp := fparseMsg bo buf n cm.hdrSize cm.blOff cm.blSize cm.level.erase
              s!"model={fmtModel r} spec={fmtSpec sp} out={b2s r.out} ze={r.zeroEntries} w={cm.level.wmax} over={fmtOver r n} maxptr={r.maxPtr}"
            | some gname =>
              match (groupIndex md gname).bind (fun i => cm.level.groups[i]?) with
              | none => "bad-op no-such-group"
              | some g =>
                let r := runGroup bo buf lim g n
                let sp := fparseGroup bo buf n g.erase
                s!"model={fmtModel r} spec={fmtSpec sp} out={b2s r.out} ze={r.zeroEntries} w={g.wmax} over={fmtOver r n} maxptr={r.maxPtr}"
    | _, _, _, _ => "bad-op bad-request"

end Sbepp.Drive.C06
