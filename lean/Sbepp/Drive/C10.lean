/-
  Driver handler of C10 (model side of the line protocol).

  guard (req (bo le|be) (base ADDR) (img xHEX) (ns all | N) (msg (hdr SIZE BLOFF BLSIZE) LEVEL)
             (paths (p NEEDS_END OP...) ...))
    LEVEL = (lv BLOCKLEN (groups G...) (datas LENSIZE...))
    G     = (g (dim SIZE BLOFF BLSIZE NUMOFF NUMSIZE) LEVEL)
    OP    = (f OFF SZ) getter | (s OFF SZ) setter | (st OFF) static view | (ad N) array data()
          | (ae N I) array element read | (aw N I) array element write | (aa N LEN) assign_range
          | h header | (g K) group K | (d K) data K | gn size() | gb begin() | (gi I) operator[]
          | inc ++it | deref *it | dn size() | dd data() | (de I) element read | (dw I) element write
          | (dr COUNT) resize(count, default_init) | (da LEN) assign_range / assign(first,last)
          | (dan N) assign(n, v) / assign_string | (dai N) assign(ilist) | dpb push_back | dpop pop_back
          | dcl clear | sz sbepp::size_bytes
    optional (canary SLACK FILL): the view [p, p+n) is followed by SLACK writable bytes holding FILL;
    RUN then is o | A (bytes behind the view untouched), w (completed, bytes behind the view written),
    W (assertion AFTER such a write), F, U
  One accessor chain per `p`, called on `make_view<Msg>(base, n)` over a buffer whose first `n`
  bytes are those of the image.  NEEDS_END: end of the bytes the chain needs according to the
  specification (value tree + layout), computed by the caller.

  Answer, for every n (all: 0..|img|) one block `RUN/GUARD/SPEC`, blocks joined by `,`; each block
  has one character per path:
    RUN   o = completes, A = assertion handler, F = touches a byte >= n before any failed check,
          U = undefined arithmetic in a check, ? = no such accessor
    GUARD g = every check of the chain holds, - = not
    SPEC  i = NEEDS_END <= n (the call must complete), o = outside (the call must assert)
  With `(detail)` in the request and a single n: additionally `touches=lo:len;...` per path and
  whether the textual macro expansion agrees with the argument-wise evaluation.
-/
import Sbepp.Drive.Common
import Sbepp.Base.SExp
import Sbepp.Rt.Guards

namespace Sbepp.Drive.C10
open Sbepp Sbepp.Rt.Guards

def nat? (e : SExp) : Option Nat := e.asAtom?.bind String.toNat?

partial def parseLevel : SExp → Option Level
  | .list [.atom "lv", bl, .list (.atom "groups" :: gs), .list (.atom "datas" :: ds)] => do
    let bl ← nat? bl
    let gs ← gs.mapM parseGroup
    let ds ← ds.mapM (fun d => (nat? d).map DataL.mk)
    pure (.mk bl [] gs ds)
  | _ => none
where
  parseGroup : SExp → Option Group
    | .list [.atom "g", .list [.atom "dim", a, b, c, d, e], l] => do
      let l ← parseLevel l
      pure (.mk { size := ← nat? a, blOff := ← nat? b, blSize := ← nat? c, numOff := ← nat? d, numSize := ← nat? e } l)
    | _ => none

def parseOp : SExp → Option Op
  | .atom "h" => some .header
  | .atom "gn" => some .gSize
  | .atom "gb" => some .gBegin
  | .atom "inc" => some .itInc
  | .atom "deref" => some .itDeref
  | .atom "dn" => some .dSize
  | .atom "dd" => some .dData
  | .atom "sz" => some .sizeBytes
  | .list [.atom "f", a, b] => do pure (.field (← nat? a) (← nat? b) false)
  | .list [.atom "s", a, b] => do pure (.field (← nat? a) (← nat? b) true)
  | .list [.atom "st", a] => do pure (.static (← nat? a))
  | .list [.atom "ad", a] => do pure (.arrData (← nat? a))
  | .list [.atom "ae", a, b] => do pure (.arrElem (← nat? a) (← nat? b) false)
  | .list [.atom "aw", a, b] => do pure (.arrElem (← nat? a) (← nat? b) true)
  | .list [.atom "aa", a, b] => do pure (.arrAssign (← nat? a) (← nat? b))
  | .list [.atom "g", a] => do pure (.grp (← nat? a))
  | .list [.atom "d", a] => do pure (.data (← nat? a))
  | .list [.atom "gi", a] => do pure (.gIdx (← nat? a))
  | .list [.atom "de", a] => do pure (.dElem (← nat? a) false)
  | .list [.atom "dw", a] => do pure (.dElem (← nat? a) true)
  | .list [.atom "dr", a] => do pure (.dResize (← nat? a))
  | .list [.atom "da", a] => do pure (.dAssign (← nat? a))
  | .list [.atom "dan", a] => do pure (.dAssignN (← nat? a))
  | .list [.atom "dai", a] => do pure (.dAssignIlist (← nat? a))
  | .atom "dpb" => some .dPush
  | .atom "dpop" => some .dPop
  | .atom "dcl" => some .dClear
  | _ => none

def parsePath : SExp → Option (Nat × List Op)
  | .list (.atom "p" :: ne :: ops) => do pure (← nat? ne, ← ops.mapM parseOp)
  | _ => none

def resChar : Res → Char
  | .ok => 'o'
  | .assertFailed _ => 'A'
  | .fault _ => 'F'
  | .ub _ => 'U'

/-- outcome character; a check on a pointer that is not representable (address ≥ 2^63) or with a size
    of 2^63 or more (both only arise from 64-bit header values; the C++ forms them by pointer arithmetic
    that overflows) before the run ends is reported as undefined (`U`) -/
def runChar (c : Ctx) (evs : List Ev) : Char :=
  let r := run c.n evs 0
  let upto := match r with
    | .ok => evs.length
    | .assertFailed i => i
    | .fault i => i
    | .ub i => i
  if (evs.take (upto + 1)).any (fun e => match e with
      | .check b off size _ => decide (c.base + b ≥ 2 ^ 63) || decide (off + size ≥ 2 ^ 63)
      | _ => false) then 'U'
  else resChar r

/-- canary mode: the view is followed by `slack` writable bytes: `o`/`A` as before with the bytes behind
    the view untouched, `w` = completed although a write went behind the view, `W` = assertion after
    such a write -/
def canaryChar (c : Ctx) (slack : Nat) (evs : List Ev) : Char :=
  let r := runCanary c.n slack evs 0 false
  let upto := match r.1 with
    | .ok => evs.length
    | .assertFailed i => i
    | .fault i => i
    | .ub i => i
  if (evs.take (upto + 1)).any (fun e => match e with
      | .check b off size _ => decide (c.base + b ≥ 2 ^ 63) || decide (off + size ≥ 2 ^ 63)
      | _ => false) then 'U'
  else match r with
    | (.ok, false) => 'o'
    | (.ok, true) => 'w'
    | (.assertFailed _, false) => 'A'
    | (.assertFailed _, true) => 'W'
    | (.fault _, _) => 'F'
    | (.ub _, _) => 'U'

def blockCanary (c : Ctx) (slack : Nat) (m : MsgL) (paths : List (Nat × List Op)) : String :=
  let evs := paths.map (fun p => (p.1, walk c (.msg m) p.2))
  let runS := String.ofList (evs.map (fun (_, e) => match e with | none => '?' | some e => canaryChar c slack e))
  let guardS := String.ofList (evs.map (fun (_, e) => match e with | none => '?' | some e => if guard e then 'g' else '-'))
  let specS := String.ofList (evs.map (fun (ne, _) => if ne ≤ c.n then 'i' else 'o'))
  runS ++ "/" ++ guardS ++ "/" ++ specS

def block (c : Ctx) (m : MsgL) (paths : List (Nat × List Op)) : String :=
  let evs := paths.map (fun p => (p.1, walk c (.msg m) p.2))
  let runS := String.ofList (evs.map (fun (_, e) => match e with | none => '?' | some e => runChar c e))
  let guardS := String.ofList (evs.map (fun (_, e) => match e with | none => '?' | some e => if guard e then 'g' else '-'))
  let specS := String.ofList (evs.map (fun (ne, _) => if ne ≤ c.n then 'i' else 'o'))
  runS ++ "/" ++ guardS ++ "/" ++ specS

def touchesStr (evs : List Ev) : String :=
  ";".intercalate ((touches evs).map (fun (lo, len) => s!"{lo}:{len}"))

/-- do the two evaluation routes of every extracted size check agree on this environment? -/
def agree (site : Extracted.SizeChecks.Site) (env : Env) : Bool :=
  (List.range site.checks.length).all (fun k =>
    match site.sizeCheck? k with
    | none => true
    | some _ => evalSizeCheck site k env == evalExpanded site k env)

def handle (payload : String) : String :=
  match SExp.parseOne payload with
  | none => "bad-op"
  | some req =>
    match req.atomField? "bo", req.natField? "base", (req.atomField? "img").bind (fun s => SExp.unhex (s.drop 1).toString),
          req.field? "msg", req.field? "paths", req.atomField? "ns" with
    | some bo, some base, some img, some [.list [.atom "hdr", hs, bo1, bs1], lv], some ps, some ns =>
      match nat? hs, nat? bo1, nat? bs1, parseLevel lv, ps.mapM parsePath with
      | some hs, some blOff, some blSize, some level, some paths =>
        let m : MsgL := { hdrSize := hs, blOff := blOff, blSize := blSize, level := level }
        let bo := if bo = "be" then ByteOrder.big else ByteOrder.little
        let mk (n : Nat) : Ctx := { base := base, n := n, bo := bo, buf := img }
        -- canary mode: (canary SLACK FILL): memory = first n bytes of the image, then SLACK bytes FILL
        match req.field? "canary" with
        | some [sl, fl] =>
          match nat? sl, nat? fl, ns with
          | some slack, some fill, "all" =>
            ",".intercalate ((List.range (img.length + 1)).map (fun n =>
              blockCanary { base := base, n := n, bo := bo, buf := img.take n ++ List.replicate slack fill } slack m paths))
          | some slack, some fill, ns =>
            match ns.toNat? with
            | some n => blockCanary { base := base, n := n, bo := bo, buf := img.take n ++ List.replicate slack fill } slack m paths
            | none => "bad-op bad-n"
          | _, _, _ => "bad-op bad-canary"
        | _ =>
        match ns with
        | "all" => ",".intercalate ((List.range (img.length + 1)).map (fun n => block (mk n) m paths))
        | ns =>
          match ns.toNat? with
          | none => "bad-op bad-n"
          | some n =>
            let c := mk n
            let b := block c m paths
            if (req.field? "detail").isSome then
              let ts := paths.map (fun p => match walk c (.msg m) p.2 with | none => "?" | some e => touchesStr e)
              -- cross-check of the two macro evaluation routes on the environments of this request
              let env := c.be 0 ++ [("offset", u64 0), ("sizeof_U", u64 1), ("sizeof_T", u64 1), ("size_bytes_header", u64 hs)]
              let ag := Extracted.SizeChecks.sites.all (fun s => agree s env)
              s!"{b} touches={"|".intercalate ts} routes_agree={ag}"
            else b
      | _, _, _, _, _ => "bad-op bad-request"
    | _, _, _, _, _, _ => "bad-op bad-request"

/-! ### cursor traversals

  ctrav (req (bo le|be) (base ADDR) (img xHEX) (ns all | N)
             (cmsg (hdr SIZE BLOFF BLSIZE) CLEVEL) (runs (K V E)...))
    CLEVEL = (cl (fields (f REL ABS SIZE ISVIEW LAST)...) (groups (g (dim ...) CLEVEL)...) (datas LENSIZE...))
  One run per `(K V E)`: `auto c = sbepp::init_cursor(m)`, every member before member number K (in
  traversal order; entries through `cursor_range`) through the plain cursor, member K through variant V:
    0..4  the getter `v.NAME(w)` with w = c, init(c), dont_move(c), init_dont_move(c), skip(c)
    5..8  the SETTER `v.NAME(value, w)` with w = c, init(c), dont_move(c), init_dont_move(c)
          (scalar fields only; `skip` has no setters)
  E = NEEDS_END of the run.  The older form `(needs E...)` stands for the runs
  k = 0,1,.. × V = 0..4 in that order.  Answer: as for `guard`. -/

partial def parseCLevel : SExp → Option CLevel
  | .list [.atom "cl", .list (.atom "fields" :: fs), .list (.atom "groups" :: gs), .list (.atom "datas" :: ds)] => do
    let fs ← fs.mapM (fun f => match f with
      | .list [.atom "f", a, b, c, d, e] => do
        pure ({ rel := ← nat? a, abs := ← nat? b, size := ← nat? c, isView := (← nat? d) != 0, last := (← nat? e) != 0 } : CField)
      | _ => none)
    let gs ← gs.mapM parseCGroup
    let ds ← ds.mapM (fun d => (nat? d).map DataL.mk)
    pure (.mk fs gs ds)
  | _ => none
where
  parseCGroup : SExp → Option CGroup
    | .list [.atom "g", .list [.atom "dim", a, b, c, d, e], l] => do
      let l ← parseCLevel l
      pure (.mk { size := ← nat? a, blOff := ← nat? b, blSize := ← nat? c, numOff := ← nat? d, numSize := ← nat? e } l)
    | _ => none

def cvars : List CVar := [.plain, .init, .dontMove, .initDontMove, .skip]

def targetOf (k v : Nat) : Target :=
  { k := k, var := cvars.getD (if v < 5 then v else v - 5) .plain, set := decide (5 ≤ v) }

def parseRun : SExp → Option (Nat × Nat × Nat)
  | .list [k, v, e] => do
    let v ← nat? v
    if v < 9 then pure (← nat? k, v, ← nat? e) else none
  | _ => none

/-- `(runs ...)`, or the older `(needs ...)` -/
def parseRuns (req : SExp) : Option (List (Nat × Nat × Nat)) :=
  match req.field? "runs", req.field? "needs" with
  | some rs, _ => rs.mapM parseRun
  | none, some ns => do
    let es ← ns.mapM nat?
    pure ((List.range es.length).zip es |>.map (fun (i, e) => (i / 5, i % 5, e)))
  | none, none => none

def cblock (c : Ctx) (m : CMsg) (rs : List (Nat × Nat × Nat)) : String :=
  let runs := rs.map (fun (k, v, _) => (travMsg c m (targetOf k v)).evs)
  let runS := String.ofList (runs.map (fun e => runChar c e))
  let guardS := String.ofList (runs.map (fun e => if guard e then 'g' else '-'))
  let specS := String.ofList (rs.map (fun (_, _, ne) => if ne ≤ c.n then 'i' else 'o'))
  runS ++ "/" ++ guardS ++ "/" ++ specS

def handleCursor (payload : String) : String :=
  match SExp.parseOne payload with
  | none => "bad-op"
  | some req =>
    match req.atomField? "bo", req.natField? "base", (req.atomField? "img").bind (fun s => SExp.unhex (s.drop 1).toString),
          req.field? "cmsg", parseRuns req, req.atomField? "ns" with
    | some bo, some base, some img, some [.list [.atom "hdr", hs, bo1, bs1], lv], some rs, some ns =>
      match nat? hs, nat? bo1, nat? bs1, parseCLevel lv with
      | some hs, some blOff, some blSize, some level =>
        let m : CMsg := { hdrSize := hs, blOff := blOff, blSize := blSize, level := level }
        let bo := if bo = "be" then ByteOrder.big else ByteOrder.little
        let mk (n : Nat) : Ctx := { base := base, n := n, bo := bo, buf := img }
        match ns with
        | "all" => ",".intercalate ((List.range (img.length + 1)).map (fun n => cblock (mk n) m rs))
        | ns =>
          match ns.toNat? with
          | none => "bad-op bad-n"
          | some n =>
            let c := mk n
            if (req.field? "detail").isSome then
              let ts := rs.map (fun (k, v, _) => touchesStr (travMsg c m (targetOf k v)).evs)
              s!"{cblock c m rs} touches={"|".intercalate ts}"
            else cblock c m rs
      | _, _, _, _ => "bad-op bad-request"
    | _, _, _, _, _, _ => "bad-op bad-request"

end Sbepp.Drive.C10
