import Sbepp.Drive.Common
import Sbepp.Rt.Iter
import Sbepp.Spec.Group

/-!
  Line protocol, model side, for C12 and the flat part of C05.

  `grp nt=u8 bt=u32 n=200 bl=2 hdr=5 base=1048576 chk=0 expr=E1;E2;…`
      → `model=R1;R2;… spec=S1;S2;…`
  `grpsize nt=.. bt=.. hdr=.. n=.. bl=..`            → `model=<bytes|UB> spec=<bytes>`
  `nest nt=.. bt=.. n=.. bl=.. hdr=.. base=.. lens=l0,l1,… [limit=k]`
      → `model=starts:…|size:…|front:… spec=…`   (entry i = block + 1 length byte + lens[i mod |lens|] bytes)
  `resize nt=.. bt=.. be=0|1 pad=k buf=<hex> count=c`  → `model=<hex> spec=<hex>`

  Results: `it:<ptr-dataStart>:<index>`, `a:<addr-dataStart>`, `d:<difference>`,
  `b:0|1`, `UB`, `ASSERT`; the specification additionally answers `PRE`
  (outside the range the law speaks about), `NR` (step or distance is not a
  value of difference_type), `OOD` (an address is outside [0, 2^63)).
-/
namespace Sbepp.Drive.C12
open Sbepp Sbepp.Drive Sbepp.Rt
open Sbepp.Spec.Group (GExpr SVal)

/-! #### parser: `name`, `name(e,…)`, integer literal -/

def isIdent (c : Char) : Bool := c.isAlpha || c == '_'

partial def parseExpr (cs : List Char) : Option (GExpr × List Char) :=
  match cs with
  | [] => none
  | c :: rest =>
    if c == '-' || c.isDigit then
      let digits := (if c == '-' then rest else cs).takeWhile Char.isDigit
      let after := (if c == '-' then rest else cs).dropWhile Char.isDigit
      match (String.ofList digits).toNat? with
      | some v =>
        -- a literal is a `long long` or an `unsigned long long`
        if (c == '-' && v > 2 ^ 63) || v ≥ 2 ^ 64 then none
        else some (.lit (if c == '-' then -(v : Int) else (v : Int)), after)
      | none => none
    else if isIdent c then
      let name := String.ofList (cs.takeWhile isIdent)
      let after := cs.dropWhile isIdent
      match after with
      | '(' :: r1 =>
        match parseExpr r1 with
        | none => none
        | some (a, r2) =>
          match r2 with
          | ')' :: r3 => (mk1 name a).map (fun e => (e, r3))
          | ',' :: r3 =>
            match parseExpr r3 with
            | some (b, ')' :: r4) => (mk2 name a b).map (fun e => (e, r4))
            | _ => none
          | _ => none
      | _ => (mk0 name).map (fun e => (e, after))
    else none
where
  mk0 : String → Option GExpr
    | "begin" => some .begin | "end" => some .end_ | "size" => some .size
    | "front" => some .front | "back" => some .back | _ => none
  mk1 (n : String) (a : GExpr) : Option GExpr :=
    match n with
    | "inc" => some (.inc a) | "dec" => some (.dec a) | "deref" => some (.deref a)
    | "idx" => some (.idx a) | "iter" => some (.iter a) | _ => none
  mk2 (n : String) (a b : GExpr) : Option GExpr :=
    match n with
    | "add" => some (.add a b) | "radd" => some (.radd a b) | "sub" => some (.sub a b)
    | "diff" => some (.diff a b) | "at" => some (.at_ a b)
    | "lt" | "le" | "gt" | "ge" | "eq" | "ne" => some (.cmp n a b)
    | _ => none

def parse (s : String) : Option GExpr :=
  match parseExpr s.toList with
  | some (e, []) => some e
  | _ => none

/-! #### model evaluation: every step is an operation of `Rt/Iter.lean` -/

inductive MVal
  | it (i : Iter) | int (v : CVal) | addr (a : Int) | bool (b : Bool)

inductive MRes
  | val (v : MVal) | ub | assert | bad

structure MCtx where
  NT : CTy
  BT : CTy
  chk : Bool
  g : Group

def lift {α} (o : Outcome α) (f : α → MRes) : MRes :=
  match o with
  | .ok a => f a
  | .ub => .ub
  | .assertFailed _ => .assert

/-- an integer literal is a `long long` (an `unsigned long long` above 2^63-1) -/
def litVal (v : Int) : CVal :=
  if v ≥ ((2 ^ 63 : Nat) : Int) then CVal.wrap .u64 v else CVal.wrap .i64 v

def evalM (c : MCtx) : GExpr → MRes
  | .begin => lift (flatBegin c.NT c.BT c.chk c.g) (fun i => .val (.it i))
  | .end_ => lift (flatEnd c.NT c.BT c.chk c.g) (fun i => .val (.it i))
  | .lit v => .val (.int (litVal v))
  | .size => lift (headerCheck c.g c.chk) (fun _ => .val (.int (groupSize c.NT c.g)))
  | .add it k | .radd k it =>
    match evalM c it with
    | .val (.it i) =>
      match evalM c k with
      | .val (.int n) => lift (plus c.NT c.BT i n) (fun j => .val (.it j))
      | .val _ => .bad
      | r => r
    | .val _ => .bad
    | r => r
  | .sub it k =>
    match evalM c it with
    | .val (.it i) =>
      match evalM c k with
      | .val (.int n) => lift (minus c.NT c.BT i n) (fun j => .val (.it j))
      | .val _ => .bad
      | r => r
    | .val _ => .bad
    | r => r
  | .inc it =>
    match evalM c it with
    | .val (.it i) => lift (inc c.NT c.BT c.chk i) (fun j => .val (.it j))
    | .val _ => .bad
    | r => r
  | .dec it =>
    match evalM c it with
    | .val (.it i) => lift (dec c.NT c.BT i) (fun j => .val (.it j))
    | .val _ => .bad
    | r => r
  | .diff a b =>
    match evalM c a with
    | .val (.it i) =>
      match evalM c b with
      | .val (.it j) => lift (diff c.NT i j) (fun d => .val (.int d))
      | .val _ => .bad
      | r => r
    | .val _ => .bad
    | r => r
  | .deref it =>
    match evalM c it with
    | .val (.it i) => .val (.addr (deref i))
    | .val _ => .bad
    | r => r
  | .at_ it k =>
    match evalM c it with
    | .val (.it i) =>
      match evalM c k with
      | .val (.int n) => lift (subscriptIt c.NT c.BT i n) (fun a => .val (.addr a))
      | .val _ => .bad
      | r => r
    | .val _ => .bad
    | r => r
  | .idx k =>
    match evalM c k with
    | .val (.int n) => lift (flatSubscript c.NT c.BT c.chk c.g n) (fun a => .val (.addr a))
    | .val _ => .bad
    | r => r
  | .front => lift (flatFront c.NT c.BT c.chk c.g) (fun a => .val (.addr a))
  | .back => lift (flatBack c.NT c.BT c.chk c.g) (fun a => .val (.addr a))
  | .iter k =>
    match evalM c k with
    | .val (.int n) =>
      if n.toInt < 0 ∨ n.toInt > 200000 then .bad else
      lift (do let b ← flatBegin c.NT c.BT c.chk c.g
               incN c.NT c.BT c.chk n.toInt.toNat b) (fun i => .val (.addr (deref i)))
    | .val _ => .bad
    | r => r
  | .cmp op a b =>
    match evalM c a with
    | .val (.it i) =>
      match evalM c b with
      | .val (.it j) =>
        if (cmpKernel c.NT op).isNone then .bad
        else lift (compare c.NT op i j) (fun r => .val (.bool r))
      | .val _ => .bad
      | r => r
    | .val _ => .bad
    | r => r

/-- offsets are printed the way the harness computes them: modulo 2^64, signed -/
def relOff (c : MCtx) (p : Int) : Int := (CVal.wrap .i64 (p - (c.g.addr + c.g.hdr))).toInt

def fmtM (c : MCtx) : MRes → String
  | .val (.it i) => s!"it:{relOff c i.ptr}:{i.index}"
  | .val (.int v) => s!"d:{v.toInt}"
  | .val (.addr a) => s!"a:{relOff c a}"
  | .val (.bool b) => if b then "b:1" else "b:0"
  | .ub => "UB" | .assert => "ASSERT" | .bad => "BAD"

def fmtS (bl : Nat) : SVal → String
  | .pos p => s!"it:{p * (bl : Int)}:{p}"
  | .int i => s!"d:{i}"
  | .addr a => s!"a:{a}"
  | .bool b => if b then "b:1" else "b:0"
  | .pre => "PRE" | .nr => "NR" | .ood => "OOD" | .bad => "BAD"

def dimTy? (args : List String) (key : String) : Option CTy :=
  match tyArg? args key with
  | some .u8 => some .u8 | some .u16 => some .u16 | some .u32 => some .u32 | some .u64 => some .u64
  | _ => none

def handleGrp (args : List String) : String :=
  match dimTy? args "nt", dimTy? args "bt", natArg? args "n", natArg? args "bl", arg? args "expr" with
  | some nt, some bt, some n, some bl, some ex =>
    let hdr := (natArg? args "hdr").getD (nt.bits / 8 + bt.bits / 8)
    let base := (natArg? args "base").getD (2 ^ 20)
    let chk := (natArg? args "chk").getD 0 != 0
    let cap := (natArg? args "cap").getD 0
    let g : Group := { addr := base, hdr := hdr, num := n % 2 ^ nt.bits, bl := bl % 2 ^ bt.bits,
                       end_ := if chk then (base : Int) + cap else 0 }
    let mc : MCtx := ⟨nt, bt, chk, g⟩
    let sc : Spec.Group.Ctx := ⟨nt.bits, base, hdr, n % 2 ^ nt.bits, bl % 2 ^ bt.bits⟩
    let es := ex.splitOn ";"
    let rs := es.map (fun s =>
      match parse s with
      | some e => (fmtM mc (evalM mc e), fmtS sc.bl (Spec.Group.specEval sc e))
      | none => ("BAD", "BAD"))
    s!"model={";".intercalate (rs.map (·.1))} spec={";".intercalate (rs.map (·.2))}"
  | _, _, _, _, _ => "bad-op"

def handleSize (args : List String) : String :=
  match dimTy? args "nt", dimTy? args "bt", natArg? args "n", natArg? args "bl", natArg? args "hdr" with
  | some nt, some bt, some n, some bl, some hdr =>
    let g : Group := { addr := 2 ^ 20, hdr := hdr, num := n % 2 ^ nt.bits, bl := bl % 2 ^ bt.bits }
    let m := match flatSizeBytes nt bt false g with
      | .ok v => toString v
      | .ub => "UB"
      | .assertFailed _ => "ASSERT"
    let s := Spec.Group.flatSize hdr (n % 2 ^ nt.bits) (bl % 2 ^ bt.bits)
    let ss := if s < 2 ^ 64 then toString s else "OOD"
    s!"model={m} spec={ss}"
  | _, _, _, _, _ => "bad-op"

def parseNatList (s : String) : List Nat := (s.splitOn ",").filterMap String.toNat?

def fmtInts (l : List Int) : String := ",".intercalate (l.map toString)

/-- weighted checksum of a list of offsets (mod 2^64), to keep long answers short -/
def checksum (l : List Int) : Nat :=
  (l.foldl (fun (acc : Nat × Nat) x => (((acc.1 + (x % ((2 ^ 64 : Nat) : Int)).toNat * (acc.2 + 1)) % 2 ^ 64), acc.2 + 1)) (0, 0)).1

def handleNest (args : List String) : String :=
  match dimTy? args "nt", dimTy? args "bt", natArg? args "n", natArg? args "bl", arg? args "lens" with
  | some nt, some bt, some n0, some bl0, some lensS =>
    let n := n0 % 2 ^ nt.bits
    let bl := bl0 % 2 ^ bt.bits
    let hdr := (natArg? args "hdr").getD (nt.bits / 8 + bt.bits / 8)
    let base := (natArg? args "base").getD (2 ^ 20)
    let lens := parseNatList lensS
    if lens.isEmpty then "bad-op" else
    let g : Group := { addr := base, hdr := hdr, num := n, bl := bl }
    let ds : Int := (base : Int) + hdr
    -- the harness lays the entries out from the specification and stores
    -- lens[i mod |lens|] in the length byte of entry i; the size of the entry
    -- view at address a is therefore determined by a
    let cyc : List Nat := lens.map (fun l => bl + 1 + l)
    let period : Nat := cyc.foldl (· + ·) 0
    let esize : Int → Nat := fun a =>
      let rel := a - ds
      if rel < 0 then 0 else
      let r := rel.toNat % period
      -- the entry of the cycle that starts at offset r
      (cyc.foldl (fun (acc : Nat × Option Nat) sz =>
        match acc.2 with
        | some _ => acc
        | none => if acc.1 == r then (acc.1, some sz) else (acc.1 + sz, none)) (0, none)).2.getD 0
    let mStarts := nestedEntries nt bt false g esize (n + 1)
    let mSize := nestedSizeBytes nt bt false g esize (n + 1)
    let mFront := nestedFront nt bt false g
    let short := n ≤ 8
    let ms := match mStarts, mSize, mFront with
      | .ok st, .ok sz, .ok fr =>
        let rel := st.map (· - ds)
        s!"starts:{if short then fmtInts rel else toString (checksum rel)}|count:{st.length}|size:{sz}|front:{fr - ds}"
      | _, _, _ => "UB"
    let sStarts := (Spec.Group.startsIter esize n ds).map (· - ds)
    let sSize := Spec.Group.endIter esize n ds - base
    let ss := s!"starts:{if short then fmtInts sStarts else toString (checksum sStarts)}|count:{n}|size:{sSize}|front:0"
    s!"model={ms} spec={ss}"
  | _, _, _, _, _ => "bad-op"

def hexDigit (n : Nat) : Char := if n < 10 then Char.ofNat (48 + n) else Char.ofNat (87 + n)
def toHex (l : List Nat) : String := String.ofList (l.flatMap (fun b => [hexDigit (b / 16 % 16), hexDigit (b % 16)]))

def hexVal (c : Char) : Option Nat :=
  if c.isDigit then some (c.toNat - 48)
  else if 'a' ≤ c ∧ c ≤ 'f' then some (c.toNat - 87) else none

def fromHex : List Char → Option (List Nat)
  | [] => some []
  | a :: b :: rest =>
    match hexVal a, hexVal b, fromHex rest with
    | some x, some y, some r => some ((x * 16 + y) :: r)
    | _, _, _ => none
  | _ => none

/-- header layout used by the harness: blockLength at 0, numInGroup right after
    it, both in the requested byte order; the header starts `pad` bytes into
    the buffer -/
def handleResize (args : List String) : String :=
  match dimTy? args "nt", dimTy? args "bt", natArg? args "be", natArg? args "pad", arg? args "buf",
        natArg? args "count" with
  | some nt, some bt, some be, some pad, some bufS, some count =>
    match fromHex bufS.toList with
    | none => "bad-op"
    | some buf =>
      let lay : DimLayout := ⟨bt.bits / 8, be != 0⟩
      let cv : CVal := litVal count
      let m := if (arg? args "op") == some "clear" then clear nt lay buf pad else resize nt lay buf pad cv
      let ms := match m with | some b => toHex b | none => "UB"
      -- specification: same bytes everywhere except the numInGroup field, which
      -- then holds `count` (0 for clear) in the header's byte order
      let cnt := if (arg? args "op") == some "clear" then 0 else count % 2 ^ nt.bits
      let w := nt.bits / 8
      let off := pad + bt.bits / 8
      let spec := buf.take off ++ Spec.Group.putBytes (be != 0) w cnt ++ buf.drop (off + w)
      s!"model={ms} spec={toHex spec}"
  | _, _, _, _, _, _ => "bad-op"

def handle (args : List String) : String := handleGrp args

end Sbepp.Drive.C12
