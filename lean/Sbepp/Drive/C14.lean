import Sbepp.Drive.Common
import Sbepp.Rt.StaticArray
import Sbepp.Spec.StaticArray

namespace Sbepp.Drive.C14
open Sbepp Sbepp.Drive
open Sbepp.Rt.StaticArray

def hexDigit? (c : Char) : Option Nat :=
  if c.isDigit then some (c.toNat - '0'.toNat)
  else if 'a' ≤ c ∧ c ≤ 'f' then some (c.toNat - 'a'.toNat + 10)
  else if 'A' ≤ c ∧ c ≤ 'F' then some (c.toNat - 'A'.toNat + 10)
  else none

def unhexChars : List Char → Option (List Nat)
  | [] => some []
  | [_] => none
  | a :: b :: rest =>
    match hexDigit? a, hexDigit? b, unhexChars rest with
    | some x, some y, some t => some ((x * 16 + y) :: t)
    | _, _, _ => none

/-- `616200` → `[0x61, 0x62, 0]`; `-` and the empty string are the empty list -/
def unhex? (s : String) : Option (List Nat) :=
  if s = "-" then some [] else unhexChars s.toList

def hexChar (n : Nat) : Char :=
  if n < 10 then Char.ofNat ('0'.toNat + n) else Char.ofNat ('a'.toNat + (n - 10))

def hex (bs : List Nat) : String :=
  String.ofList (bs.flatMap (fun b => [hexChar (b / 16 % 16), hexChar (b % 16)]))

def mode? (s : String) : Option EosNull :=
  if s = "none" then some .none
  else if s = "single" then some .single
  else if s = "all" then some .all
  else if s = "invalid" then some .invalid
  else none

def specMode? : EosNull → Option Spec.StaticArray.Eos
  | .none => some .none
  | .single => some .single
  | .all => some .all
  | .invalid => none

inductive RetKind
  | iter
  | size

/-- canonical text of a model outcome; iterators are printed relative to
    `begin()` -/
def fmtModel (off : Nat) (k : RetKind) : Rt.StaticArray.Outcome → String
  | .ok buf none => s!"model={hex buf},-"
  | .ok buf (some r) =>
    match k with
    | .iter => s!"model={hex buf},{r - off}"
    | .size => s!"model={hex buf},{r}"
  | .assertFailed buf => s!"model=ASSERT mbuf={hex buf}"
  | .ub => "model=UB"

def fmtSpec (pre post : List Nat) : Spec.StaticArray.Result → String
  | .ok arr (.iter i) => s!"spec={hex (pre ++ arr ++ post)},{i}"
  | .ok arr (.size n) => s!"spec={hex (pre ++ arr ++ post)},{n}"
  | .ok arr .void => s!"spec={hex (pre ++ arr ++ post)},-"
  | .reject => "spec=ASSERT"

/--
`sarr N=<n> init=<hex n bytes> [pre=<hex>] [post=<hex>] [avail=<n>] op=<op> …`
  * `op=assign_string_raw  mode=none|single|all|invalid in=<hex>|null`
     (the C++ side passes `in` followed by a NUL as `const char*`)
  * `op=assign_string_range mode=… in=<hex>`
  * `op=assign_range|assign_iter|assign_ilist in=<hex>`
  * `op=assign_count count=<n> value=<hex byte>`
  * `op=fill value=<hex byte>`
  * `op=strlen|strlen_ce|strlen_r`
answer: `model=<hex of pre++array++post>,<ret> spec=<…>`; `ret` is the
iterator's index relative to `begin()`, a size, or `-`; `model=ASSERT mbuf=<hex>`
when the handler is called; `spec=ASSERT` when the documented precondition is
violated.  Keys the model does not need (`byte=`, `src=`) are ignored.
-/
def handle (args : List String) : String :=
  let pre? := (arg? args "pre").bind unhex? |>.getD [0x7e]
  let post? := (arg? args "post").bind unhex? |>.getD [0x7e]
  match natArg? args "N", (arg? args "init").bind unhex?, arg? args "op" with
  | some n, some init, some op =>
    if init.length ≠ n then "bad-op" else
    let pre := pre?
    let post := post?
    let avail := (natArg? args "avail").getD n
    let v : Rt.StaticArray.View := ⟨pre.length, n, avail⟩
    let buf := pre ++ init ++ post
    let inp := (arg? args "in").bind unhex?
    let mode := (arg? args "mode").bind mode?
    let value := ((arg? args "value").bind unhex?).bind List.head?
    let count := natArg? args "count"
    let answer (k : RetKind) (o : Rt.StaticArray.Outcome) (sop : Option Spec.StaticArray.Op) : String :=
      let specRes :=
        if avail < n then Spec.StaticArray.Result.reject else
        match sop with
        | some s => Spec.StaticArray.apply init s
        | none => .reject
      fmtModel pre.length k o ++ " " ++ fmtSpec pre post specRes
    match op with
    | "assign_string_raw" =>
      match mode with
      | none => "bad-op"
      | some m =>
        if arg? args "in" = some "null" then
          answer .iter (run v buf (.assignStringRaw none m)) none
        else match inp with
          | none => "bad-op"
          | some s =>
            answer .iter (run v buf (.assignStringRaw (some (s ++ [0])) m))
              ((specMode? m).map (.assignString (s.takeWhile (fun b => b != 0))))
    | "assign_string_range" =>
      match mode, inp with
      | some m, some s =>
        answer .iter (run v buf (.assignStringRange s m)) ((specMode? m).map (.assignString s))
      | _, _ => "bad-op"
    | "assign_range" =>
      match inp with
      | some s => answer .iter (run v buf (.assignRange s)) (some (.assignRange s))
      | none => "bad-op"
    | "assign_iter" =>
      match inp with
      | some s => answer .iter (run v buf (.assignIter s)) (some (.assignRange s))
      | none => "bad-op"
    | "assign_ilist" =>
      match inp with
      | some s => answer .iter (run v buf (.assignIlist s)) (some (.assignRange s))
      | none => "bad-op"
    | "assign_count" =>
      match count, value with
      | some c, some x => answer .iter (run v buf (.assignCount c x)) (some (.assignCount c x))
      | _, _ => "bad-op"
    | "fill" =>
      match value with
      | some x => answer .iter (run v buf (.fill x)) (some (.fill x))
      | none => "bad-op"
    | "strlen" => answer .size (run v buf .strlen) (some .strlen)
    | "strlen_ce" => answer .size (run v buf .strlenCE) (some .strlen)
    | "strlen_r" => answer .size (run v buf .strlenR) (some .strlenR)
    | _ => "bad-op"
  | _, _, _ => "bad-op"

end Sbepp.Drive.C14
