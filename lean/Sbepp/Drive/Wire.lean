import Sbepp.Drive.Common
import Sbepp.Spec.Observe
import Sbepp.Spec.Encode
import Sbepp.Gen.SizeFormula
import Sbepp.Gen.HeaderFill
import Sbepp.Spec.Events
import Sbepp.Rt.Parse

namespace Sbepp.Drive.Wire
open Sbepp Sbepp.Schema Sbepp.Observe

def jstr (s : String) : String := "\"" ++ s ++ "\""

def leafJson (l : NLeaf) : String :=
  "{\"path\":[" ++ ",".intercalate (l.path.map jstr) ++ s!"],\"off\":{l.off},\"size\":{l.size},\"prim\":{jstr l.prim},\"count\":{l.count},\"kind\":{jstr l.kind}}"

def dataJson (d : NData) : String :=
  s!"\{\"name\":{jstr d.name},\"lenSize\":{d.lenSize},\"lenPrim\":{jstr d.lenPrim},\"lenOff\":{d.lenOff},\"hdrSize\":{d.hdrSize},\"elemPrim\":{jstr d.elemPrim}}"

def dimJson (d : NDim) : String :=
  s!"\{\"name\":{jstr d.name},\"size\":{d.dim.size},\"blOff\":{d.dim.blOff},\"blSize\":{d.dim.blSize},\"numOff\":{d.dim.numOff},\"numSize\":{d.dim.numSize},\"blPrim\":{jstr d.blPrim},\"numPrim\":{jstr d.numPrim},\"leaves\":[" ++ ",".intercalate (d.leaves.map leafJson) ++ "]}"

mutual
  partial def levelJson : NLevel → String
    | .mk bl lv gs ds =>
      s!"\{\"blockLen\":{bl},\"leaves\":[" ++ ",".intercalate (lv.map leafJson) ++ "],\"groups\":["
        ++ ",".intercalate (gs.map groupJson) ++ "],\"datas\":[" ++ ",".intercalate (ds.map dataJson) ++ "]}"
  partial def groupJson : NGroup → String
    | .mk name dim l => s!"\{\"name\":{jstr name},\"dim\":{dimJson dim},\"level\":{levelJson l}}"
end

def messageJson (m : NMessage) : String :=
  s!"\{\"name\":{jstr m.name},\"id\":{m.id},\"hdrSize\":{m.hdrSize},\"hdrLeaves\":[" ++
    ",".intercalate (m.hdrLeaves.map leafJson) ++ s!"],\"level\":{levelJson m.level}}"

/-- `layout <schema-sexp>` -/
def layout (payload : String) : String :=
  match (SExp.parseOne payload).bind parseSchema with
  | none => "{\"error\":\"bad-schema-sexp\"}"
  | some s =>
    let rs := s.messages.map (fun m => (m.name, resolveMessage s m))
    "{\"byteOrder\":" ++ jstr (if s.byteOrder = .big then "big" else "little") ++ ",\"messages\":[" ++
      ",".intercalate (rs.map (fun (n, r) =>
        match r with
        | .ok m => messageJson m
        | .error e => s!"\{\"name\":{jstr n},\"error\":{jstr (e.replace "\"" "'")}}")) ++ "]}"

/-- `decode (req (schema ...) (msg NAME) (value (msg (hdr HEX) (root (lv ...)))))`
    → `conf=<bool> image=<hex> spec=<obs> model=<obs>` -/
def decode (payload : String) : String :=
  match SExp.parseOne payload with
  | none => "bad-op"
  | some req =>
    match (req.field? "schema").bind (fun l => parseSchema (SExp.list (SExp.atom "schema" :: l))),
          req.atomField? "msg", req.field? "value" with
    | some s, some mname, some [v] =>
      match s.messages.find? (·.name = mname) with
      | none => "bad-op no-such-message"
      | some md =>
        match resolveMessage s md with
        | .error e => s!"diag {e}"
        | .ok m =>
          match (v.atomField? "hdr").bind xhex, (v.field? "root").bind (fun l => l.head?.bind parseLVal) with
          | some hdr, some root =>
            let bo := s.byteOrder
            let L := m.level.erase
            let image := hdr ++ flattenL bo L root
            let blLeaf := findLeaf m.hdrLeaves "blockLength"
            let wblHdr := match blLeaf with
              | some l => get bo (slice hdr l.off l.size)
              | none => 0
            let conf := decide (hdr.length = m.hdrSize) && confLB bo L root wblHdr && isBytesB image
            let specObs := m.hdrLeaves.map (fun l => leafObs bo "h." l (slice hdr l.off l.size))
              ++ specL bo "" m.level root ++ [s!"size={image.length}"]
            -- model: only the buffer is consulted
            let wblM := match blLeaf with
              | some l => rd bo image l.off l.size
              | none => 0
            let modelObs := m.hdrLeaves.map (fun l => leafObs bo "h." l (slice image l.off l.size))
              ++ modelL bo image "" m.level m.hdrSize wblM
              ++ [s!"size={endL bo image L m.hdrSize wblM}"]
            let counts := match m.level, root with
              | .mk _ _ gs _, .mk _ gvs _ => Gen.countsGs gs gvs
            let td := Gen.totalData root
            let cs := ",".intercalate (counts.map toString)
            s!"conf={conf} image={SExp.hex image} spec={";".intercalate specObs} model={";".intercalate modelObs} counts={cs} tdata={td} traitsize={Gen.messageSize m counts td}"
          | _, _ => "bad-op bad-value"
    | _, _, _ => "bad-op bad-request"

/-- `encode (req (schema ...) (msg NAME) (value (msg (hdr HEX) (root (lv ...)))) (prefill HEX))`
    → `expect=<hex> end=<n>`: the buffer an in-order encode of the value must produce -/
def encode (payload : String) : String :=
  match SExp.parseOne payload with
  | none => "bad-op"
  | some req =>
    match (req.field? "schema").bind (fun l => parseSchema (SExp.list (SExp.atom "schema" :: l))),
          req.atomField? "msg", req.field? "value", (req.atomField? "prefill").bind xhex with
    | some s, some mname, some [v], some prefill =>
      match s.messages.find? (·.name = mname) with
      | none => "bad-op no-such-message"
      | some md =>
        match resolveMessage s md with
        | .error e => s!"diag {e}"
        | .ok m =>
          match (v.field? "root").bind (fun l => l.head?.bind parseLVal) with
          | some root =>
            let bo := s.byteOrder
            let buf := Gen.fillMessageHeader bo s m md.groups.length md.datas.length prefill
            let r := Spec.encL bo m.level.erase root buf m.hdrSize
            s!"expect={SExp.hex r.1} end={r.2}"
          | none => "bad-op bad-value"
    | _, _, _, _ => "bad-op bad-request"

/-- `visit (req (schema ...) (msg NAME) (value (msg (hdr xHEX) (root (lv ...)))))`
    → `image=<hex> spec=<records> model=<records> end=<n>`: the callbacks of a complete recursing visit.
    `spec` is computed from the value tree, `model` from the tree reconstructed by walking the image. -/
def visit (payload : String) : String :=
  match SExp.parseOne payload with
  | none => "bad-op"
  | some req =>
    match (req.field? "schema").bind (fun l => parseSchema (SExp.list (SExp.atom "schema" :: l))),
          req.atomField? "msg", req.field? "value" with
    | some s, some mname, some [v] =>
      match s.messages.find? (·.name = mname) with
      | none => "bad-op no-such-message"
      | some md =>
        match resolveMessage s md with
        | .error e => s!"diag {e}"
        | .ok m =>
          match (v.atomField? "hdr").bind xhex, (v.field? "root").bind (fun l => l.head?.bind parseLVal) with
          | some hdr, some root =>
            let bo := s.byteOrder
            let L := m.level.erase
            let image := hdr ++ flattenL bo L root
            let wblM := match findLeaf m.hdrLeaves "blockLength" with
              | some l => rd bo image l.off l.size
              | none => 0
            let specEv := Spec.Events.eventsL bo s.types "" md.fields md.groups m.level root
            let parsed := parseL bo image L m.hdrSize wblM
            let modelEv := Spec.Events.eventsL bo s.types "" md.fields md.groups m.level parsed
            s!"image={SExp.hex image} spec={";".intercalate specEv} model={";".intercalate modelEv} end={endL bo image L m.hdrSize wblM}"
          | _, _ => "bad-op bad-value"
    | _, _, _ => "bad-op bad-request"

end Sbepp.Drive.Wire
