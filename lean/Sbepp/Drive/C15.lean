import Sbepp.Drive.Common
import Sbepp.Extracted.Kernels
import Sbepp.Spec.Bits
import Sbepp.Rt.BitsSeq

namespace Sbepp.Drive.C15
open Sbepp Sbepp.Drive Sbepp.Extracted

/-- `bits op=get|set T=u8 v=.. n=.. [b=0|1]`  →  `model=<kernel> spec=<spec>`
    `bits op=getsum|setsum T=.. n=.. [b=..] lo=.. hi=..` → weighted checksums over v ∈ [lo,hi) -/
def parseOps? (s : String) : Option (List (Nat × Bool)) :=
  (s.splitOn ",").mapM (fun item =>
    match item.splitOn ":" with
    | [n, b] => match parseNat? n, parseNat? b with
      | some n, some b => some (n, b != 0)
      | _, _ => none
    | _ => none)

/-- `bits op=seq T=.. v=.. n=0 ops=n:b,n:b,...` → the whole history through the
    kernel (`runSets`) and through the specification (fold of `Spec.setBit`) -/
def handleSeq (t : CTy) (args : List String) : String :=
  match natArg? args "v", (arg? args "ops").bind parseOps? with
  | some v, some ops =>
    let m := runSets t v ops
    let s := ops.foldl (fun acc p => Spec.setBit acc p.1 p.2) v
    s!"model={fmtOpt m} spec={s}"
  | _, _ => "bad-op"

def handle (args : List String) : String :=
  match arg? args "op", tyArg? args "T", natArg? args "n" with
  | some "seq", some t, some _ => handleSeq t args
  | some "get", some t, some n =>
    match natArg? args "v" with
    | some v =>
      let m := (bitset_get_bit t).retBits [v, n]
      let s := if Spec.getBit v n then 1 else 0
      s!"model={fmtOpt m} spec={s}"
    | none => "bad-op"
  | some "set", some t, some n =>
    match natArg? args "v", natArg? args "b" with
    | some v, some b =>
      let m := (bitset_set_bit t).varBits [v, n, b] "bits"
      let s := Spec.setBit v n (b != 0)
      s!"model={fmtOpt m} spec={s}"
    | _, _ => "bad-op"
  | some "getsum", some t, some n =>
    match natArg? args "lo", natArg? args "hi" with
    | some lo, some hi =>
      let (ms, ss, ub) := (List.range (hi - lo)).foldl (fun (acc : Nat × Nat × Nat) k =>
        let v := lo + k
        let (ms, ss, ub) := acc
        let s := if Spec.getBit v n then 1 else 0
        match (bitset_get_bit t).retBits [v, n] with
        | some r => ((ms + r * (v + 1)) % 2 ^ 64, (ss + s * (v + 1)) % 2 ^ 64, ub)
        | none => (ms, (ss + s * (v + 1)) % 2 ^ 64, ub + 1)) (0, 0, 0)
      s!"model={ms} modelub={ub} spec={ss}"
    | _, _ => "bad-op"
  | some "setsum", some t, some n =>
    match natArg? args "lo", natArg? args "hi", natArg? args "b" with
    | some lo, some hi, some b =>
      let (ms, ss, ub) := (List.range (hi - lo)).foldl (fun (acc : Nat × Nat × Nat) k =>
        let v := lo + k
        let (ms, ss, ub) := acc
        let s := Spec.setBit v n (b != 0)
        match (bitset_set_bit t).varBits [v, n, b] "bits" with
        | some r => ((ms + r * (v + 1)) % 2 ^ 64, (ss + s * (v + 1)) % 2 ^ 64, ub)
        | none => (ms, (ss + s * (v + 1)) % 2 ^ 64, ub + 1)) (0, 0, 0)
      s!"model={ms} modelub={ub} spec={ss}"
    | _, _, _ => "bad-op"
  | _, _, _ => "bad-op"

end Sbepp.Drive.C15
