/-
  C07 driver request

    wellformed <schema-sexp>

  answers what the model predicts for the code generated from the schema:
    accepted=<bool> names=<chosen,chosen,...> problems=<item;item;...>
  `accepted`: the model's necessary conditions for sbeppc to accept the schema
  hold (names, values, ranges, uniqueness, layout, integer header members, header
  values in range, distinct enumerators), so do the validator rules as C08
  states them (`Spec.Rules.violations s = []`), and every literal site the
  model enumerates carries a value that passed the validator's check for it
  (`Site.validated`, the hypothesis of `literal_sites_fit_partial`).  One item per predicted
  problem: `class|entity|name|on`, `on` ∈ all | gcc | clang | pre17 | maybe
  (configurations that reject) or `none` (well-formed, but the literal denotes
  another value than the schema says).  `problems=` empty: every header and the
  touch-everything translation unit must compile.  `names`: the class names the
  model's names generator (driven by the decision sites extracted from
  names_generator.hpp) chose, see `chosenNames`.

  The S-expression is the one of vlib/schema.py plus the optional fields
  `(packageText x<hex>)` (the `package` attribute when it is not a plain atom)
  and `(schemaName N)` (sbeppc --schema-name).
-/
import Sbepp.Drive.Common
import Sbepp.Gen.Accept
import Sbepp.Lemmas.C07Literals

namespace Sbepp.Drive.C07
open Sbepp Sbepp.Schema Sbepp.Gen

def verdictOn : Literals.Verdict → String
  | .ok => ""
  | .changed => "none"
  | .bad => "all"
  | .badPre17 => "pre17"
  | .implDep => "maybe"

def literalProblems (s : SchemaDef) (x : Literals.SchemaTexts) : List Scope.Problem :=
  (Literals.literalSites s x).filterMap (fun site =>
    match site.verdict with
    | .ok => none
    | v => some ⟨"literal-" ++ site.kind, site.entity, v.name, verdictOn v⟩)

/-- the two descriptions of what lands in the `detail` namespaces (the generator's `declared` log, about which
    `detail_*_distinct` are proved, and the declaration list the scope problems are computed from) must agree -/
def consistencyProblems (s : SchemaDef) : List Scope.Problem :=
  match Scope.nsDecls s, Scope.typeNames s.types, Scope.messageNames s.messages with
  | some ds, some ts, some ms =>
    (if Scope.detailNames "detail.types" ds == ts.declared then []
     else [⟨"model-inconsistent", "detail.types", "declared", "all"⟩]) ++
    (if Scope.detailNames "detail.messages" ds == ms.declared then []
     else [⟨"model-inconsistent", "detail.messages", "declared", "all"⟩])
  | _, _, _ => []

def allProblems (s : SchemaDef) (x : Literals.SchemaTexts) : List Scope.Problem :=
  Scope.nameProblems s ++ Scope.duplicateProblems s ++ consistencyProblems s ++ Scope.paramProblems s ++
  Scope.includeProblems s ++ literalProblems s x ++ headerTypeProblems s ++ duplicateCaseProblems s

/-- the names the generator chose: `T|I:<schema name>:<class>` for public / inline types, `M:<name>:<class>` for
    messages, `G:<name>:<class>:<entry class>` for groups, in generation order; `C:types:<struct>` / `C:messages:<struct>`
    for the two tag containers of `S::schema` -/
def chosenNames (s : SchemaDef) : List String :=
  ((Scope.typeNames s.types).map (fun ts =>
      ts.out.map (fun a => (if a.isPublic then "T:" else "I:") ++ a.name ++ ":" ++ a.impl))).getD [] ++
  ((Scope.messageNames s.messages).map (fun ms =>
      ms.out.map (fun a => if a.isMessage then "M:" ++ a.name ++ ":" ++ a.impl
                           else "G:" ++ a.name ++ ":" ++ a.impl ++ ":" ++ a.entry))).getD [] ++
  ((Scope.tagTypesName s.types).map (fun n => ["C:types:" ++ n])).getD [] ++
  ((Scope.tagMessagesName s.messages).map (fun n => ["C:messages:" ++ n])).getD []

/-- the model's necessary conditions and the validator rules of C08 -/
def accepted (s : SchemaDef) : Bool := acceptedB s && rulesHold s

def fmtProblem (p : Scope.Problem) : String :=
  p.cls ++ "|" ++ p.entity ++ "|" ++ p.name ++ "|" ++ p.on

def handle (payload : String) : String :=
  match SExp.parseOne payload with
  | none => "bad-schema-sexp"
  | some e =>
    match parseSchema e with
    | none => "bad-schema-sexp"
    | some s0 =>
      let pkg := (textField? e "packageText").getD s0.package
      let s := { s0 with package := (e.atomField? "schemaName").getD s0.package }
      let ps := allProblems s ⟨pkg⟩
      -- every literal site of an accepted schema must have passed the check sbeppc applies to its value
      let sitesOk := (Literals.literalSites s ⟨pkg⟩).all (fun site => site.validated)
      s!"accepted={accepted s && sitesOk} names=" ++ ",".intercalate (chosenNames s) ++ " problems=" ++
        ";".intercalate (ps.map fmtProblem)

end Sbepp.Drive.C07
