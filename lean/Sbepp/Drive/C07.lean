/-
  C07 driver request

    wellformed <schema-sexp>

  answers what the model predicts for the code generated from the schema:
    accepted=<bool> names=<chosen,chosen,...> problems=<item;item;...>
  `accepted`: the model's necessary conditions for sbeppc to accept the schema
  hold (names, values, ranges, uniqueness, layout) and every literal site the
  model enumerates carries a value that passed the validator's check for it
  (`Site.validated`, the hypothesis of `literal_sites_fit_partial`).  One item per predicted
  problem: `class|entity|name|on`, `on` ∈ all | gcc | clang | pre17 | maybe
  (configurations that reject) or `none` (well-formed, but the literal denotes
  another value than the schema says).  `problems=` empty: every header and the
  touch-everything translation unit must compile.  `names`: the class names the
  model's names generator (driven by the decision sites extracted from
  names_generator.hpp) chose, see `chosenNames`.

  The S-expression is the one of vlib/schema.py plus the optional fields
  `(packageText x<hex>)` (the `package` attribute when it is not a plain atom)
  and `(schemaName N)` (sbeppc --schema-name).
-/
import Sbepp.Drive.Common
import Sbepp.Gen.Accept
import Sbepp.Lemmas.C07Literals

namespace Sbepp.Drive.C07
open Sbepp Sbepp.Schema Sbepp.Gen

def verdictOn : Literals.Verdict → String
  | .ok => ""
  | .changed => "none"
  | .bad => "all"
  | .badPre17 => "pre17"
  | .implDep => "maybe"

def literalProblems (s : SchemaDef) (x : Literals.SchemaTexts) : List Scope.Problem :=
  (Literals.literalSites s x).filterMap (fun site =>
    match site.verdict with
    | .ok => none
    | v => some ⟨"literal-" ++ site.kind, site.entity, v.name, verdictOn v⟩)

/-- header members whose type cannot be used where the runtime does arithmetic with it -/
def headerTypeProblems (s : SchemaDef) : List Scope.Problem :=
  let fp (entity header member : String) : List Scope.Problem :=
    match Literals.headerMemberPrim? s.types header member with
    | some p => if p.isFloat then [⟨"floating-point-header-member", entity, member, "all"⟩] else []
    | none => []
  let rec groups (path : String) (fuel : Nat) (gs : List GroupDef) : List Scope.Problem :=
    match fuel with
    | 0 => []
    | fuel + 1 =>
      gs.flatMap (fun g =>
        match g with
        | .mk n _ dim _ _ inner datas _ =>
          fp (path ++ n) dim "blockLength" ++ fp (path ++ n) dim "numInGroup" ++
          datas.flatMap (fun d => fp (path ++ n ++ "." ++ d.name) d.type "length") ++
          groups (path ++ n ++ ".") fuel inner)
  s.messages.flatMap (fun m =>
    -- the wire block length of a message is only added to a pointer where a member follows the header
    (if m.fields.any (fun f => !Scope.constField s.types f) || !m.groups.isEmpty || !m.datas.isEmpty then
       fp ("messages." ++ m.name) s.headerType "blockLength" else []) ++
    m.datas.flatMap (fun d => fp ("messages." ++ m.name ++ "." ++ d.name) d.type "length") ++
    groups ("messages." ++ m.name ++ ".") 64 m.groups)

/-- two enumerators of one enum with the same value: duplicate `case` in the generated `switch` -/
def duplicateCaseProblems (s : SchemaDef) : List Scope.Problem :=
  let rec go (path : String) (fuel : Nat) (es : List Elem) : List Scope.Problem :=
    match fuel with
    | 0 => []
    | fuel + 1 =>
      es.flatMap (fun e =>
        match e with
        | .enum n enc _ values _ =>
          let pn := match encPrim s.types enc with | .ok x => x | .error _ => ""
          match Literals.primOf? pn with
          | some p =>
            let vs := values.filterMap (fun v => Literals.enumeratorValue (pn == "char") p v.value)
            let rec dup : List Int → Bool
              | [] => false
              | x :: xs => xs.contains x || dup xs
            if dup vs then [⟨"duplicate-case", path ++ n, n, "all"⟩] else []
          | none => []
        | .composite n _ elems _ => go (path ++ n ++ ".") fuel elems
        | _ => [])
  go "types." 64 s.types

/-- the two descriptions of what lands in the `detail` namespaces (the generator's `declared` log, about which
    `detail_*_distinct` are proved, and the declaration list the scope problems are computed from) must agree -/
def consistencyProblems (s : SchemaDef) : List Scope.Problem :=
  match Scope.nsDecls s, Scope.typeNames s.types, Scope.messageNames s.messages with
  | some ds, some ts, some ms =>
    (if Scope.detailNames "detail.types" ds == ts.declared then []
     else [⟨"model-inconsistent", "detail.types", "declared", "all"⟩]) ++
    (if Scope.detailNames "detail.messages" ds == ms.declared then []
     else [⟨"model-inconsistent", "detail.messages", "declared", "all"⟩])
  | _, _, _ => []

def allProblems (s : SchemaDef) (x : Literals.SchemaTexts) : List Scope.Problem :=
  Scope.nameProblems s ++ Scope.duplicateProblems s ++ consistencyProblems s ++ Scope.paramProblems s ++
  Scope.includeProblems s ++ literalProblems s x ++ headerTypeProblems s ++ duplicateCaseProblems s

/-- the names the generator chose: `T|I:<schema name>:<class>` for public / inline types, `M:<name>:<class>` for
    messages, `G:<name>:<class>:<entry class>` for groups, in generation order; `C:types:<struct>` / `C:messages:<struct>`
    for the two tag containers of `S::schema` -/
def chosenNames (s : SchemaDef) : List String :=
  ((Scope.typeNames s.types).map (fun ts =>
      ts.out.map (fun a => (if a.isPublic then "T:" else "I:") ++ a.name ++ ":" ++ a.impl))).getD [] ++
  ((Scope.messageNames s.messages).map (fun ms =>
      ms.out.map (fun a => if a.isMessage then "M:" ++ a.name ++ ":" ++ a.impl
                           else "G:" ++ a.name ++ ":" ++ a.impl ++ ":" ++ a.entry))).getD [] ++
  ((Scope.tagTypesName s.types).map (fun n => ["C:types:" ++ n])).getD [] ++
  ((Scope.tagMessagesName s.messages).map (fun n => ["C:messages:" ++ n])).getD []

def accepted (s : SchemaDef) : Bool := acceptedB s

def fmtProblem (p : Scope.Problem) : String :=
  p.cls ++ "|" ++ p.entity ++ "|" ++ p.name ++ "|" ++ p.on

def handle (payload : String) : String :=
  match SExp.parseOne payload with
  | none => "bad-schema-sexp"
  | some e =>
    match parseSchema e with
    | none => "bad-schema-sexp"
    | some s0 =>
      let pkg := (textField? e "packageText").getD s0.package
      let s := { s0 with package := (e.atomField? "schemaName").getD s0.package }
      let ps := allProblems s ⟨pkg⟩
      -- every literal site of an accepted schema must have passed the check sbeppc applies to its value
      let sitesOk := (Literals.literalSites s ⟨pkg⟩).all (fun site => site.validated)
      s!"accepted={accepted s && sitesOk} names=" ++ ",".intercalate (chosenNames s) ++ " problems=" ++
        ";".intercalate (ps.map fmtProblem)

end Sbepp.Drive.C07
