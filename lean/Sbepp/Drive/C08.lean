/-
  C08 driver: `verdict <schema-sexp>` →
    `verdict=ok|diag class=<class> at=<path> set=<class@path,...> rules=<true|false> viol=<class@path,...>`
  `verdict/class/at/set` come from the implementation model (`Schema.Rules.check`),
  `rules/viol` from the specification (`Spec.Rules.violations`).

  Transport extensions over `vlib/schema.py to_sexp` (produced by `vlib/mutate.py`):
  a field `(key! x<hex>)` carries an arbitrary string for `key` (names that are
  not atoms); the parser's default `length` of a constant `char` type is applied
  here (`schema_parser.hpp: parse_type_encoding`).
-/
import Sbepp.Drive.Common
import Sbepp.Schema.Rules
import Sbepp.Spec.Rules

namespace Sbepp.Drive.C08
open Sbepp Sbepp.Schema

def unhexStr (a : String) : Option String :=
  if a.startsWith "x" then
    (SExp.unhex (a.drop 1).toString).bind (fun bs =>
      String.fromUTF8? (ByteArray.mk (bs.map (fun b => b.toUInt8)).toArray))
  else none

/-- `(key! xHEX)` → `(key <decoded>)` everywhere -/
partial def decodeBang : SExp → SExp
  | .atom a => .atom a
  | .list [.atom k, .atom v] =>
    if k.endsWith "!" then .list [.atom (k.dropEnd 1).toString, .atom ((unhexStr v).getD v)]
    else .list [.atom k, .atom v]
  | .list l => .list (l.map decodeBang)

/-- `t.length = t.constant_value->size()` for a constant `char` type without `length` -/
partial def constCharLength : SExp → SExp
  | .atom a => .atom a
  | .list l =>
    let l' := l.map constCharLength
    let e := SExp.list l'
    if e.head? = some "type" ∧ e.atomField? "presence" = some "constant" ∧ e.atomField? "prim" = some "char"
        ∧ (e.field? "length").isNone then
      match (e.atomField? "const").bind unhexStr with
      | some c => .list (l' ++ [.list [.atom "length", .atom (toString c.utf8ByteSize)]])
      | none => e
    else e

def hexOf (s : String) : String := SExp.hex (s.toUTF8.data.toList.map UInt8.toNat)

def comp (s : String) : String := if Spec.Rules.symbolicName s then s else "~" ++ hexOf s

def pathStr (p : Spec.Rules.Path) : String := "/".intercalate (p.map comp)

def violStr (v : Spec.Rules.DiagClass × Spec.Rules.Path) : String := v.1.toString ++ "@" ++ pathStr v.2

def handle (payload : String) : String :=
  match (SExp.parseOne payload).map (fun e => constCharLength (decodeBang e)) |>.bind parseSchema with
  | none => "bad-schema-sexp"
  | some s =>
    let viol := Spec.Rules.violations s
    let spec := s!"rules={viol.isEmpty} viol={",".intercalate (viol.map violStr)}"
    match Schema.Rules.check s with
    | .ok () => s!"verdict=ok {spec}"
    | .error d =>
      let set := if d.alts.isEmpty then [(d.cls, d.loc)] else d.alts
      s!"verdict=diag class={d.cls.toString} at={pathStr d.loc} set={",".intercalate (set.map violStr)} {spec}"

end Sbepp.Drive.C08
