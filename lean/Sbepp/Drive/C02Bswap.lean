import Sbepp.Drive.Common
import Sbepp.Extracted.Kernels
import Sbepp.Base.Bytes

namespace Sbepp.Drive.C02Bswap
open Sbepp Sbepp.Drive Sbepp.Extracted

/-- same definition as `Sbepp.bswapSpec` (Lemmas/Byteswap.lean), repeated here because the
    driver imports no proof files -/
def spec (w v : Nat) : Nat := getLE (putBE w v)

/-- `bswap variant=portable|via32|builtin w=16|32|64 v=..` → `model=<kernel> spec=<spec>`;
    for `builtin` (the compiler intrinsic / std::byteswap) the model is the specification -/
def handle (args : List String) : String :=
  match arg? args "variant", natArg? args "w", natArg? args "v" with
  | some var, some w, some v =>
    let s := spec (w / 8) v
    let m : Option Nat :=
      match var, w with
      | "portable", 64 => byteswap_portable_u64.retBits [v]
      | "portable", 32 => byteswap_portable_u32.retBits [v]
      | "portable", 16 => byteswap_portable_u16.retBits [v]
      | "via32", 16 => byteswap_u16_via_bswap32.retBits [spec 4 v]
      | "builtin", _ => some s
      | _, _ => none
    s!"model={fmtOpt m} spec={s}"
  | _, _, _ => "bad-op"

end Sbepp.Drive.C02Bswap
