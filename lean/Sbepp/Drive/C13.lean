/-
  Driver handler for C13 (`dyn` requests): one line = one whole operation
  sequence on a `dynamic_array_ref` from an initial memory image.

    dyn len=u8|u16|u32|u64 bo=le|be [elem=..] cap=<bytes the view may use>
        init=<hex of the memory block; bytes beyond `cap` are slack/canary>
        ops=<op>;<op>;…

  op ::= push(HH) | pop() | clear() | erase(i) | erasr(i,j) | ins(i,HH)
       | insn(i,k,HH) | insr(i,HEX) | insi(i,HEX) | insl(i,HEX)
       | rsz(n) | rszv(n,HH) | rszd(n) | asgn(n,HH)
       | asgr(HEX) | asgl(HEX) | asgs(HEX) | asgrr(HEX)
  positions are element indices from begin(); HH is one byte in hex.

  answer:
    model=<memory hex>;<returned indices>;<flags>;<size()>;<size_bytes>
    spec=<contents hex>;<returned indices>;<flags>;<length>;<peak length>
  flags per operation: ok | ASSERT | UB (model), ok | pre | big (spec), `-`
  after the run stopped.  `??` in the spec contents is an indeterminate byte
  (`resize(n, default_init)`).
-/
import Sbepp.Drive.Common
import Sbepp.Rt.DynArray
import Sbepp.Spec.Vector

namespace Sbepp.Drive.C13
open Sbepp Sbepp.Drive Sbepp.Rt.DynArray Sbepp.Spec.Vec

def hexVal? (c : Char) : Option Nat :=
  if c.isDigit then some (c.toNat - '0'.toNat)
  else if 'a' ≤ c ∧ c ≤ 'f' then some (c.toNat - 'a'.toNat + 10)
  else if 'A' ≤ c ∧ c ≤ 'F' then some (c.toNat - 'A'.toNat + 10)
  else none

def unhexL : List Char → Option (List Nat)
  | [] => some []
  | [_] => none
  | a :: b :: rest =>
    match hexVal? a, hexVal? b, unhexL rest with
    | some x, some y, some r => some ((x * 16 + y) :: r)
    | _, _, _ => none

def unhex? (s : String) : Option (List Nat) := unhexL s.toList

def hexDigit (n : Nat) : Char :=
  if n < 10 then Char.ofNat ('0'.toNat + n) else Char.ofNat ('a'.toNat + (n - 10))

/-- bytes as hex; a value that is not a byte (the spec's indeterminate marker) as `??` -/
def hex (bs : List Nat) : String :=
  String.ofList (bs.foldr (fun b acc =>
    if b < 256 then hexDigit (b / 16) :: hexDigit (b % 16) :: acc else '?' :: '?' :: acc) [])

def byte? (s : String) : Option Nat :=
  match unhex? s with
  | some [b] => some b
  | _ => none

def parseOp? (s : String) : Option Op :=
  match s.splitOn "(" with
  | [name, rest] =>
    if !rest.endsWith ")" then none else
    let inner := String.ofList (rest.toList.dropLast)
    let args := if inner.isEmpty then [] else inner.splitOn ","
    match name, args with
    | "push", [v] => (byte? v).map Op.pushBack
    | "pop", [] => some Op.popBack
    | "clear", [] => some Op.clear
    | "erase", [i] => i.toNat?.map Op.erase
    | "erasr", [i, j] => do some (Op.eraseRange (← i.toNat?) (← j.toNat?))
    | "ins", [i, v] => do some (Op.insert (← i.toNat?) (← byte? v))
    | "insn", [i, k, v] => do some (Op.insertN (← i.toNat?) (← k.toNat?) (← byte? v))
    | "insr", [i, xs] => do some (Op.insertRange (← i.toNat?) (← unhex? xs))
    | "insr", [i] => do some (Op.insertRange (← i.toNat?) [])
    | "insi", [i, xs] => do some (Op.insertInput (← i.toNat?) (← unhex? xs))
    | "insi", [i] => do some (Op.insertInput (← i.toNat?) [])
    | "insl", [i, xs] => do some (Op.insertList (← i.toNat?) (← unhex? xs))
    | "insl", [i] => do some (Op.insertList (← i.toNat?) [])
    | "rsz", [n] => n.toNat?.map Op.resize
    | "rszv", [n, v] => do some (Op.resizeV (← n.toNat?) (← byte? v))
    | "rszd", [n] => n.toNat?.map Op.resizeDI
    | "asgn", [n, v] => do some (Op.assignN (← n.toNat?) (← byte? v))
    | "asgr", [xs] => (unhex? xs).map Op.assignRange
    | "asgr", [] => some (Op.assignRange [])
    | "asgl", [xs] => (unhex? xs).map Op.assignList
    | "asgl", [] => some (Op.assignList [])
    | "asgs", [xs] => (unhex? xs).map Op.assignString
    | "asgs", [] => some (Op.assignString [])
    | "asgrr", [xs] => (unhex? xs).map Op.assignRangeR
    | "asgrr", [] => some (Op.assignRangeR [])
    | _, _ => none
  | _ => none

def parseOps? (s : String) : Option (List Op) :=
  if s.isEmpty then some [] else (s.splitOn ";").mapM parseOp?

def fmtRet : Option Nat → String
  | some i => toString i
  | none => "-"

structure ModelRun where
  buf : List Nat
  rets : List String := []
  flags : List String := []
  stopped : Bool := false

def modelRun (P : Params) (ops : List Op) (buf : List Nat) : ModelRun :=
  ops.foldl (fun (st : ModelRun) op =>
    if st.stopped then { st with rets := st.rets ++ ["-"], flags := st.flags ++ ["-"] } else
    match step P op st.buf with
    | .ok r b => { st with buf := b, rets := st.rets ++ [fmtRet r], flags := st.flags ++ ["ok"] }
    | .assertFailed b =>
      { st with buf := b, rets := st.rets ++ ["-"], flags := st.flags ++ ["ASSERT"], stopped := true }
    | .ub => { st with rets := st.rets ++ ["-"], flags := st.flags ++ ["UB"], stopped := true })
    { buf := buf }

structure SpecRun where
  v : List Nat
  rets : List String := []
  flags : List String := []
  peak : Nat
  stopped : Bool := false

/-- marker for an indeterminate byte in the specification's contents -/
def indeterminate : Nat := 256

def specRun (capElems maxLen : Nat) (ops : List Op) (v : List Nat) : SpecRun :=
  ops.foldl (fun (st : SpecRun) op =>
    if st.stopped then { st with rets := st.rets ++ ["-"], flags := st.flags ++ ["-"] } else
    if ¬ op.pre st.v.length then
      { st with rets := st.rets ++ ["-"], flags := st.flags ++ ["pre"], stopped := true }
    else if op.newLen st.v.length > capElems ∨ op.newLen st.v.length ≥ maxLen then
      { st with rets := st.rets ++ ["-"], flags := st.flags ++ ["big"], stopped := true }
    else
      let v' := op.apply indeterminate st.v
      { st with v := v', rets := st.rets ++ [fmtRet op.ret], flags := st.flags ++ ["ok"],
                peak := max st.peak v'.length })
    { v := v, peak := v.length }

def widthOf? : String → Option Nat
  | "u8" => some 1 | "u16" => some 2 | "u32" => some 4 | "u64" => some 8
  | _ => none

def fmtM (r : Res Nat) : String :=
  match r with
  | .ok a _ => toString a
  | .assertFailed _ => "ASSERT"
  | .ub => "UB"

def handle (args : List String) : String :=
  match (arg? args "len").bind widthOf?, arg? args "bo", natArg? args "cap",
        (arg? args "init").bind unhex?, (arg? args "ops").bind parseOps? with
  | some w, some bo, some cap, some init, some ops =>
    if bo ≠ "le" ∧ bo ≠ "be" then "bad-op" else
    let P : Params := { w := w, be := bo = "be", avail := cap }
    let m := modelRun P ops init
    let sz := if m.stopped then "-" else fmtM (size P m.buf)
    let sb := if m.stopped then "-" else fmtM (sizeBytes P m.buf)
    let mtxt := s!"model={hex m.buf};{",".intercalate m.rets};{",".intercalate m.flags};{sz};{sb}"
    -- initial vector: the abstraction of the initial memory, if it is well formed
    let n0 := getN P.be (init.take w)
    if w ≤ cap ∧ cap ≤ init.length ∧ w + n0 ≤ cap then
      let v0 := (init.drop w).take n0
      let s := specRun (cap - w) (256 ^ w) ops v0
      s!"{mtxt} spec={hex s.v};{",".intercalate s.rets};{",".intercalate s.flags};{s.v.length};{s.peak}"
    else s!"{mtxt} spec=bad-init"
  | _, _, _, _, _ => "bad-op"

end Sbepp.Drive.C13
