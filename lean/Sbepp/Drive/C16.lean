/-
  Line-protocol handlers for C16 (model side of Layer R).

  opt kind=opt|req p=<prim> impl=ops|spaceship min=<hex> max=<hex> null=<hex> a=<hex> b=<hex>
      → model=<F> spec=<F>   with
        F = eq,ne,lt,le,gt,ge,hasa,hasb,boola,inrangea,valueor,hasd,booln,dv
        (relations of (a, b); has_value of a and b; operator bool of a;
        in_range of a; a.value_or(b); has_value of a default-constructed
        object; operator bool of a nullopt-constructed one; value stored by
        the default constructor).  Booleans 0/1, values hex, `NC` = ill-formed
        (does not compile), `-` = not applicable (required types).
  opttab p=<prim> k=min|max|null
      → gen=<hex|ILL> builtin=<hex|ILL> spec=<hex> same=<0|1>
  optlit p=<prim> text=<hex of the UTF-8 literal text>
      → val=<hex|ILL>
  All values are object representations in hex (no prefix), zero-padded to the
  width of the primitive.
-/
import Sbepp.Drive.Common
import Sbepp.Rt.Optional
import Sbepp.Rt.Defaults
import Sbepp.Spec.Optional

namespace Sbepp.Drive.C16
open Sbepp Sbepp.Drive Sbepp.Rt.Scalar Sbepp.Spec.Scalar

def primArg? (s : String) : Option Prim :=
  match s with
  | "char" => some .char
  | "i8" | "int8" => some .int8 | "i16" | "int16" => some .int16
  | "i32" | "int32" => some .int32 | "i64" | "int64" => some .int64
  | "u8" | "uint8" => some .uint8 | "u16" | "uint16" => some .uint16
  | "u32" | "uint32" => some .uint32 | "u64" | "uint64" => some .uint64
  | "f32" | "float" => some .float | "f64" | "double" => some .double
  | _ => none

def hexDigitChar (d : Nat) : Char :=
  if d < 10 then Char.ofNat ('0'.toNat + d) else Char.ofNat ('a'.toNat + d - 10)

def toHex (digits : Nat) (n : Nat) : String :=
  String.ofList ((List.range digits).reverse.map (fun i => hexDigitChar (n / 16 ^ i % 16)))

def hexArg? (args : List String) (key : String) : Option Nat :=
  (arg? args key).bind (fun s => parseNat? ("0x" ++ s))

def fmtBool (b : Bool) : String := if b then "1" else "0"

def fmtRes : Res → String
  | .val b => fmtBool b
  | .illFormed => "NC"

def implArg? (s : String) : Option Impl :=
  match s with
  | "ops" => some .ops
  | "spaceship" => some .spaceship
  | _ => none

def handle (args : List String) : String :=
  match (arg? args "p").bind primArg?, (arg? args "impl").bind implArg?, arg? args "kind",
        hexArg? args "min", hexArg? args "max", hexArg? args "null", hexArg? args "a", hexArg? args "b" with
  | some p, some impl, some kind, some mn, some mx, some nl, some a0, some b0 =>
    let w := p.bits / 4
    -- the harness stores the operands in objects of type T: reduce to the width
    let a := a0 % 2 ^ p.bits
    let b := b0 % 2 ^ p.bits
    let T : Ty := ⟨p, mn % 2 ^ p.bits, mx % 2 ^ p.bits, nl % 2 ^ p.bits⟩
    if kind = "opt" || kind = "optbi" then
      let m := Rel.all.map (fun r => fmtRes (Optional.rel impl T r a b)) ++
        [fmtBool (Optional.hasValue T a), fmtBool (Optional.hasValue T b), fmtBool (Optional.toBool T a),
         fmtBool (Optional.inRange T a), toHex w (Optional.valueOr T a b),
         fmtBool (Optional.hasValue T (Optional.default T)),
         fmtBool (Optional.toBool T (Optional.fromNullopt T)), toHex w (Optional.default T)]
      let s := Rel.all.map (fun r => fmtBool (Spec.Scalar.optRel p T.null r a b)) ++
        [fmtBool (Spec.Scalar.hasValue p T.null a), fmtBool (Spec.Scalar.hasValue p T.null b), fmtBool (Spec.Scalar.hasValue p T.null a),
         fmtBool (Spec.Scalar.inRange p T.min T.max a), toHex w (Spec.Scalar.valueOr p T.null a b),
         "0", "0", toHex w T.null]
      s!"model={",".intercalate m} spec={",".intercalate s}"
    else if kind = "req" || kind = "reqbi" then
      let m := Rel.all.map (fun r => fmtRes (Required.rel impl T r a b)) ++
        ["-", "-", "-", fmtBool (Required.inRange T a), "-", "-", "-", toHex w (Required.default T)]
      let s := Rel.all.map (fun r => fmtBool (Spec.Scalar.reqRel p r a b)) ++
        ["-", "-", "-", fmtBool (Spec.Scalar.inRange p T.min T.max a), "-", "-", "-", toHex w 0]
      s!"model={",".intercalate m} spec={",".intercalate s}"
    else "bad-op"
  | _, _, _, _, _, _, _, _ => "bad-op"

def fmtOptHex (w : Nat) : Option Nat → String
  | some v => toHex w v
  | none => "ILL"

def handleTab (args : List String) : String :=
  match (arg? args "p").bind primArg?, (arg? args "k").bind Attr.ofName? with
  | some p, some k =>
    let w := p.bits / 4
    let g := genDefault k p
    let b := builtInDefault k p
    let s := sbeDefault p k
    let same := match g, b with
      | some gv, some bv => sameValue p gv s && sameValue p bv s
      | _, _ => false
    s!"gen={fmtOptHex w g} builtin={fmtOptHex w b} spec={toHex w s} same={fmtBool same}"
  | _, _ => "bad-op"

/-- decode a hex string into characters (ASCII only) -/
def unhex (s : String) : Option (List Char) :=
  let rec go : List Char → Option (List Char)
    | [] => some []
    | [_] => none
    | h :: l :: rest =>
      match hexDigit? h, hexDigit? l, go rest with
      | some x, some y, some cs => some (Char.ofNat (x * 16 + y) :: cs)
      | _, _, _ => none
  go s.toList

def handleLit (args : List String) : String :=
  match (arg? args "p").bind primArg?, (arg? args "text").bind unhex with
  | some p, some cs => s!"val={fmtOptHex (p.bits / 4) (evalLitChars p cs)}"
  | _, _ => "bad-op"

end Sbepp.Drive.C16
