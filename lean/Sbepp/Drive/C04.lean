/-
  Driver handler for C04: `cursor <sexp>`.

    (req (schema ...) (msg NAME) (value (msg (hdr xHEX) (root (lv ...))))
         (start init|null|<offset>) (post xHEX)? (end <n>)? (checks off)?
         (calls ITEM*))

    ITEM  ::= (c MEMBER WRAPPER)                    getter through a cursor
            | (s MEMBER WRAPPER v<hex>)             setter of a scalar field
            | (r GROUP WRAPPER RANGE*)              getter of a group, then loops over cursor ranges
    RANGE ::= (all BODY*) | (sub POS BODY*) | (subn POS COUNT BODY*)
    BODY  ::= (e ITEM*)                             what the i-th loop iteration does with its entry
    WRAPPER ::= plain | init | dont_move | init_dont_move | skip

  A range loop is `for(it = r.begin(), i = 0; it != r.end() && i < #BODY; ++it, ++i) { auto e = *it; BODY_i }`.

  Answer: `conf=<bool> image=<hex> model=<events> mfail=<kind> spec=<events> mbuf=<hex|-> sbuf=<hex|->`
  with one event per executed call, `<path>=<result>@<cursor>`:
  result `v<hex>` (value), `a<addr>` (view address), `-` (nothing returned),
  `e<addr>` (entry created by `*it`), `n<size>` (a range object was obtained: path `<group>#<i>`,
  its `.size()`), `x1`/`x0` (after the loop over range `<group>#<i>end`: the iterator has / has not
  reached `end()`); the list ends with `end@<cursor>`, or
  with `ASSERT` where the sequence is stopped by the assertion handler, `UNSPEC`
  where the specification says nothing (entry created from a cursor that is not
  at an entry start), `BAD` for a call that does not exist.
-/
import Sbepp.Drive.Common
import Sbepp.Spec.Observe
import Sbepp.Rt.Cursor
import Sbepp.Spec.CursorProtocol

namespace Sbepp.Drive.C04
open Sbepp Sbepp.Schema Sbepp.Gen Sbepp.Cursor Sbepp.Rt.Cursor Sbepp.Spec.CursorProtocol Sbepp.Observe

abbrev RSpec := RangeKind

inductive Item
  | call (name : String) (w : Wrapper)
  | set (name : String) (w : Wrapper) (value : Nat)
  | range (name : String) (w : Wrapper) (ranges : List (RSpec × List (List Item)))
  deriving Inhabited

def parseWrapper : String → Option Wrapper
  | "plain" => some .plain
  | "init" => some .init
  | "dont_move" => some .dontMove
  | "init_dont_move" => some .initDontMove
  | "skip" => some .skip
  | _ => none

partial def parseItem (e : SExp) : Option Item :=
  match e with
  | .list [.atom "c", .atom name, .atom w] => (parseWrapper w).map (Item.call name)
  | .list [.atom "s", .atom name, .atom w, .atom v] =>
    match parseWrapper w, (if v.startsWith "v" then parseNat? ("0x" ++ (v.drop 1).toString) else none) with
    | some w, some n => some (.set name w n)
    | _, _ => none
  | .list (.atom "r" :: .atom name :: .atom w :: ranges) =>
    match parseWrapper w, ranges.mapM parseRange with
    | some w, some rs => some (.range name w rs)
    | _, _ => none
  | _ => none
where
  parseBody (e : SExp) : Option (List Item) :=
    match e with
    | .list (.atom "e" :: items) => items.mapM parseItem
    | _ => none
  parseRange (e : SExp) : Option (RSpec × List (List Item)) :=
    match e with
    | .list (.atom "all" :: bodies) => (bodies.mapM parseBody).map (fun b => (RangeKind.all, b))
    | .list (.atom "sub" :: .atom p :: bodies) =>
      match p.toNat?, bodies.mapM parseBody with
      | some p, some b => some (.sub p, b)
      | _, _ => none
    | .list (.atom "subn" :: .atom p :: .atom c :: bodies) =>
      match p.toNat?, c.toNat?, bodies.mapM parseBody with
      | some p, some c, some b => some (.subn p c, b)
      | _, _, _ => none
    | _ => none

/-! ### rendering -/

def curStr : Option Nat → String
  | some p => toString p
  | none => "null"

def resStr (bo : ByteOrder) : Res → String
  | .value bs => "v" ++ hexNum (get bo bs)
  | .view a => "a" ++ toString a
  | .void => "-"

def event (path : String) (res : String) (cur : Option Nat) : String := path ++ "=" ++ res ++ "@" ++ curStr cur

def failStr : Fail → String
  | .wrongCursor => "wrongCursor"
  | .sizeCheck => "sizeCheck"
  | .precondition => "precondition"
  | .nullDeref => "nullDeref"
  | .noSuchMethod => "noSuchMethod"

/-- how the C++ side shows a failure: everything that goes through the
    assertion handler is `ASSERT` -/
def failEvent : Fail → String
  | .wrongCursor | .sizeCheck | .precondition => "ASSERT"
  | .nullDeref => "UB"
  | .noSuchMethod => "BAD"

inductive MemberIx
  | field (i : Nat)
  | group (k : Nat)
  | data (k : Nat)

def findIdx (names : List String) (n : String) : Option Nat :=
  let i := names.findIdx (· == n)
  if i < names.length then some i else none

def resolveMember (c : CLevel) (name : String) : Option MemberIx :=
  match findIdx (c.spans.map (·.name)) name with
  | some i => some (.field i)
  | none =>
    match findIdx (c.groups.map (·.name)) name with
    | some k => some (.group k)
    | none => (findIdx (c.datas.map (·.name)) name).map MemberIx.data

/-! ### model side -/

structure MS where
  buf : List Nat
  cur : Option Nat
  ev : List String   -- reversed
  fail : Option String
  wrote : Bool
  /-- number of events after which the specification is silent: the model stops
      there too (what follows reads arbitrary bytes as headers and lengths) -/
  limit : Option Nat := none
  deriving Inhabited

def MS.atLimit (s : MS) : Bool :=
  match s.limit with
  | some n => s.ev.length ≥ n
  | none => false

def MS.unspec (s : MS) : MS := { s with ev := "UNSPEC" :: s.ev, fail := some "unspec" }

def MS.stop (s : MS) (f : Fail) : MS := { s with ev := failEvent f :: s.ev, fail := some (failStr f) }
def MS.bad (s : MS) : MS := { s with ev := "BAD" :: s.ev, fail := some "bad-call" }

def MS.apply (s : MS) (bo : ByteOrder) (path : String) (r : Out Step) : MS :=
  match r with
  | .error f => s.stop f
  | .ok st => { s with buf := st.buf, cur := st.cur, ev := event path (resStr bo st.res) st.cur :: s.ev }

partial def runItemsM (bo : ByteOrder) (c : CLevel) (g : GLevel) (v : LView) (pfx : String) : List Item → MS → MS
  | [], s => s
  | it :: rest, s =>
    if s.fail.isSome then s else
    if s.atLimit then s.unspec else
    let s' :=
      match it with
      | .call name w =>
        match resolveMember c name with
        | some (.field i) =>
          match g.accs[i]? with
          | some a => s.apply bo (pfx ++ name) (stepField w v s.buf s.cur a)
          | none => s.bad
        | some (.group k) =>
          match g.groups[k]? with
          | some gg => s.apply bo (pfx ++ name) (stepGroup w bo v s.buf s.cur (eraseGGs g.groups) k gg.erase)
          | none => s.bad
        | some (.data k) =>
          match g.datas[k]? with
          | some d => s.apply bo (pfx ++ name) (stepData w bo v s.buf s.cur g.erase k d)
          | none => s.bad
        | none => s.bad
      | .set name w value =>
        match resolveMember c name with
        | some (.field i) =>
          match g.accs[i]? with
          | some a =>
            if a.isView then s.bad
            else { s.apply bo (pfx ++ name) (stepSet w v s.buf s.cur a (put bo a.size value)) with wrote := true }
          | none => s.bad
        | _ => s.bad
      | .range name w ranges =>
        match resolveMember c name with
        | some (.group k) =>
          match g.groups[k]?, c.groups[k]? with
          | some gg, some cg =>
            match stepGroup w bo v s.buf s.cur (eraseGGs g.groups) k gg.erase with
            | .error f => s.stop f
            | .ok st =>
              let s1 := { s with buf := st.buf, cur := st.cur, ev := event (pfx ++ name) (resStr bo st.res) st.cur :: s.ev }
              match st.res with
              | .view gaddr => ranges.zipIdx.foldl (fun s2 ((rs, bodies), ri) => runRange bo cg gg v gaddr (pfx ++ name) ri rs bodies s2) s1
              | _ => if ranges.isEmpty then s1 else s1.bad
          | _, _ => s.bad
        | _ => s.bad
    runItemsM bo c g v pfx rest s'
where
  runRange (bo : ByteOrder) (cg : CGroup) (gg : GGroup) (v : LView) (gaddr : Nat) (gpath : String) (ri : Nat)
      (rs : RSpec) (bodies : List (List Item)) (s : MS) : MS :=
    if s.fail.isSome then s else
    if s.atLimit then s.unspec else
    match mkRange bo s.buf v.endp gg.dim gaddr rs with
    | .error f => s.stop f
    | .ok r =>
      -- the range object: its `.size()`
      let s := { s with ev := event (gpath ++ "#" ++ toString ri) ("n" ++ toString r.len) s.cur :: s.ev }
      let s := (bodies.zipIdx.foldl (fun (s : MS) (body, j) =>
        if s.fail.isSome || j ≥ r.len then s else
        if s.atLimit then s.unspec else
        match derefEntry gg.level.emptyCtor v.endp s.cur r.bl with
        | .error f => s.stop f
        | .ok (ev, c') =>
          let idx := r.start + j
          let path := gpath ++ "[" ++ toString idx ++ "]"
          let s1 := { s with cur := c', ev := event path ("e" ++ toString ev.addr) c' :: s.ev }
          runItemsM bo cg.level gg.level ev (path ++ ".") body s1) s)
      -- after the loop: has the iterator reached `end()`?
      if s.fail.isSome then s
      else if s.atLimit then s.unspec
      else { s with ev := event (gpath ++ "#" ++ toString ri ++ "end") (if bodies.length ≥ r.len then "x1" else "x0") s.cur :: s.ev }

/-! ### specification side -/

structure SS where
  buf : List Nat
  cur : Option Nat
  ev : List String
  stop : Bool
  deriving Inhabited

def SS.halt (s : SS) (what : String) : SS := { s with ev := what :: s.ev, stop := true }

def SS.apply (s : SS) (bo : ByteOrder) (path : String) (o : SpecOut) : SS :=
  match o with
  | .ok res cur => { s with cur := cur, ev := event path (resStr bo res) cur :: s.ev }
  | .reported => s.halt "ASSERT"
  | .noSuchCall => s.halt "BAD"

def levelGeo (bo : ByteOrder) (c : CLevel) (lv : LVal) (lvl : Nat) (buf : List Nat) : LevelGeo :=
  geoTree bo c.spans (eraseCGs c.groups) (eraseDatas c.datas) lv lvl (fun p n => slice buf p n)

def toMRef : MemberIx → MRef
  | .field i => .field i
  | .group k => .group k
  | .data k => .data k

/-- a level without any member a cursor could be passed to -/
def noMembers (c : CLevel) : Bool := c.spans.isEmpty && c.groups.isEmpty && c.datas.isEmpty

partial def runItemsS (bo : ByteOrder) (c : CLevel) (lv : LVal) (lvl : Nat) (pfx : String) : List Item → SS → SS
  | [], s => s
  | it :: rest, s =>
    if s.stop then s else
    let geo := levelGeo bo c lv lvl s.buf
    let s' :=
      match it with
      | .call name w =>
        match resolveMember c name with
        | some m => s.apply bo (pfx ++ name) (specGet geo (toMRef m) w s.cur)
        | none => s.halt "BAD"
      | .set name w value =>
        match resolveMember c name with
        | some (.field i) =>
          match geo.fields[i]? with
          | some f =>
            if f.isView then s.halt "BAD" else
            let o := specSet geo i w s.cur
            let s1 := s.apply bo (pfx ++ name) o
            match o with
            | .ok _ _ => { s1 with buf := writeAt s1.buf f.start (put bo f.size value) }
            | _ => s1
          | none => s.halt "BAD"
        | _ => s.halt "BAD"
      | .range name w ranges =>
        match resolveMember c name with
        | some (.group k) =>
          match geo.groups[k]?, c.groups[k]?, lv.groups[k]? with
          | some gg, some cg, some gv =>
            let o := specGet geo (.group k) w s.cur
            let s1 := s.apply bo (pfx ++ name) o
            match o with
            | .ok (.view _) _ => ranges.zipIdx.foldl (fun s2 ((rs, bodies), ri) => runRangeS bo cg gv gg.hdrEnd (pfx ++ name) ri rs bodies s2) s1
            | .ok _ _ => if ranges.isEmpty then s1 else s1.halt "BAD"
            | _ => s1
          | _, _, _ => s.halt "BAD"
        | _ => s.halt "BAD"
    runItemsS bo c lv lvl pfx rest s'
where
  runRangeS (bo : ByteOrder) (cg : CGroup) (gv : GVal) (first : Nat) (gpath : String) (ri : Nat) (rs : RSpec)
      (bodies : List (List Item)) (s : SS) : SS :=
    if s.stop then s else
    -- documented ranges and preconditions of cursor_range / cursor_subrange
    match rangeSpec gv.entries.length rs with
    | none => s.halt "ASSERT"
    | some (start, len) =>
      let s := { s with ev := event (gpath ++ "#" ++ toString ri) ("n" ++ toString len) s.cur :: s.ev }
      let s := (bodies.zipIdx.foldl (fun (s : SS) (body, j) =>
        if s.stop || j ≥ len then s else
        let idx := start + j
        let expected := entryStartTree bo cg.level.erase gv.entries idx first
        match gv.entries[idx]? with
        | none => s.halt "UNSPEC"
        | some e =>
          if s.cur ≠ some expected then s.halt "UNSPEC" else
          let c' := if noMembers cg.level then some (expected + e.block.length) else some expected
          let path := gpath ++ "[" ++ toString idx ++ "]"
          let s1 := { s with cur := c', ev := event path ("e" ++ toString expected) c' :: s.ev }
          runItemsS bo cg.level e expected (path ++ ".") body s1) s)
      if s.stop then s
      else { s with ev := event (gpath ++ "#" ++ toString ri ++ "end") (if bodies.length ≥ len then "x1" else "x0") s.cur :: s.ev }

/-! ### `cursor (layout (schema ...))`: the model's view of the generated cursor accessors -/

def jstr (s : String) : String := "\"" ++ s ++ "\""

def accJson (sp : FieldSpan) (a : Acc) : String :=
  s!"\{\"name\":{jstr sp.name},\"off\":{sp.off},\"size\":{sp.size},\"isView\":{a.isView},\"rel\":{a.rel},\"abs\":{a.abs},\"last\":{a.last}}"

mutual
  partial def clevelJson : CLevel → GLevel → String
    | .mk hdr bl sp nDecl gs ds, g =>
      s!"\{\"hdr\":{hdr},\"blockLen\":{bl},\"nDecl\":{nDecl},\"emptyCtor\":{g.emptyCtor},\"fields\":["
        ++ ",".intercalate ((sp.zip g.accs).map (fun (s, a) => accJson s a)) ++ "],\"groups\":["
        ++ ",".intercalate ((gs.zip g.groups).map (fun (cg, gg) => cgroupJson cg gg)) ++ "],\"datas\":["
        ++ ",".intercalate (ds.map (fun d => s!"\{\"name\":{jstr d.name},\"lenSize\":{d.lenSize}}")) ++ "]}"
  partial def cgroupJson : CGroup → GGroup → String
    | .mk name dim l, gg =>
      s!"\{\"name\":{jstr name},\"dimSize\":{dim.dim.size},\"numSize\":{dim.dim.numSize},\"blSize\":{dim.dim.blSize},\"level\":{clevelJson l gg.level}}"
end

mutual
  partial def levelEqB : Level → Level → Bool
    | .mk b1 l1 g1 d1, .mk b2 l2 g2 d2 =>
      b1 == b2 && decide (l1 = l2) && decide (d1 = d2) && g1.length == g2.length
        && (g1.zip g2).all (fun (a, b) => groupEqB a b)
  partial def groupEqB : Group → Group → Bool
    | .mk d1 l1, .mk d2 l2 => decide (d1 = d2) && levelEqB l1 l2
end

def layout (schema : SExp) : String :=
  match parseSchema schema with
  | none => "{\"error\":\"bad-schema-sexp\"}"
  | some s =>
    "{\"messages\":[" ++ ",".intercalate (s.messages.map (fun md =>
      match cresolveMessage s md with
      | .error e => s!"\{\"name\":{jstr md.name},\"error\":{jstr (e.replace "\"" "'")}}"
      | .ok m =>
        match compileLevel m.level with
        | .error e => s!"\{\"name\":{jstr md.name},\"error\":{jstr ("generator: " ++ e.replace "\"" "'")}}"
        | .ok g =>
          -- the two layout models must describe the same level tree
          let same := match resolveMessage s md with
            | .ok nm => levelEqB nm.level.erase m.level.erase && levelEqB g.erase m.level.erase
            | .error _ => false
          s!"\{\"name\":{jstr md.name},\"hdrSize\":{m.hdrSize},\"sameAsWireLayout\":{same},\"level\":{clevelJson m.level g}}")) ++ "]}"

/-! ### `cursor (sites)`: which of the 5 × 10 methods assert the cursor position and what their
    size check is based on, obtained by *probing the model functions* (wrong cursor → `wrongCursor`?
    cursor right but the view too short → `sizeCheck`? cursor wrong, view too short, the check passes
    → the check is based on the view address) -/

def probeField (f : LView → List Nat → Option Nat → Nat → Nat → Nat → Out Step) : String :=
  -- view at 10, field at abs 4 (address 14), rel 1 => the cursor must be at 13; size 2
  let buf := List.replicate 40 0
  let asserts := match f ⟨10, 10, 8, some 40⟩ buf (some 20) 1 4 2 with
    | .error .wrongCursor => true
    | _ => false
  -- end at 15: the field [14,16) does not fit, its start does
  let sized := match f ⟨10, 10, 8, some 15⟩ buf (some 13) 1 4 2 with
    | .error .sizeCheck => true
    | _ => false
  -- end at 13: not even the start of the field is inside
  let any := match f ⟨10, 10, 8, some 13⟩ buf (some 13) 1 4 2 with
    | .error .sizeCheck => true
    | _ => false
  -- end at 30, cursor at 30: a check based on the cursor fails, one based on the view passes
  let viaView := match f ⟨10, 10, 8, some 30⟩ buf (some 30) 1 4 2 with
    | .error .sizeCheck => false
    | .error .wrongCursor => false
    | _ => true
  let kind := if !any then "none" else (if viaView then "view" else "ptr") ++ (if sized then "" else "0")
  s!"\{\"assert\":{asserts},\"sizecheck\":\"{kind}\"}"

def probeDyn (f : LView → List Nat → Option Nat → Nat → Out Step) : String :=
  let buf := List.replicate 40 0
  let asserts := match f ⟨10, 10, 8, some 40⟩ buf (some 25) 20 with
    | .error .wrongCursor => true
    | _ => false
  s!"\{\"assert\":{asserts},\"sizecheck\":\"n/a\"}"

def sites : String :=
  let dim : Dim := ⟨3, 0, 2, 2, 1, []⟩
  let g : Group := .mk dim (.mk 0 [] [] [])
  let d : DataL := ⟨1⟩
  let setF (f : LView → List Nat → Option Nat → Nat → Nat → Nat → List Nat → Out Step) :=
    fun v b p o a sz => f v b p o a sz [0, 0]
  let row (cls meth probe : String) := s!"\"{cls}::{meth}\":{probe}"
  "{" ++ ",".intercalate [
    row "cursor" "get_value" (probeField C.get_value), row "cursor" "set_value" (probeField (setF C.set_value)),
    row "cursor" "get_last_value" (probeField C.get_last_value), row "cursor" "set_last_value" (probeField (setF C.set_last_value)),
    row "cursor" "get_static_field_view" (probeField C.get_static_field_view),
    row "cursor" "get_last_static_field_view" (probeField C.get_last_static_field_view),
    row "cursor" "get_first_group_view" (probeDyn (fun v b p _ => C.get_first_group_view v b p dim)),
    row "cursor" "get_first_data_view" (probeDyn (fun v b p _ => C.get_first_data_view .little v b p d)),
    row "cursor" "get_group_view" (probeDyn (fun v b p gt => C.get_group_view v b p gt dim)),
    row "cursor" "get_data_view" (probeDyn (fun v b p gt => C.get_data_view .little v b p gt d)),
    row "init_cursor_wrapper" "get_value" (probeField I.get_value), row "init_cursor_wrapper" "set_value" (probeField (setF I.set_value)),
    row "init_cursor_wrapper" "get_last_value" (probeField I.get_last_value),
    row "init_cursor_wrapper" "set_last_value" (probeField (setF I.set_last_value)),
    row "init_cursor_wrapper" "get_static_field_view" (probeField I.get_static_field_view),
    row "init_cursor_wrapper" "get_last_static_field_view" (probeField I.get_last_static_field_view),
    row "init_cursor_wrapper" "get_first_group_view" (probeDyn (fun v b p _ => I.get_first_group_view v b p dim)),
    row "init_cursor_wrapper" "get_first_data_view" (probeDyn (fun v b p _ => I.get_first_data_view .little v b p d)),
    row "init_cursor_wrapper" "get_group_view" (probeDyn (fun v b p gt => I.get_group_view v b p gt dim)),
    row "init_cursor_wrapper" "get_data_view" (probeDyn (fun v b p gt => I.get_data_view .little v b p gt d)),
    row "init_dont_move_cursor_wrapper" "get_value" (probeField IDM.get_value),
    row "init_dont_move_cursor_wrapper" "set_value" (probeField (setF IDM.set_value)),
    row "init_dont_move_cursor_wrapper" "get_last_value" (probeField IDM.get_last_value),
    row "init_dont_move_cursor_wrapper" "set_last_value" (probeField (setF IDM.set_last_value)),
    row "init_dont_move_cursor_wrapper" "get_static_field_view" (probeField IDM.get_static_field_view),
    row "init_dont_move_cursor_wrapper" "get_last_static_field_view" (probeField IDM.get_last_static_field_view),
    row "init_dont_move_cursor_wrapper" "get_first_group_view" (probeDyn (fun v b p _ => IDM.get_first_group_view v b p dim)),
    row "init_dont_move_cursor_wrapper" "get_first_data_view" (probeDyn (fun v b p _ => IDM.get_first_data_view .little v b p d)),
    row "init_dont_move_cursor_wrapper" "get_group_view" (probeDyn (fun v b p gt => IDM.get_group_view v b p gt dim)),
    row "init_dont_move_cursor_wrapper" "get_data_view" (probeDyn (fun v b p gt => IDM.get_data_view .little v b p gt d)),
    row "dont_move_cursor_wrapper" "get_value" (probeField DM.get_value), row "dont_move_cursor_wrapper" "set_value" (probeField (setF DM.set_value)),
    row "dont_move_cursor_wrapper" "get_last_value" (probeField DM.get_last_value),
    row "dont_move_cursor_wrapper" "set_last_value" (probeField (setF DM.set_last_value)),
    row "dont_move_cursor_wrapper" "get_static_field_view" (probeField DM.get_static_field_view),
    row "dont_move_cursor_wrapper" "get_last_static_field_view" (probeField DM.get_last_static_field_view),
    row "dont_move_cursor_wrapper" "get_first_group_view" (probeDyn (fun v b p _ => DM.get_first_group_view v b p dim)),
    row "dont_move_cursor_wrapper" "get_first_data_view" (probeDyn (fun v b p _ => DM.get_first_data_view .little v b p d)),
    row "dont_move_cursor_wrapper" "get_group_view" (probeDyn (fun v b p gt => DM.get_group_view v b p gt dim)),
    row "dont_move_cursor_wrapper" "get_data_view" (probeDyn (fun v b p gt => DM.get_data_view .little v b p gt d)),
    row "skip_cursor_wrapper" "get_value" (probeField S.get_value), row "skip_cursor_wrapper" "get_last_value" (probeField S.get_last_value),
    row "skip_cursor_wrapper" "get_static_field_view" (probeField S.get_static_field_view),
    row "skip_cursor_wrapper" "get_last_static_field_view" (probeField S.get_last_static_field_view),
    row "skip_cursor_wrapper" "get_first_group_view" (probeDyn (fun v b p _ => S.get_first_group_view .little v b p g)),
    row "skip_cursor_wrapper" "get_first_data_view" (probeDyn (fun v b p _ => S.get_first_data_view .little v b p d)),
    row "skip_cursor_wrapper" "get_group_view" (probeDyn (fun v b p gt => S.get_group_view .little v b p gt g)),
    row "skip_cursor_wrapper" "get_data_view" (probeDyn (fun v b p gt => S.get_data_view .little v b p gt d))] ++ "}"

/-! ### request -/

def joinEv (ev : List String) : String := ";".intercalate ev.reverse

/-- all `(key ...)` children -/
def fieldsAll (e : SExp) (key : String) : List (List SExp) :=
  match e with
  | .list l => l.filterMap (fun c =>
      match c with
      | .list (.atom k :: rest) => if k = key then some rest else none
      | _ => none)
  | _ => []

/-- several `(calls ...)` may be given; each is run from the same initial state
    and answered in order -/
def handle (payload : String) : String :=
  match SExp.parseOne payload with
  | none => "bad-op"
  | some req =>
    if req.head? = some "sites" then sites else
    if req.head? = some "layout" then
      match req.field? "schema" with
      | some l => layout (SExp.list (SExp.atom "schema" :: l))
      | none => "bad-op"
    else
    match (req.field? "schema").bind (fun l => parseSchema (SExp.list (SExp.atom "schema" :: l))),
          req.atomField? "msg", req.field? "value" with
    | some s, some mname, some [v] =>
      match s.messages.find? (·.name = mname), (fieldsAll req "calls").mapM (fun c => c.mapM parseItem) with
      | some md, some scripts =>
        match cresolveMessage s md with
        | .error e => s!"diag {e}"
        | .ok m =>
          match compileLevel m.level with
          | .error e => s!"diag generator: {e}"
          | .ok g =>
            match (v.atomField? "hdr").bind xhex, (v.field? "root").bind (fun l => l.head?.bind parseLVal) with
            | some hdr, some root =>
              let bo := s.byteOrder
              let post := ((req.atomField? "post").bind xhex).getD []
              let image := hdr ++ flattenL bo m.level.erase root
              let buf := image ++ post
              let blLeaf := findLeaf m.hdrLeaves "blockLength"
              let wblHdr := match blLeaf with
                | some l => get bo (slice hdr l.off l.size)
                | none => 0
              let conf := decide (hdr.length = m.hdrSize) && confLB bo m.level.erase root wblHdr && isBytesB buf
              -- `(checks off)`: assertions and size checks compiled out (views carry no end pointer)
              let endp := if req.atomField? "checks" = some "off" then none
                else some ((req.natField? "end").getD buf.length)
              let startAtom := (req.atomField? "start").getD "init"
              let start : Option (Option Nat) := match startAtom with
                | "init" => some (some m.hdrSize)
                | "null" => some none
                | n => n.toNat?.map some
              match start, blLeaf with
              | some cur0, some bl =>
                -- model: only the buffer is consulted
                let mv := messageView bo buf 0 m.hdrSize bl.off bl.size endp
                let cur0m := if startAtom = "init" then initCursor mv else cur0
                let answers := scripts.map (fun items =>
                  -- specification: the value tree
                  let ss := runItemsS bo m.level root m.hdrSize "" items ⟨buf, cur0, [], false⟩
                  let sev := if ss.stop then ss.ev else ("end@" ++ curStr ss.cur) :: ss.ev
                  let limit := if ss.ev.head? = some "UNSPEC" then some (ss.ev.length - 1) else none
                  let ms := runItemsM bo m.level g mv "" items ⟨buf, cur0m, [], none, false, limit⟩
                  let mev := if ms.fail.isSome then ms.ev else ("end@" ++ curStr ms.cur) :: ms.ev
                  let wrote := ms.wrote
                  s!"model={joinEv mev} mfail={ms.fail.getD "-"} spec={joinEv sev} mbuf={if wrote then SExp.hex ms.buf else "-"} sbuf={if wrote then SExp.hex ss.buf else "-"}")
                s!"conf={conf} image={SExp.hex image} n={scripts.length} " ++ " ".intercalate answers
              | _, _ => "bad-op bad-start"
            | _, _ => "bad-op bad-value"
      | _, _ => "bad-op bad-message-or-calls"
    | _, _, _ => "bad-op bad-request"

end Sbepp.Drive.C04
