/-
  Helpers for the line-protocol driver (`sbepp_model`).  One request per line,
  one answer per line.  Core Lean only, so the driver links as an executable.
-/
import Sbepp.Base.Kernel

namespace Sbepp.Drive

def parseNat? (s : String) : Option Nat :=
  if s.startsWith "0x" then
    let h := (s.drop 2).toString
    if h.isEmpty then none else
    h.foldl (fun acc c =>
      match acc with
      | none => none
      | some a =>
        if c.isDigit then some (a * 16 + (c.toNat - '0'.toNat))
        else if 'a' ≤ c ∧ c ≤ 'f' then some (a * 16 + (c.toNat - 'a'.toNat + 10))
        else if 'A' ≤ c ∧ c ≤ 'F' then some (a * 16 + (c.toNat - 'A'.toNat + 10))
        else none) (some 0)
  else s.toNat?

def parseInt? (s : String) : Option Int :=
  if s.startsWith "-" then (parseNat? (s.drop 1).toString).map (fun n => -(n : Int))
  else (parseNat? s).map (fun n => (n : Int))

def parseTy? (s : String) : Option CTy := CTy.ofName? s

def fmtOpt (o : Option Nat) : String :=
  match o with
  | some v => toString v
  | none => "UB"

def fmtOutcome {α} (f : α → String) : Outcome α → String
  | .ok a => f a
  | .ub => "UB"
  | .assertFailed i => s!"ASSERT{i}"

/-- key=value lookup in the argument list -/
def arg? (args : List String) (key : String) : Option String :=
  args.findSome? (fun a =>
    match a.splitOn "=" with
    | k :: rest => if k = key ∧ !rest.isEmpty then some ("=".intercalate rest) else none
    | _ => none)

def natArg? (args : List String) (key : String) : Option Nat := (arg? args key).bind parseNat?
def tyArg? (args : List String) (key : String) : Option CTy := (arg? args key).bind parseTy?

end Sbepp.Drive
