import Sbepp.Base.CInt
import Sbepp.Base.CExpr
import Sbepp.Base.Kernel
import Sbepp.Extracted.Kernels
import Sbepp.Lemmas.CInt
import Sbepp.Lemmas.Bits
import Sbepp.Spec.Bits
import Sbepp.Properties.C15
