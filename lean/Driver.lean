/-
  `sbepp_model`: line-protocol driver.  Reads one request per line on stdin,
  writes one answer per line on stdout.  The first word selects the handler.
-/
import Sbepp.Drive.Common
import Sbepp.Drive.C15
import Sbepp.Drive.C02Bswap
import Sbepp.Drive.C14
import Sbepp.Drive.C12
import Sbepp.Drive.C13
import Sbepp.Drive.C16
import Sbepp.Drive.C06
import Sbepp.Drive.C18
import Sbepp.Drive.C04
import Sbepp.Drive.C07
import Sbepp.Drive.C08
import Sbepp.Drive.C10
import Sbepp.Drive.Wire

open Sbepp.Drive

/-- requests whose payload is one S-expression: `<cmd> <sexp...>` -/
def payloadOf (line : String) (cmd : String) : String := (line.trimAscii.toString.drop cmd.length).toString

def dispatch (line : String) : String :=
  if line.startsWith "layout " then Wire.layout (payloadOf line "layout")
  else if line.startsWith "decode " then Wire.decode (payloadOf line "decode")
  else if line.startsWith "encode " then Wire.encode (payloadOf line "encode")
  else if line.startsWith "visit " then Wire.visit (payloadOf line "visit")
  else if line.startsWith "checked " then C06.handle (payloadOf line "checked")
  else if line.startsWith "traits " then C18.handle (payloadOf line "traits")
  else if line.startsWith "cursor " then C04.handle (payloadOf line "cursor")
  else if line.startsWith "wellformed " then C07.handle (payloadOf line "wellformed")
  else if line.startsWith "verdict " then C08.handle (payloadOf line "verdict")
  else if line.startsWith "guard " then C10.handle (payloadOf line "guard")
  else if line.startsWith "ctrav " then C10.handleCursor (payloadOf line "ctrav")
  else
  match (line.trimAscii.toString.splitOn " ").filter (· ≠ "") with
  | [] => ""
  | cmd :: args =>
    match cmd with
    | "bits" => C15.handle args
    | "bswap" => C02Bswap.handle args
    | "sarr" => C14.handle args
    | "grp" => C12.handle args
    | "dyn" => C13.handle args
    | "opt" => C16.handle args
    | "opttab" => C16.handleTab args
    | "optlit" => C16.handleLit args
    | "grpsize" => C12.handleSize args
    | "nest" => C12.handleNest args
    | "resize" => C12.handleResize args
    | _ => "bad-op"

partial def loop (h : IO.FS.Stream) (out : IO.FS.Stream) : IO Unit := do
  let line ← h.getLine
  if line.isEmpty then return ()
  out.putStrLn (dispatch line)
  loop h out

def main : IO Unit := do
  let out ← IO.getStdout
  loop (← IO.getStdin) out
  out.flush
