/-
  `sbepp_model`: line-protocol driver.  Reads one request per line on stdin,
  writes one answer per line on stdout.  The first word selects the handler.
-/
import Sbepp.Drive.Common
import Sbepp.Drive.C15

open Sbepp.Drive

def dispatch (line : String) : String :=
  match (line.trimAscii.toString.splitOn " ").filter (· ≠ "") with
  | [] => ""
  | cmd :: args =>
    match cmd with
    | "bits" => C15.handle args
    | _ => "bad-op"

partial def loop (h : IO.FS.Stream) (out : IO.FS.Stream) : IO Unit := do
  let line ← h.getLine
  if line.isEmpty then return ()
  out.putStrLn (dispatch line)
  loop h out

def main : IO Unit := do
  let out ← IO.getStdout
  loop (← IO.getStdin) out
  out.flush
