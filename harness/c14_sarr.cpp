// Layer R harness for C14: drives sbepp::detail::static_array_ref<Byte, char, N, Tag>
// for N in 0..8 on a buffer `pre ++ array ++ post` (guard bytes on each side,
// printed with the array) and prints, per request line,
//   impl=<hex of pre++array++post>,<ret>        normal return
//   impl=ASSERT ibuf=<hex>                      sbepp::assertion_failed was called
//   impl=UB | impl=FAULT | impl=OOB             trap / signal / canary outside the buffer hit
//   impl=NA                                     request outside what this build can run
// <ret>: iterator as index relative to begin(), a size, or `-` for void.
// Request format: see lean/Sbepp/Drive/C14.lean (same lines go to both sides).
#define SBEPP_ENABLE_ASSERTS_WITH_HANDLER
#include "proto.hpp"

#include <sbepp/sbepp.hpp>

#include <array>
#include <initializer_list>
#include <iterator>
#include <list>
#include <sstream>
#include <string>
#include <vector>

namespace sbepp
{
[[noreturn]] void assertion_failed(
    char const* /*expr*/,
    char const* /*function*/,
    char const* /*file*/,
    long /*line*/)
{
    proto::assertion_jump();
}
} // namespace sbepp

namespace
{
struct tag
{
};

template<typename Byte, std::size_t N>
using arr_t = sbepp::detail::static_array_ref<Byte, char, N, tag>;

constexpr std::size_t max_n = 8;
constexpr std::size_t slack = 32;
constexpr unsigned char canary = 0xee;

// ---- C++11 index sequence (initializer lists need a compile-time length) --
template<std::size_t... I>
struct idx_seq
{
};
template<std::size_t K, std::size_t... I>
struct make_idx : make_idx<K - 1, K - 1, I...>
{
};
template<std::size_t... I>
struct make_idx<0, I...>
{
    using type = idx_seq<I...>;
};

template<typename A, std::size_t... I>
typename A::iterator assign_ilist_k(const A& a, const char* v, idx_seq<I...>)
{
    (void)v;
    return a.assign({v[I]...});
}

template<typename A, std::size_t K>
struct ilist_dispatch
{
    static bool call(
        const A& a, const char* v, std::size_t k, typename A::iterator& out)
    {
        if(k == K)
        {
            out = assign_ilist_k(a, v, typename make_idx<K>::type{});
            return true;
        }
        return ilist_dispatch<A, K - 1>::call(a, v, k, out);
    }
};
template<typename A>
struct ilist_dispatch<A, 0>
{
    static bool call(
        const A& a, const char* v, std::size_t k, typename A::iterator& out)
    {
        if(k == 0)
        {
            out = a.assign(std::initializer_list<char>{});
            return true;
        }
        return false;
    }
};

// ---- constant evaluation (C++20): tables computed by the compiler ---------
#if SBEPP_HAS_CONSTEXPR_ACCESSORS && SBEPP_HAS_IS_CONSTANT_EVALUATED
#    define C14_HAS_CE 1
constexpr std::size_t ce_max_n = 6;        // strlen / strlen_r tables
constexpr std::size_t ce_assign_max_n = 4; // assign_string tables (compiler step limits)
// layout used for every constant-evaluated case: 7e, array, 7e, 00
template<std::size_t N>
struct ce_buf
{
    char b[N + 3];
    std::size_t ret;
};

constexpr std::size_t pow3(std::size_t n)
{
    return n == 0 ? 1 : 3 * pow3(n - 1);
}

// element i of the array is digit i (base 3) of `code`: 0 -> NUL, 1 -> 'a', 2 -> 'b'
template<std::size_t N>
constexpr ce_buf<N> ce_make(std::size_t code)
{
    ce_buf<N> x{};
    x.b[0] = 0x7e;
    for(std::size_t i = 0; i < N; i++)
    {
        const auto d = code % 3;
        code /= 3;
        x.b[1 + i] = d == 0 ? '\0' : (d == 1 ? 'a' : 'b');
    }
    x.b[N + 1] = 0x7e;
    x.b[N + 2] = 0;
    x.ret = 0;
    return x;
}

template<std::size_t N>
constexpr std::size_t ce_strlen(std::size_t code)
{
    auto x = ce_make<N>(code);
    arr_t<char, N> a{x.b + 1, N};
    return a.strlen();
}

template<std::size_t N>
constexpr std::size_t ce_strlen_r(std::size_t code)
{
    auto x = ce_make<N>(code);
    arr_t<char, N> a{x.b + 1, N};
    return a.strlen_r();
}

// assign_string("xyzwvu"[0..len), mode)
template<std::size_t N>
constexpr ce_buf<N> ce_assign_string(
    std::size_t code, std::size_t len, sbepp::eos_null mode)
{
    auto x = ce_make<N>(code);
    char src[ce_max_n + 1]{};
    const char pat[] = "xyzwvu";
    for(std::size_t i = 0; i < len; i++)
    {
        src[i] = pat[i];
    }
    arr_t<char, N> a{x.b + 1, N};
    const auto it = a.assign_string(static_cast<const char*>(src), mode);
    x.ret = static_cast<std::size_t>(it - (x.b + 1));
    return x;
}

template<std::size_t N>
constexpr std::array<unsigned char, pow3(N)> ce_make_strlen(bool reverse)
{
    std::array<unsigned char, pow3(N)> t{};
    for(std::size_t c = 0; c < pow3(N); c++)
    {
        t[c] = static_cast<unsigned char>(
            reverse ? ce_strlen_r<N>(c) : ce_strlen<N>(c));
    }
    return t;
}

template<std::size_t N>
constexpr std::size_t ce_assign_count()
{
    return N <= ce_assign_max_n ? pow3(N) * (N + 1) * 3 : 1;
}

template<std::size_t N>
constexpr std::array<ce_buf<N>, ce_assign_count<N>()> ce_make_assign()
{
    std::array<ce_buf<N>, ce_assign_count<N>()> t{};
    for(std::size_t c = 0; c < (N <= ce_assign_max_n ? pow3(N) : 0); c++)
    {
        for(std::size_t len = 0; len <= N; len++)
        {
            for(int m = 0; m < 3; m++)
            {
                t[(c * (N + 1) + len) * 3 + m] =
                    ce_assign_string<N>(c, len, static_cast<sbepp::eos_null>(m));
            }
        }
    }
    return t;
}

template<std::size_t N>
struct ce_tables
{
    static constexpr auto strlen_table = ce_make_strlen<N>(false);
    static constexpr auto strlen_r_table = ce_make_strlen<N>(true);
    static constexpr auto assign_tbl = ce_make_assign<N>();
};

static_assert(sbepp::detail::string_length("") == 0, "string_length");
static_assert(sbepp::detail::string_length("ab") == 2, "string_length");
static_assert(sbepp::detail::string_length("a\0b") == 1, "string_length");
#else
#    define C14_HAS_CE 0
#endif

bool parse_mode(const std::string& s, sbepp::eos_null& m)
{
    if(s == "none")
    {
        m = sbepp::eos_null::none;
    }
    else if(s == "single")
    {
        m = sbepp::eos_null::single;
    }
    else if(s == "all")
    {
        m = sbepp::eos_null::all;
    }
    else if(s == "invalid")
    {
        m = static_cast<sbepp::eos_null>(3);
    }
    else
    {
        return false;
    }
    return true;
}

std::vector<unsigned char> bytes_arg(
    const proto::request& r, const char* key, const char* dflt)
{
    const std::string s = r.has(key) ? r.str(key) : std::string(dflt);
    if(s == "-")
    {
        return {};
    }
    return proto::unhex(s);
}

void print_na()
{
    std::cout << "impl=NA\n";
}

#if C14_HAS_CE
// constant-evaluated cases: only the fixed layout and alphabet of the tables
template<std::size_t N, bool Small = (N <= ce_max_n)>
struct ce_runner
{
    static void run(const proto::request&, const std::vector<unsigned char>&)
    {
        print_na();
    }
};

template<std::size_t N>
struct ce_runner<N, true>
{
    static void run(
        const proto::request& r, const std::vector<unsigned char>& init)
    {
        using T = ce_tables<N>;
        if(r.str("byte") == "u" || bytes_arg(r, "pre", "7e") != std::vector<unsigned char>{0x7e}
           || bytes_arg(r, "post", "7e") != std::vector<unsigned char>{0x7e, 0}
           || (r.has("avail") && r.u64("avail") != N))
        {
            print_na();
            return;
        }
        std::size_t code = 0;
        for(std::size_t i = N; i-- > 0;)
        {
            const auto b = init[i];
            if(b != 0 && b != 'a' && b != 'b')
            {
                print_na();
                return;
            }
            code = code * 3 + (b == 0 ? 0 : (b == 'a' ? 1 : 2));
        }
        const auto op = r.str("op");
        const auto orig = ce_make<N>(code);
        const auto* orig_bytes = reinterpret_cast<const unsigned char*>(orig.b);
        if(op == "strlen_ce")
        {
            std::cout << "impl=" << proto::hex(orig_bytes, N + 3) << ","
                      << static_cast<unsigned>(T::strlen_table[code]) << "\n";
        }
        else if(op == "strlen_r")
        {
            std::cout << "impl=" << proto::hex(orig_bytes, N + 3) << ","
                      << static_cast<unsigned>(T::strlen_r_table[code]) << "\n";
        }
        else if(op == "assign_string_raw")
        {
            const auto in = bytes_arg(r, "in", "-");
            sbepp::eos_null mode{};
            static const char pat[] = "xyzwvu";
            if(N > ce_assign_max_n || !parse_mode(r.str("mode"), mode)
               || static_cast<int>(mode) > 2 || in.size() > N
               || std::string(in.begin(), in.end()) != std::string(pat, in.size()))
            {
                print_na();
                return;
            }
            const auto& e = T::assign_tbl
                [(code * (N + 1) + in.size()) * 3 + static_cast<int>(mode)];
            std::cout << "impl="
                      << proto::hex(
                             reinterpret_cast<const unsigned char*>(e.b), N + 3)
                      << "," << e.ret << "\n";
        }
        else
        {
            print_na();
        }
    }
};
#endif

template<typename Byte, std::size_t N>
void run(const proto::request& r)
{
    using A = arr_t<Byte, N>;
    const auto pre = bytes_arg(r, "pre", "7e");
    const auto post = bytes_arg(r, "post", "7e");
    const auto init = bytes_arg(r, "init", "-");
    if(init.size() != N)
    {
        std::cout << "bad-op\n";
        return;
    }
    const auto op = r.str("op");

    if(op == "strlen_ce" || r.str("ce") == "1")
    {
#if C14_HAS_CE
        ce_runner<N>::run(r, init);
#else
        print_na();
#endif
        return;
    }

    const std::size_t avail = r.has("avail") ? r.u64("avail") : N;
    const std::size_t total = pre.size() + N + post.size();
    std::vector<unsigned char> mem(slack + total + slack, canary);
    unsigned char* const buf = mem.data() + slack;
    std::copy(pre.begin(), pre.end(), buf);
    std::copy(init.begin(), init.end(), buf + pre.size());
    std::copy(post.begin(), post.end(), buf + pre.size() + N);
    Byte* const base = reinterpret_cast<Byte*>(buf + pre.size());
    const char* const begin = reinterpret_cast<const char*>(base);
    const A a{base, avail};

    const auto in_bytes = bytes_arg(r, "in", "-");
    const std::string in_str(in_bytes.begin(), in_bytes.end());
    const std::vector<char> in_vec(in_bytes.begin(), in_bytes.end());
    const std::list<char> in_list(in_bytes.begin(), in_bytes.end());
    const auto src = r.has("src") ? r.str("src") : std::string("vector");
    sbepp::eos_null mode{};
    const bool has_mode = parse_mode(r.str("mode"), mode);
    const bool dflt_mode = r.str("dflt") == "1";
    const char value = static_cast<char>(bytes_arg(r, "value", "00").empty()
        ? 0
        : bytes_arg(r, "value", "00")[0]);

    // the copy-before-check overloads write |in| bytes whatever N is: keep
    // them inside pre ++ array ++ post
    const bool unchecked_copy = op == "assign_string_range"
        || op == "assign_range" || op == "assign_iter";
    if(unchecked_copy && in_bytes.size() > N + post.size())
    {
        print_na();
        return;
    }

    bool bad = false;
    bool has_ret = false;
    std::ptrdiff_t ret = 0;
    std::istringstream in_stream(in_str);
    std::string st;

    if(op == "assign_string_raw")
    {
        if(!has_mode)
        {
            bad = true;
        }
        else
        {
            const char* p = r.str("in") == "null" ? nullptr : in_str.c_str();
            st = proto::guarded(
                [&]
                {
                    const auto it =
                        dflt_mode ? a.assign_string(p) : a.assign_string(p, mode);
                    ret = it - begin;
                    has_ret = true;
                });
        }
    }
    else if(op == "assign_string_range")
    {
        if(!has_mode)
        {
            bad = true;
        }
        else
        {
            st = proto::guarded(
                [&]
                {
                    typename A::iterator it{};
                    if(src == "string")
                    {
                        it = dflt_mode ? a.assign_string(in_str)
                                       : a.assign_string(in_str, mode);
                    }
                    else if(src == "list")
                    {
                        it = dflt_mode ? a.assign_string(in_list)
                                       : a.assign_string(in_list, mode);
                    }
                    else
                    {
                        it = dflt_mode ? a.assign_string(in_vec)
                                       : a.assign_string(in_vec, mode);
                    }
                    ret = it - begin;
                    has_ret = true;
                });
        }
    }
    else if(op == "assign_range")
    {
        st = proto::guarded(
            [&]
            {
                typename A::iterator it{};
                if(src == "string")
                {
                    it = a.assign_range(in_str);
                }
                else if(src == "list")
                {
                    it = a.assign_range(in_list);
                }
                else
                {
                    it = a.assign_range(in_vec);
                }
                ret = it - begin;
                has_ret = true;
            });
    }
    else if(op == "assign_iter")
    {
        st = proto::guarded(
            [&]
            {
                typename A::iterator it{};
                if(src == "ptr")
                {
                    const char* f = in_str.data();
                    it = a.assign(f, f + in_str.size());
                }
                else if(src == "list")
                {
                    it = a.assign(in_list.begin(), in_list.end());
                }
                else if(src == "input")
                {
                    it = a.assign(
                        std::istreambuf_iterator<char>(in_stream),
                        std::istreambuf_iterator<char>());
                }
                else
                {
                    it = a.assign(in_vec.begin(), in_vec.end());
                }
                ret = it - begin;
                has_ret = true;
            });
    }
    else if(op == "assign_ilist")
    {
        if(in_str.size() > max_n + 2)
        {
            print_na();
            return;
        }
        st = proto::guarded(
            [&]
            {
                typename A::iterator it{};
                ilist_dispatch<A, max_n + 2>::call(
                    a, in_str.data(), in_str.size(), it);
                ret = it - begin;
                has_ret = true;
            });
    }
    else if(op == "assign_count")
    {
        const std::size_t count = r.u64("count");
        st = proto::guarded(
            [&]
            {
                const auto it = a.assign(count, value);
                ret = it - begin;
                has_ret = true;
            });
    }
    else if(op == "fill")
    {
        st = proto::guarded([&] { a.fill(value); });
    }
    else if(op == "strlen")
    {
        st = proto::guarded(
            [&]
            {
                ret = static_cast<std::ptrdiff_t>(a.strlen());
                has_ret = true;
            });
    }
    else if(op == "strlen_r")
    {
        st = proto::guarded(
            [&]
            {
                ret = static_cast<std::ptrdiff_t>(a.strlen_r());
                has_ret = true;
            });
    }
    else
    {
        bad = true;
    }

    if(bad)
    {
        std::cout << "bad-op\n";
        return;
    }
    for(std::size_t i = 0; i < slack; i++)
    {
        if(mem[i] != canary || mem[slack + total + i] != canary)
        {
            std::cout << "impl=OOB\n";
            return;
        }
    }
    if(st.empty())
    {
        std::cout << "impl=" << proto::hex(buf, total) << ",";
        if(has_ret)
        {
            std::cout << ret;
        }
        else
        {
            std::cout << "-";
        }
        std::cout << "\n";
    }
    else if(st == "ASSERT")
    {
        std::cout << "impl=ASSERT ibuf=" << proto::hex(buf, total) << "\n";
    }
    else
    {
        std::cout << "impl=" << st << "\n";
    }
}

template<typename Byte, std::size_t N>
struct n_dispatch
{
    static void call(const proto::request& r, std::size_t n)
    {
        if(n == N)
        {
            run<Byte, N>(r);
        }
        else
        {
            n_dispatch<Byte, N - 1>::call(r, n);
        }
    }
};
template<typename Byte>
struct n_dispatch<Byte, 0>
{
    static void call(const proto::request& r, std::size_t n)
    {
        if(n == 0)
        {
            run<Byte, 0>(r);
        }
        else
        {
            print_na();
        }
    }
};
} // namespace

int main()
{
    proto::install_handlers();
    std::ios::sync_with_stdio(false);
    std::string line;
    proto::request r;
    while(std::getline(std::cin, line))
    {
        if(!proto::parse(line, r))
        {
            std::cout << "\n";
            continue;
        }
        if(r.cmd != "sarr" || !r.has("N"))
        {
            std::cout << "bad-op\n";
        }
        else if(r.str("byte") == "u")
        {
            n_dispatch<unsigned char, max_n>::call(r, r.u64("N"));
        }
        else
        {
            n_dispatch<char, max_n>::call(r, r.u64("N"));
        }
    }
    return 0;
}
