// Generic part of the per-schema C10 drivers (vlib/c10gen.py emits the rest).
//
// Request line:   trunc <msg> <hex image> <n | all> <path>;<path>;...
//   path  = token.token....      (an accessor chain called on make_view<Msg>(p, n))
//   token = H            sbepp::get_header(message or group)
//         | l:IDX:g      getter of leaf IDX of the current level/header (through its composites)
//         | l:IDX:s:HEX  setter (value bits)
//         | l:IDX:d      array leaf: data()
//         | l:IDX:e:I    array leaf: read  a[I]
//         | l:IDX:w:I    array leaf: write a[I]
//         | l:IDX:a:LEN  array leaf: assign_range(vector of LEN elements)
//         | G:K | D:K    K-th group / data member of the current level
//         | n            group/data: size()
//         | b  +  *      group: begin(), ++it, *it
//         | i:I          flat group: operator[](I)
//         | dd           data: data()
//         | e:I | w:I    data: read / write element I
//         | r:COUNT      data: resize(COUNT, sbepp::default_init)
//         | a:LEN        data: assign_range(vector of LEN elements)
//         | af:LEN an:LEN as:LEN ai:LEN rv:COUNT insr:POS:LEN insi:POS:LEN
//                        data: assign(first,last), assign(LEN, v), assign_string(LEN chars), assign(ilist),
//                        resize(COUNT, v), insert(begin+POS, first, last), insert(begin+POS, ilist)
//         | fr bk pb pop cl er:A:B er1:A ins:POS:COUNT ins1:POS rs:COUNT
//                        data: front, back, push_back, pop_back, clear, erase(begin+A, begin+B),
//                        erase(begin+A), insert(begin+POS, COUNT, v), insert(begin+POS, v), resize(COUNT)
//         | z            sbepp::size_bytes(current view)
// For every n (all: 0..|image|) the first n bytes of the image are placed in a buffer of EXACTLY n
// accessible bytes (the byte at offset n and the following 1 TiB are PROT_NONE, so is the page
// before the buffer's first page) and every path is run on a fresh copy under proto::guarded.
// (cursor traversals: see `ctrav` below)
// Answer: one block per n joined by ',', one character per path:
//   o completed | A assertion handler | F SIGSEGV/SIGBUS | U UBSan trap | ? malformed path
//
// Second buffer mode (mutating accessors):   canary <msg> <hex image> <n | all> <slack> <path>;...
// The view [p, p+n) lies INSIDE an allocation of n + slack accessible bytes; the slack is filled with
// 0xC3 before every path, so an out-of-view write completes and the call returns:
//   o completed, slack intact | A handler, slack intact | w completed, slack MODIFIED (silent
//   out-of-view write) | W handler invoked AFTER the slack was modified | F | U | ?
#pragma once
#include "gen_driver.hpp"

#include <algorithm>

namespace c10
{
struct tok
{
    std::string k;
    std::uint64_t a{};
    std::string op;
    std::uint64_t b{};
};

using path = std::vector<tok>;

struct bad_path
{
};

static volatile std::uint64_t sink_v;

template<typename T>
inline void sink(T v)
{
    std::uint64_t x = 0;
    std::memcpy(&x, &v, sizeof(v) < sizeof(x) ? sizeof(v) : sizeof(x));
    sink_v = x;
}

inline std::vector<std::string> split(const std::string& s, char sep)
{
    std::vector<std::string> out;
    std::string cur;
    for(char ch : s)
    {
        if(ch == sep)
        {
            out.push_back(cur);
            cur.clear();
        }
        else
        {
            cur.push_back(ch);
        }
    }
    out.push_back(cur);
    return out;
}

inline path parse_path(const std::string& s)
{
    path p;
    for(const auto& t : split(s, '.'))
    {
        const auto f = split(t, ':');
        tok k;
        k.k = f[0];
        if(k.k == "l")
        {
            k.a = f.size() > 1 ? std::strtoull(f[1].c_str(), nullptr, 10) : 0;
            k.op = f.size() > 2 ? f[2] : "";
            k.b = f.size() > 3 ? std::strtoull(f[3].c_str(), nullptr, k.op == "s" ? 16 : 10) : 0;
        }
        else
        {
            k.a = f.size() > 1 ? std::strtoull(f[1].c_str(), nullptr, 10) : 0;
            k.b = f.size() > 2 ? std::strtoull(f[2].c_str(), nullptr, 10) : 0;
        }
        p.push_back(k);
    }
    return p;
}

// n accessible bytes ending exactly at a large PROT_NONE region
struct gbuf
{
    static constexpr std::size_t tail = std::size_t{1} << 40;
    char* base{};
    std::size_t total{};
    char* p{};
    std::size_t n{};

    explicit gbuf(std::size_t size) : n{size}
    {
        const std::size_t page = static_cast<std::size_t>(sysconf(_SC_PAGESIZE));
        const std::size_t pages = (size + page - 1) / page + 1;
        // the largest PROT_NONE tail the address-space limit allows (1 TiB, else smaller)
        base = static_cast<char*>(MAP_FAILED);
        for(std::size_t t = tail; t >= (std::size_t{1} << 24) && base == MAP_FAILED; t >>= 4)
        {
            total = (pages + 1) * page + t;
            base = static_cast<char*>(
                mmap(nullptr, total, PROT_NONE, MAP_PRIVATE | MAP_ANONYMOUS | MAP_NORESERVE, -1, 0));
        }
        if(base == MAP_FAILED)
        {
            std::_Exit(72);
        }
        // [page 0: PROT_NONE][pages 1..pages: RW][rest: PROT_NONE]
        if(mprotect(base + page, pages * page, PROT_READ | PROT_WRITE) != 0)
        {
            std::_Exit(72);
        }
        p = base + (pages + 1) * page - size;
    }

    ~gbuf()
    {
        munmap(base, total);
    }

    gbuf(const gbuf&) = delete;
    gbuf& operator=(const gbuf&) = delete;
};

// ---- leaf helpers -------------------------------------------------------
template<typename Get, typename Set>
void scalar(const tok& t, Get get, Set set)
{
    if(t.op == "g")
    {
        sink(gd::bits_of(get()));
    }
    else if(t.op == "s")
    {
        set(t.b);
    }
    else
    {
        throw bad_path{};
    }
}

template<typename GetArr>
void array(const tok& t, GetArr get)
{
    auto a = get();
    using A = decltype(a);
    using V = typename A::value_type;
    if(t.op == "g")
    {
        // obtaining the array view is the whole call
        sink(0);
    }
    else if(t.op == "d")
    {
        sink(reinterpret_cast<std::uintptr_t>(a.data()));
    }
    else if(t.op == "e")
    {
        sink(static_cast<unsigned char>(a[static_cast<std::size_t>(t.b)]));
    }
    else if(t.op == "w")
    {
        a[static_cast<std::size_t>(t.b)] = static_cast<V>(0x5a);
    }
    else if(t.op == "a")
    {
        std::vector<V> v(static_cast<std::size_t>(t.b), static_cast<V>(0x5a));
        sink(reinterpret_cast<std::uintptr_t>(a.assign_range(v)));
    }
    else if(t.op == "D")
    {
        sink(reinterpret_cast<std::uintptr_t>(a.raw().data()));
    }
    else if(t.op == "E")
    {
        sink(static_cast<unsigned char>(a.raw()[static_cast<std::size_t>(t.b)]));
    }
    else if(t.op == "W")
    {
        using RV = typename decltype(a.raw())::value_type;
        a.raw()[static_cast<std::size_t>(t.b)] = static_cast<RV>(0x5a);
    }
    else
    {
        throw bad_path{};
    }
}

template<typename D>
void data_ops(D d, const path& p, std::size_t i)
{
    using V = typename D::value_type;
    using S = typename D::size_type;
    if(i >= p.size())
    {
        return;
    }
    const tok& t = p[i];
    if(t.k == "n")
    {
        sink(d.size());
    }
    else if(t.k == "dd")
    {
        sink(reinterpret_cast<std::uintptr_t>(d.data()));
    }
    else if(t.k == "z")
    {
        sink(sbepp::size_bytes(d));
    }
    else if(t.k == "e")
    {
        sink(static_cast<unsigned char>(d[static_cast<S>(t.a)]));
    }
    else if(t.k == "w")
    {
        d[static_cast<S>(t.a)] = static_cast<V>(0x5a);
    }
    else if(t.k == "rn")
    {
        sink(d.raw().size());
    }
    else if(t.k == "re")
    {
        sink(static_cast<unsigned char>(d.raw()[static_cast<S>(t.a)]));
    }
    else if(t.k == "rw")
    {
        using RV = typename decltype(d.raw())::value_type;
        d.raw()[static_cast<S>(t.a)] = static_cast<RV>(0x5a);
    }
    else if(t.k == "r")
    {
        d.resize(static_cast<S>(t.a), sbepp::default_init);
    }
    else if(t.k == "a")
    {
        std::vector<V> v(static_cast<std::size_t>(t.a), static_cast<V>(0x5a));
        d.assign_range(v);
    }
    // container operations at boundary positions (judged against the specification only)
    else if(t.k == "fr")
    {
        sink(static_cast<unsigned char>(d.front()));
    }
    else if(t.k == "bk")
    {
        sink(static_cast<unsigned char>(d.back()));
    }
    else if(t.k == "pb")
    {
        d.push_back(static_cast<V>(0x5a));
    }
    else if(t.k == "pop")
    {
        d.pop_back();
    }
    else if(t.k == "cl")
    {
        d.clear();
    }
    else if(t.k == "er")
    {
        // erase(begin() + a, begin() + b); b == size() is erase(first, end())
        sink(reinterpret_cast<std::uintptr_t>(d.erase(d.begin() + t.a, d.begin() + t.b)));
    }
    else if(t.k == "er1")
    {
        sink(reinterpret_cast<std::uintptr_t>(d.erase(d.begin() + t.a)));
    }
    else if(t.k == "ins")
    {
        sink(reinterpret_cast<std::uintptr_t>(d.insert(d.begin() + t.a, static_cast<S>(t.b), static_cast<V>(0x5a))));
    }
    else if(t.k == "ins1")
    {
        sink(reinterpret_cast<std::uintptr_t>(d.insert(d.begin() + t.a, static_cast<V>(0x5a))));
    }
    else if(t.k == "rs")
    {
        d.resize(static_cast<S>(t.a));
    }
    else if(t.k == "rv")
    {
        d.resize(static_cast<S>(t.a), static_cast<V>(0x5a));
    }
    else if(t.k == "af")
    {
        std::vector<V> v(static_cast<std::size_t>(t.a), static_cast<V>(0x5a));
        d.assign(v.begin(), v.end());
    }
    else if(t.k == "an")
    {
        d.assign(static_cast<S>(t.a), static_cast<V>(0x5a));
    }
    else if(t.k == "as")
    {
        const std::string str(static_cast<std::size_t>(t.a), 'Z');
        d.assign_string(str.c_str());
    }
    else if(t.k == "ai")
    {
        const V v = static_cast<V>(0x5a);
        switch(t.a)
        {
        case 0: d.assign(std::initializer_list<V>{}); break;
        case 1: d.assign({v}); break;
        case 2: d.assign({v, v}); break;
        case 3: d.assign({v, v, v}); break;
        case 4: d.assign({v, v, v, v}); break;
        case 5: d.assign({v, v, v, v, v}); break;
        case 6: d.assign({v, v, v, v, v, v}); break;
        case 7: d.assign({v, v, v, v, v, v, v}); break;
        case 8: d.assign({v, v, v, v, v, v, v, v}); break;
        default: throw bad_path{};
        }
    }
    else if(t.k == "insr")
    {
        std::vector<V> v(static_cast<std::size_t>(t.b), static_cast<V>(0x5a));
        sink(reinterpret_cast<std::uintptr_t>(d.insert(d.begin() + t.a, v.begin(), v.end())));
    }
    else if(t.k == "insi")
    {
        const V v = static_cast<V>(0x5a);
        switch(t.b)
        {
        case 1: sink(reinterpret_cast<std::uintptr_t>(d.insert(d.begin() + t.a, {v}))); break;
        case 2: sink(reinterpret_cast<std::uintptr_t>(d.insert(d.begin() + t.a, {v, v}))); break;
        case 3: sink(reinterpret_cast<std::uintptr_t>(d.insert(d.begin() + t.a, {v, v, v}))); break;
        default: throw bad_path{};
        }
    }
    else
    {
        throw bad_path{};
    }
}

// G: group view; EN: functor (entry, path, index); HN: functor (dimension view, path, index)
template<bool Flat>
struct index_op
{
    template<typename G, typename EN>
    static void run(G g, const path& p, std::size_t i, EN en)
    {
        using S = typename G::size_type;
        auto e = g[static_cast<S>(p[i].a)];
        en(e, p, i + 1);
    }
};

template<>
struct index_op<false>
{
    template<typename G, typename EN>
    static void run(G, const path&, std::size_t, EN)
    {
        throw bad_path{};
    }
};

// entries reached through the past-the-end iterator of a flat group: back(), *(end() - k), *--end()
template<bool Flat>
struct back_op
{
    template<typename G, typename EN>
    static void run(G g, const path& p, std::size_t i, EN en)
    {
        if(p[i].k == "gbk")
        {
            auto e = g.back();
            en(e, p, i + 1);
        }
        else if(p[i].k == "em")
        {
            auto e = *(g.end() - static_cast<typename G::difference_type>(p[i].a));
            en(e, p, i + 1);
        }
        else
        {
            auto it = g.end();
            --it;
            auto e = *it;
            en(e, p, i + 1);
        }
    }
};

template<>
struct back_op<false>
{
    template<typename G, typename EN>
    static void run(G, const path&, std::size_t, EN)
    {
        throw bad_path{};
    }
};

template<bool Flat, typename G, typename EN, typename HN>
void group_ops(G g, const path& p, std::size_t i, EN en, HN hn)
{
    if(i >= p.size())
    {
        return;
    }
    const tok& t = p[i];
    if(t.k == "n")
    {
        sink(g.size());
    }
    else if(t.k == "z")
    {
        sink(sbepp::size_bytes(g));
    }
    else if(t.k == "H")
    {
        hn(sbepp::get_header(g), p, i + 1);
    }
    else if(t.k == "i")
    {
        index_op<Flat>::run(g, p, i, en);
    }
    else if(t.k == "gbk" || t.k == "em" || t.k == "ed")
    {
        back_op<Flat>::run(g, p, i, en);
    }
    else if(t.k == "b")
    {
        auto it = g.begin();
        i++;
        while(i < p.size() && p[i].k == "+")
        {
            ++it;
            i++;
        }
        if(i < p.size())
        {
            if(p[i].k != "*")
            {
                throw bad_path{};
            }
            en(*it, p, i + 1);
        }
    }
    else
    {
        throw bad_path{};
    }
}

// ---- cursor traversals ---------------------------------------------------
//   ctrav <msg> <hex image> <n | all> <k>:<variant>;<k>:<variant>;...
// For every n and every listed run (k, variant): `auto c = sbepp::init_cursor(m)`, members 0..k-1 in
// schema order through the plain cursor (entries through cursor_range), member k through the variant,
// then stop.  variant 0..4: the GETTER `v.NAME(w)` with w = c, init(c), dont_move(c), init_dont_move(c),
// skip(c); variant 5..8: the SETTER `v.NAME(value, w)` with w = c, init(c), dont_move(c),
// init_dont_move(c) (scalar fields only: composite / array / group / data members answer `?`; `skip`
// has no setters).  The value written has every byte 0x5a.
// Older form: `ctrav <msg> <hex image> <n | all> <count>` = the runs k < count x variant 0..4.
struct done
{
};

struct ctrav
{
    long target;
    int variant;
    long k;
};

constexpr std::uint64_t set_bits = 0x5a5a5a5a5a5a5a5aull;

#define C10_VARIANTS(T, V, NAME, C)                                    \
    switch((T).variant)                                                \
    {                                                                  \
    case 0:                                                            \
        (void)(V).NAME(C);                                             \
        break;                                                         \
    case 1:                                                            \
        (void)(V).NAME(::sbepp::cursor_ops::init(C));                  \
        break;                                                         \
    case 2:                                                            \
        (void)(V).NAME(::sbepp::cursor_ops::dont_move(C));             \
        break;                                                         \
    case 3:                                                            \
        (void)(V).NAME(::sbepp::cursor_ops::init_dont_move(C));        \
        break;                                                         \
    case 4:                                                            \
        (V).NAME(::sbepp::cursor_ops::skip(C));                        \
        break;                                                         \
    default:                                                           \
        throw ::c10::bad_path{};                                       \
    }

// scalar fields: the getters, and the setters through the cursor and the three wrappers that have one
#define C10_SCALAR_VARIANTS(T, V, NAME, C)                                                     \
    if((T).variant < 5)                                                                        \
    {                                                                                          \
        C10_VARIANTS(T, V, NAME, C)                                                            \
    }                                                                                          \
    else                                                                                       \
    {                                                                                          \
        using c10_value_t = decltype((V).NAME(C));                                             \
        const auto c10_value = ::gd::make<c10_value_t>(::c10::set_bits);                       \
        switch((T).variant)                                                                    \
        {                                                                                      \
        case 5:                                                                                \
            (V).NAME(c10_value, C);                                                            \
            break;                                                                             \
        case 6:                                                                                \
            (V).NAME(c10_value, ::sbepp::cursor_ops::init(C));                                 \
            break;                                                                             \
        case 7:                                                                                \
            (V).NAME(c10_value, ::sbepp::cursor_ops::dont_move(C));                            \
            break;                                                                             \
        case 8:                                                                                \
            (V).NAME(c10_value, ::sbepp::cursor_ops::init_dont_move(C));                       \
            break;                                                                             \
        default:                                                                               \
            throw ::c10::bad_path{};                                                           \
        }                                                                                      \
    }

// one member: through the wrapper and stop if it is the target, else through the plain cursor
#define C10_ACC(T, V, NAME, C)            \
    if((T).k == (T).target)               \
    {                                     \
        C10_VARIANTS(T, V, NAME, C)       \
        throw ::c10::done{};              \
    }                                     \
    (T).k++;

// the same for a scalar (non-view) field
#define C10_ACCS(T, V, NAME, C)             \
    if((T).k == (T).target)                 \
    {                                       \
        C10_SCALAR_VARIANTS(T, V, NAME, C)  \
        throw ::c10::done{};                \
    }                                       \
    (T).k++;

using fn_t = std::function<void(char*, std::size_t, const path&)>;
using cfn_t = std::function<void(char*, std::size_t, ctrav&)>;

struct msg_entry
{
    fn_t ra;
    cfn_t cur;
};

inline int main_loop(const std::map<std::string, msg_entry>& table)
{
    proto::install_handlers();
    std::string line;
    while(std::getline(std::cin, line))
    {
        std::istringstream is(line);
        std::string cmd, msg, hex, ns, ps;
        is >> cmd >> msg >> hex >> ns >> ps;
        auto it = table.find(msg);
        if((cmd != "trunc" && cmd != "ctrav" && cmd != "canary") || it == table.end())
        {
            std::cout << "bad-op\n";
            continue;
        }
        const auto img = proto::unhex(hex);
        if(cmd == "ctrav")
        {
            std::vector<std::pair<long, int>> runs;
            if(ps.find(':') == std::string::npos)
            {
                const long count = std::strtol(ps.c_str(), nullptr, 10);
                for(long k = 0; k < count; k++)
                {
                    for(int var = 0; var < 5; var++)
                    {
                        runs.emplace_back(k, var);
                    }
                }
            }
            else
            {
                for(const auto& r : split(ps, ';'))
                {
                    const auto f = split(r, ':');
                    if(f.size() == 2)
                    {
                        runs.emplace_back(
                            std::strtol(f[0].c_str(), nullptr, 10),
                            static_cast<int>(std::strtol(f[1].c_str(), nullptr, 10)));
                    }
                }
            }
            std::size_t lo = 0, hi = img.size();
            if(ns != "all")
            {
                lo = hi = static_cast<std::size_t>(std::strtoull(ns.c_str(), nullptr, 10));
            }
            std::string out;
            for(std::size_t n = lo; n <= hi; n++)
            {
                gbuf gb{n};
                if(n != lo)
                {
                    out += ",";
                }
                for(const auto& r : runs)
                {
                    std::memcpy(gb.p, img.data(), std::min(n, img.size()));
                    ctrav t{r.first, r.second, 0};
                    bool bad = false;
                    const auto st = proto::guarded(
                        [&]
                        {
                            try
                            {
                                it->second.cur(gb.p, n, t);
                            }
                            catch(const done&)
                            {
                            }
                            catch(const bad_path&)
                            {
                                bad = true;
                            }
                        });
                    out += bad ? "?" : st.empty() ? "o" : st == "ASSERT" ? "A" : st == "FAULT" ? "F" : "U";
                }
            }
            std::cout << out << "\n";
            continue;
        }
        std::size_t slack = 0;
        if(cmd == "canary")
        {
            slack = static_cast<std::size_t>(std::strtoull(ps.c_str(), nullptr, 10));
            is >> ps;
        }
        std::vector<path> paths;
        for(const auto& s : split(ps, ';'))
        {
            paths.push_back(parse_path(s));
        }
        std::size_t lo = 0, hi = img.size();
        if(ns != "all")
        {
            lo = hi = static_cast<std::size_t>(std::strtoull(ns.c_str(), nullptr, 10));
        }
        std::string out;
        for(std::size_t n = lo; n <= hi; n++)
        {
            gbuf gb{n + slack};
            if(n != lo)
            {
                out += ",";
            }
            for(const auto& p : paths)
            {
                std::memcpy(gb.p, img.data(), std::min(n, img.size()));
                std::memset(gb.p + n, 0xC3, slack);
                bool bad = false;
                const auto st = proto::guarded(
                    [&]
                    {
                        try
                        {
                            it->second.ra(gb.p, n, p);
                        }
                        catch(const bad_path&)
                        {
                            bad = true;
                        }
                    });
                bool dirty = false;
                for(std::size_t i = 0; i < slack; i++)
                {
                    if(static_cast<unsigned char>(gb.p[n + i]) != 0xC3)
                    {
                        dirty = true;
                        break;
                    }
                }
                out += bad ? "?"
                       : st.empty() ? (dirty ? "w" : "o")
                       : st == "ASSERT" ? (dirty ? "W" : "A")
                       : st == "FAULT" ? "F"
                                       : "U";
            }
        }
        std::cout << out << "\n";
    }
    return 0;
}
} // namespace c10
