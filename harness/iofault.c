/* LD_PRELOAD shim: fails or shortens the k-th output I/O call of one family
 * (property C20).  Build:  gcc -O1 -shared -fPIC -o iofault.so iofault.c -ldl
 *
 * Environment
 *   IOFAULT_FAMILY     mkdir | open | write | close | fsync | none
 *   IOFAULT_K          1-based index of the call (of that family) to hit; 0 = count only
 *   IOFAULT_ERRNO      ENOSPC | EACCES | EIO | EDQUOT | EROFS | <number>   (default EIO)
 *   IOFAULT_MODE       fail        the call returns -1 / NULL with errno
 *                      short       (write family) half of the bytes are written and
 *                                  reported; later calls succeed
 *                      shortfail   as short, and every later write to that fd fails
 *                                  (what a full disk looks like)
 *   IOFAULT_REPORT_FD  inherited descriptor; one line per fired fault and a final
 *                      line with the call counts are written to it
 *
 * Families (libc entry points; libstdc++'s basic_filebuf opens with fopen(),
 * writes with write()/writev() on fileno(), closes with fclose();
 * std::filesystem::create_directories calls mkdir()):
 *   mkdir : mkdir, mkdirat
 *   open  : open, open64, openat, openat64, creat, creat64 with O_WRONLY/O_RDWR,
 *           fopen, fopen64 with a mode containing w, a or +
 *   write : write, writev, pwrite, pwrite64, fwrite   -- on descriptors/streams
 *           opened through the `open` family only (stdout/stderr are never touched)
 *   close : close, fclose on such descriptors
 *   fsync : fsync, fdatasync on such descriptors
 */
#define _GNU_SOURCE
#include <dlfcn.h>
#include <errno.h>
#include <fcntl.h>
#include <stdarg.h>
#include <stdio.h>
#include <stdlib.h>
#include <string.h>
#include <sys/stat.h>
#include <sys/syscall.h>
#include <sys/types.h>
#include <sys/uio.h>
#include <unistd.h>

enum { F_MKDIR, F_OPEN, F_WRITE, F_CLOSE, F_FSYNC, F_N };
static const char *fam_name[F_N] = {"mkdir", "open", "write", "close", "fsync"};

static int g_init;
static int g_family = -1;
static long g_k;
static int g_errno = EIO;
static int g_mode; /* 0 fail, 1 short, 2 shortfail */
static int g_report_fd = -1;
static long g_count[F_N];
static long g_fired;
#define MAXFD 4096
static unsigned char g_tracked[MAXFD]; /* 1 = output fd, 2 = poisoned (shortfail) */

static void raw_write(int fd, const char *s, size_t n)
{
    while(n > 0)
    {
        long r = syscall(SYS_write, fd, s, n);
        if(r <= 0)
        {
            return;
        }
        s += r;
        n -= (size_t)r;
    }
}

static int parse_errno(const char *s)
{
    if(!s || !*s) return EIO;
    if(!strcmp(s, "ENOSPC")) return ENOSPC;
    if(!strcmp(s, "EACCES")) return EACCES;
    if(!strcmp(s, "EIO")) return EIO;
    if(!strcmp(s, "EDQUOT")) return EDQUOT;
    if(!strcmp(s, "EROFS")) return EROFS;
    if(!strcmp(s, "EMFILE")) return EMFILE;
    return atoi(s) > 0 ? atoi(s) : EIO;
}

static void init(void)
{
    if(g_init) return;
    g_init = 1;
    const char *f = getenv("IOFAULT_FAMILY");
    if(f)
    {
        for(int i = 0; i < F_N; i++)
        {
            if(!strcmp(f, fam_name[i])) g_family = i;
        }
    }
    const char *k = getenv("IOFAULT_K");
    g_k = k ? atol(k) : 0;
    g_errno = parse_errno(getenv("IOFAULT_ERRNO"));
    const char *m = getenv("IOFAULT_MODE");
    if(m && !strcmp(m, "short")) g_mode = 1;
    if(m && !strcmp(m, "shortfail")) g_mode = 2;
    const char *r = getenv("IOFAULT_REPORT_FD");
    if(r && *r) g_report_fd = atoi(r);
}

static void report_line(const char *what, const char *fn, const char *detail)
{
    if(g_report_fd < 0) return;
    char buf[512];
    int n = snprintf(buf, sizeof buf, "%s fn=%s %s\n", what, fn, detail ? detail : "");
    if(n > 0) raw_write(g_report_fd, buf, (size_t)n);
}

__attribute__((destructor)) static void fini(void)
{
    init();
    if(g_report_fd < 0) return;
    char buf[256];
    int n = snprintf(buf, sizeof buf, "counts mkdir=%ld open=%ld write=%ld close=%ld fsync=%ld fired=%ld\n",
                     g_count[F_MKDIR], g_count[F_OPEN], g_count[F_WRITE], g_count[F_CLOSE], g_count[F_FSYNC],
                     g_fired);
    if(n > 0) raw_write(g_report_fd, buf, (size_t)n);
}

/* counts the call; returns 1 when this is the call to hit */
static int hit(int family, const char *fn, const char *detail)
{
    init();
    long c = __sync_add_and_fetch(&g_count[family], 1);
    if(family == g_family && g_k > 0 && c == g_k)
    {
        __sync_add_and_fetch(&g_fired, 1);
        char d[400];
        snprintf(d, sizeof d, "k=%ld errno=%d mode=%d %s", c, g_errno, g_mode, detail ? detail : "");
        report_line("fired", fn, d);
        return 1;
    }
    return 0;
}

static void track(int fd)
{
    if(fd >= 0 && fd < MAXFD && fd != g_report_fd) g_tracked[fd] = 1;
}
static int tracked(int fd)
{
    return fd >= 0 && fd < MAXFD ? g_tracked[fd] : 0;
}
static void untrack(int fd)
{
    if(fd >= 0 && fd < MAXFD) g_tracked[fd] = 0;
}

#define NEXT(ret, name, ...)                                   \
    static ret (*real_##name)(__VA_ARGS__);                    \
    if(!real_##name) real_##name = dlsym(RTLD_NEXT, #name)

/* ------------------------------------------------------------------ mkdir */
int mkdir(const char *path, mode_t mode)
{
    NEXT(int, mkdir, const char *, mode_t);
    if(hit(F_MKDIR, "mkdir", path))
    {
        errno = g_errno;
        return -1;
    }
    return real_mkdir(path, mode);
}

int mkdirat(int dirfd, const char *path, mode_t mode)
{
    NEXT(int, mkdirat, int, const char *, mode_t);
    if(hit(F_MKDIR, "mkdirat", path))
    {
        errno = g_errno;
        return -1;
    }
    return real_mkdirat(dirfd, path, mode);
}

/* ------------------------------------------------------------------ open */
static int is_write_flags(int flags)
{
    int acc = flags & O_ACCMODE;
    return acc == O_WRONLY || acc == O_RDWR;
}

#define OPEN_BODY(fn, call)                                \
    mode_t mode = 0;                                       \
    if(flags & (O_CREAT | O_TMPFILE))                      \
    {                                                      \
        va_list ap;                                        \
        va_start(ap, flags);                               \
        mode = va_arg(ap, mode_t);                         \
        va_end(ap);                                        \
    }                                                      \
    if(is_write_flags(flags))                              \
    {                                                      \
        if(hit(F_OPEN, fn, path))                          \
        {                                                  \
            errno = g_errno;                               \
            return -1;                                     \
        }                                                  \
        int fd = call;                                     \
        track(fd);                                         \
        return fd;                                         \
    }                                                      \
    return call

int open(const char *path, int flags, ...)
{
    NEXT(int, open, const char *, int, ...);
    OPEN_BODY("open", real_open(path, flags, mode));
}

int open64(const char *path, int flags, ...)
{
    NEXT(int, open64, const char *, int, ...);
    OPEN_BODY("open64", real_open64(path, flags, mode));
}

int openat(int dirfd, const char *path, int flags, ...)
{
    NEXT(int, openat, int, const char *, int, ...);
    OPEN_BODY("openat", real_openat(dirfd, path, flags, mode));
}

int openat64(int dirfd, const char *path, int flags, ...)
{
    NEXT(int, openat64, int, const char *, int, ...);
    OPEN_BODY("openat64", real_openat64(dirfd, path, flags, mode));
}

int creat(const char *path, mode_t mode)
{
    NEXT(int, creat, const char *, mode_t);
    if(hit(F_OPEN, "creat", path))
    {
        errno = g_errno;
        return -1;
    }
    int fd = real_creat(path, mode);
    track(fd);
    return fd;
}

int creat64(const char *path, mode_t mode)
{
    NEXT(int, creat64, const char *, mode_t);
    if(hit(F_OPEN, "creat64", path))
    {
        errno = g_errno;
        return -1;
    }
    int fd = real_creat64(path, mode);
    track(fd);
    return fd;
}

static int is_write_mode(const char *m)
{
    return m && (strchr(m, 'w') || strchr(m, 'a') || strchr(m, '+'));
}

FILE *fopen(const char *path, const char *mode)
{
    NEXT(FILE *, fopen, const char *, const char *);
    if(is_write_mode(mode))
    {
        if(hit(F_OPEN, "fopen", path))
        {
            errno = g_errno;
            return NULL;
        }
        FILE *f = real_fopen(path, mode);
        if(f) track(fileno(f));
        return f;
    }
    return real_fopen(path, mode);
}

FILE *fopen64(const char *path, const char *mode)
{
    NEXT(FILE *, fopen64, const char *, const char *);
    if(is_write_mode(mode))
    {
        if(hit(F_OPEN, "fopen64", path))
        {
            errno = g_errno;
            return NULL;
        }
        FILE *f = real_fopen64(path, mode);
        if(f) track(fileno(f));
        return f;
    }
    return real_fopen64(path, mode);
}

/* ------------------------------------------------------------------ write */
/* returns: -2 = pass through, otherwise the value to return (errno set) */
static ssize_t write_fault(int fd, const char *fn, size_t total, size_t *allowed)
{
    *allowed = total;
    int t = tracked(fd);
    if(!t) return -2;
    if(t == 2)
    {
        /* poisoned by an earlier shortfail: not a new fault, the same disk is still full */
        errno = g_errno;
        return -1;
    }
    char d[64];
    snprintf(d, sizeof d, "fd=%d bytes=%zu", fd, total);
    if(hit(F_WRITE, fn, d))
    {
        if(g_mode == 0 || total < 2)
        {
            errno = g_errno;
            return -1;
        }
        *allowed = total / 2;
        if(g_mode == 2 && fd < MAXFD) g_tracked[fd] = 2;
        return -3; /* short */
    }
    return -2;
}

ssize_t write(int fd, const void *buf, size_t n)
{
    NEXT(ssize_t, write, int, const void *, size_t);
    size_t allowed;
    ssize_t r = write_fault(fd, "write", n, &allowed);
    if(r == -1) return -1;
    if(r == -3) return real_write(fd, buf, allowed);
    return real_write(fd, buf, n);
}

ssize_t writev(int fd, const struct iovec *iov, int cnt)
{
    NEXT(ssize_t, writev, int, const struct iovec *, int);
    size_t total = 0;
    for(int i = 0; i < cnt; i++) total += iov[i].iov_len;
    size_t allowed;
    ssize_t r = write_fault(fd, "writev", total, &allowed);
    if(r == -1) return -1;
    if(r == -3)
    {
        /* write the first `allowed` bytes of the vector */
        NEXT(ssize_t, write, int, const void *, size_t);
        size_t left = allowed;
        ssize_t done = 0;
        for(int i = 0; i < cnt && left > 0; i++)
        {
            size_t m = iov[i].iov_len < left ? iov[i].iov_len : left;
            ssize_t w = real_write(fd, iov[i].iov_base, m);
            if(w < 0) return done > 0 ? done : -1;
            done += w;
            left -= (size_t)w;
            if((size_t)w < m) break;
        }
        return done;
    }
    return real_writev(fd, iov, cnt);
}

ssize_t pwrite(int fd, const void *buf, size_t n, off_t off)
{
    NEXT(ssize_t, pwrite, int, const void *, size_t, off_t);
    size_t allowed;
    ssize_t r = write_fault(fd, "pwrite", n, &allowed);
    if(r == -1) return -1;
    if(r == -3) return real_pwrite(fd, buf, allowed, off);
    return real_pwrite(fd, buf, n, off);
}

ssize_t pwrite64(int fd, const void *buf, size_t n, off64_t off)
{
    NEXT(ssize_t, pwrite64, int, const void *, size_t, off64_t);
    size_t allowed;
    ssize_t r = write_fault(fd, "pwrite64", n, &allowed);
    if(r == -1) return -1;
    if(r == -3) return real_pwrite64(fd, buf, allowed, off);
    return real_pwrite64(fd, buf, n, off);
}

size_t fwrite(const void *ptr, size_t size, size_t nmemb, FILE *f)
{
    NEXT(size_t, fwrite, const void *, size_t, size_t, FILE *);
    int fd = fileno(f);
    size_t allowed;
    ssize_t r = write_fault(fd, "fwrite", size * nmemb, &allowed);
    if(r == -1) return 0;
    if(r == -3 && size > 0) return real_fwrite(ptr, size, allowed / size, f);
    return real_fwrite(ptr, size, nmemb, f);
}

/* ------------------------------------------------------------------ close / fsync */
int close(int fd)
{
    NEXT(int, close, int);
    if(tracked(fd))
    {
        untrack(fd);
        if(hit(F_CLOSE, "close", NULL))
        {
            real_close(fd); /* the descriptor is released, as the kernel does on EIO */
            errno = g_errno;
            return -1;
        }
    }
    return real_close(fd);
}

int fclose(FILE *f)
{
    NEXT(int, fclose, FILE *);
    int fd = f ? fileno(f) : -1;
    if(tracked(fd))
    {
        untrack(fd);
        if(hit(F_CLOSE, "fclose", NULL))
        {
            real_fclose(f);
            errno = g_errno;
            return EOF;
        }
    }
    return real_fclose(f);
}

int fsync(int fd)
{
    NEXT(int, fsync, int);
    if(tracked(fd) && hit(F_FSYNC, "fsync", NULL))
    {
        errno = g_errno;
        return -1;
    }
    return real_fsync(fd);
}

int fdatasync(int fd)
{
    NEXT(int, fdatasync, int);
    if(tracked(fd) && hit(F_FSYNC, "fdatasync", NULL))
    {
        errno = g_errno;
        return -1;
    }
    return real_fdatasync(fd);
}
