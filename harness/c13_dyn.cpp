// Layer R harness for C13: drives sbepp::detail::dynamic_array_ref directly
// (checked build) and a std::vector side by side.  Request/answer format: see
// lean/Sbepp/Drive/C13.lean.
//
//   impl=<memory hex>;<returned indices>;<flags>;<size()>;<size_bytes>
//   vec=<contents hex>;<returned indices>;<length>
// -DC13_UNCHECKED builds the same harness without assertions and size checks
// (what an NDEBUG build executes); it is only fed sequences that are valid.
#ifdef C13_UNCHECKED
#    define SBEPP_DISABLE_ASSERTS
#else
#    define SBEPP_ENABLE_ASSERTS_WITH_HANDLER
#endif
#include "proto.hpp"

#include <sbepp/sbepp.hpp>

#include <algorithm>
#include <cstddef>
#include <initializer_list>
#include <iterator>
#include <limits>
#include <type_traits>

#ifndef C13_UNCHECKED
namespace sbepp
{
[[noreturn]] void assertion_failed(
    char const*, char const*, char const*, long)
{
    proto::assertion_jump();
}
} // namespace sbepp
#endif

namespace
{
// the `Length` template argument: what sbeppc generates for a required
// `<type>` (see e.g. test_schema::types::uint32_req)
template<typename T>
class len_t : public ::sbepp::detail::required_base<T, len_t<T>>
{
public:
    using ::sbepp::detail::required_base<T, len_t<T>>::required_base;
    using value_type = T;

    static constexpr value_type min_value() noexcept
    {
        return {0};
    }

    static constexpr value_type max_value() noexcept
    {
        return static_cast<T>(std::numeric_limits<T>::max() - 1);
    }
};

// minimal single-pass iterator (category: input)
template<typename V>
class input_it
{
public:
    using iterator_category = std::input_iterator_tag;
    using value_type = V;
    using difference_type = std::ptrdiff_t;
    using pointer = const V*;
    using reference = const V&;

    input_it() = default;
    explicit input_it(const V* p) : p{p}
    {
    }

    reference operator*() const
    {
        return *p;
    }

    input_it& operator++()
    {
        ++p;
        return *this;
    }

    input_it operator++(int)
    {
        auto old = *this;
        ++p;
        return old;
    }

    friend bool operator==(const input_it& a, const input_it& b)
    {
        return a.p == b.p;
    }

    friend bool operator!=(const input_it& a, const input_it& b)
    {
        return a.p != b.p;
    }

private:
    const V* p{};
};

struct op_t
{
    std::string name;
    std::vector<std::uint64_t> nums;
    std::vector<unsigned char> bytes;
    bool ok{};
};

bool is_hex_arg(const std::string& name, std::size_t idx, std::size_t nargs)
{
    // the last argument of these operations is a hex byte / byte list
    static const char* hex_last[] = {
        "push", "ins", "insn", "insr", "insi", "insl", "rszv", "asgn", "asgr",
        "asgl", "asgs", "asgrr"};
    for(auto n : hex_last)
    {
        if(name == n)
        {
            if(name == "asgr" || name == "asgl" || name == "asgs"
               || name == "asgrr" || name == "push")
            {
                return idx == 0;
            }
            if(name == "ins" || name == "insr" || name == "insi"
               || name == "insl" || name == "rszv" || name == "asgn")
            {
                return idx == 1;
            }
            if(name == "insn")
            {
                return idx == 2;
            }
        }
    }
    (void)nargs;
    return false;
}

std::vector<op_t> parse_ops(const std::string& s)
{
    std::vector<op_t> out;
    std::size_t i = 0;
    while(i < s.size())
    {
        auto semi = s.find(';', i);
        if(semi == std::string::npos)
        {
            semi = s.size();
        }
        const std::string one = s.substr(i, semi - i);
        i = semi + 1;
        op_t op;
        auto lp = one.find('(');
        if(lp == std::string::npos || one.empty() || one.back() != ')')
        {
            out.push_back(op);
            continue;
        }
        op.name = one.substr(0, lp);
        const std::string inner = one.substr(lp + 1, one.size() - lp - 2);
        std::vector<std::string> args;
        if(!inner.empty())
        {
            std::size_t j = 0;
            while(true)
            {
                auto c = inner.find(',', j);
                if(c == std::string::npos)
                {
                    args.push_back(inner.substr(j));
                    break;
                }
                args.push_back(inner.substr(j, c - j));
                j = c + 1;
            }
        }
        for(std::size_t k = 0; k < args.size(); k++)
        {
            if(is_hex_arg(op.name, k, args.size()))
            {
                op.bytes = proto::unhex(args[k]);
            }
            else
            {
                op.nums.push_back(std::strtoull(args[k].c_str(), nullptr, 10));
            }
        }
        op.ok = true;
        out.push_back(op);
    }
    return out;
}

constexpr std::size_t guard = 1024;

template<typename V>
std::vector<V> to_values(const std::vector<unsigned char>& bs)
{
    std::vector<V> r;
    for(auto b : bs)
    {
        r.push_back(static_cast<V>(b));
    }
    return r;
}

template<typename V>
std::string hex_values(const std::vector<V>& v)
{
    std::vector<unsigned char> bs;
    for(auto x : v)
    {
        bs.push_back(static_cast<unsigned char>(x));
    }
    return proto::hex(bs.data(), bs.size());
}

template<typename Byte, typename V, typename T, sbepp::endian E>
void run(const proto::request& r)
{
    using arr_t = sbepp::detail::dynamic_array_ref<Byte, V, len_t<T>, E>;
    using size_type = typename arr_t::size_type;
    static_assert(std::is_same<size_type, T>::value, "length type");
    constexpr std::size_t w = sizeof(T);

    const auto init = proto::unhex(r.str("init"));
    const std::size_t cap = r.u64("cap");
    const auto ops = parse_ops(r.str("ops"));
    if(cap > init.size())
    {
        std::cout << "bad-op\n";
        return;
    }

    // memory block with guard regions on both sides
    static std::vector<unsigned char> mem;
    mem.assign(guard + init.size() + guard, 0);
    for(std::size_t i = 0; i < mem.size(); i++)
    {
        mem[i] = static_cast<unsigned char>(0xA5 ^ (i * 7));
    }
    std::copy(init.begin(), init.end(), mem.begin() + guard);
    unsigned char* const base = mem.data() + guard;
    // NOLINTNEXTLINE: Byte is a character type
    arr_t a{reinterpret_cast<Byte*>(base), cap};

    // the vector side starts from the encoded contents (own decoding)
    std::vector<V> vec;
    bool vec_valid = false;
    if(w <= cap)
    {
        unsigned long long n = 0;
        for(std::size_t i = 0; i < w; i++)
        {
            const std::size_t idx = (E == sbepp::endian::big) ? i : w - 1 - i;
            n = (n << 8) | base[idx];
        }
        if(n <= cap - w)
        {
            for(std::size_t i = 0; i < n; i++)
            {
                vec.push_back(static_cast<V>(base[w + i]));
            }
            vec_valid = true;
        }
    }

    std::string rets, flags, vrets;
    bool stopped = false;
    bool first = true;
    for(const auto& op : ops)
    {
        if(!first)
        {
            rets += ",";
            flags += ",";
            vrets += ",";
        }
        first = false;
        if(stopped)
        {
            rets += "-";
            flags += "-";
            vrets += "-";
            continue;
        }
        if(!op.ok)
        {
            std::cout << "bad-op\n";
            return;
        }
        // arguments are prepared outside the guarded region
        const std::vector<V> xs = to_values<V>(op.bytes);
        const V x0 = xs.empty() ? V{} : xs[0];
        const std::uint64_t n0 = op.nums.size() > 0 ? op.nums[0] : 0;
        const std::uint64_t n1 = op.nums.size() > 1 ? op.nums[1] : 0;
        // NOLINTNEXTLINE: V is a character type
        V* const data = reinterpret_cast<V*>(base + w);
        std::string cstr(op.bytes.begin(), op.bytes.end());
        bool has_ret = false;
        std::ptrdiff_t ret = 0;
        bool known = true;
        const auto& name = op.name;
        const std::size_t old_vec_size = vec.size();

        // std::vector supports inserting one of its own elements
        // (`v.insert(p, v.back())`): when the value to insert is also stored
        // in the array at or behind `from`, pass THAT element (an lvalue
        // inside the storage that is about to be shifted) instead of the
        // local copy.  Same value, so the model and the vector side are
        // unchanged.
        const auto aliased = [&](std::uint64_t from) -> const V*
        {
            if(!vec_valid || w + vec.size() > cap)
            {
                return nullptr;
            }
            for(std::size_t j = vec.size(); j > from; j--)
            {
                if(vec[j - 1] == x0 && data[j - 1] == x0)
                {
                    return data + (j - 1);
                }
            }
            return nullptr;
        };

        const std::string st = proto::guarded(
            [&]
            {
                typename arr_t::iterator it{};
                if(name == "push")
                {
                    if(const V* p = aliased(0))
                    {
                        a.push_back(*p);
                    }
                    else
                    {
                        a.push_back(x0);
                    }
                }
                else if(name == "pop")
                {
                    a.pop_back();
                }
                else if(name == "clear")
                {
                    a.clear();
                }
                else if(name == "erase")
                {
                    it = a.erase(data + n0);
                    has_ret = true;
                }
                else if(name == "erasr")
                {
                    it = a.erase(data + n0, data + n1);
                    has_ret = true;
                }
                else if(name == "ins")
                {
                    if(const V* p = aliased(n0))
                    {
                        it = a.insert(data + n0, *p);
                    }
                    else
                    {
                        it = a.insert(data + n0, x0);
                    }
                    has_ret = true;
                }
                else if(name == "insn")
                {
                    if(const V* p = aliased(n0))
                    {
                        it = a.insert(
                            data + n0, static_cast<size_type>(n1), *p);
                    }
                    else
                    {
                        it = a.insert(
                            data + n0, static_cast<size_type>(n1), x0);
                    }
                    has_ret = true;
                }
                else if(name == "insr")
                {
                    it = a.insert(data + n0, xs.begin(), xs.end());
                    has_ret = true;
                }
                else if(name == "insi")
                {
                    it = a.insert(
                        data + n0,
                        input_it<V>{xs.data()},
                        input_it<V>{xs.data() + xs.size()});
                    has_ret = true;
                }
                else if(name == "insl")
                {
                    has_ret = true;
                    switch(xs.size())
                    {
                    case 0:
                    {
                        std::initializer_list<V> il = {};
                        it = a.insert(data + n0, il);
                        break;
                    }
                    case 1:
                    {
                        std::initializer_list<V> il = {xs[0]};
                        it = a.insert(data + n0, il);
                        break;
                    }
                    case 2:
                    {
                        std::initializer_list<V> il = {xs[0], xs[1]};
                        it = a.insert(data + n0, il);
                        break;
                    }
                    case 3:
                    {
                        std::initializer_list<V> il = {xs[0], xs[1], xs[2]};
                        it = a.insert(data + n0, il);
                        break;
                    }
                    case 4:
                    {
                        std::initializer_list<V> il = {
                            xs[0], xs[1], xs[2], xs[3]};
                        it = a.insert(data + n0, il);
                        break;
                    }
                    default:
                        known = false;
                    }
                }
                else if(name == "rsz")
                {
                    a.resize(static_cast<size_type>(n0));
                }
                else if(name == "rszv")
                {
                    a.resize(static_cast<size_type>(n0), x0);
                }
                else if(name == "rszd")
                {
                    a.resize(static_cast<size_type>(n0), sbepp::default_init);
                }
                else if(name == "asgn")
                {
                    a.assign(static_cast<size_type>(n0), x0);
                }
                else if(name == "asgr")
                {
                    a.assign(xs.begin(), xs.end());
                }
                else if(name == "asgl")
                {
                    switch(xs.size())
                    {
                    case 0:
                        a.assign(std::initializer_list<V>{});
                        break;
                    case 1:
                        a.assign({xs[0]});
                        break;
                    case 2:
                        a.assign({xs[0], xs[1]});
                        break;
                    case 3:
                        a.assign({xs[0], xs[1], xs[2]});
                        break;
                    case 4:
                        a.assign({xs[0], xs[1], xs[2], xs[3]});
                        break;
                    default:
                        known = false;
                    }
                }
                else if(name == "asgs")
                {
                    a.assign_string(cstr.c_str());
                }
                else if(name == "asgrr")
                {
                    a.assign_range(xs);
                }
                else
                {
                    known = false;
                }
                if(has_ret)
                {
                    ret = it - data;
                }
            });
        if(!known)
        {
            std::cout << "bad-op\n";
            return;
        }
        if(!st.empty())
        {
            rets += "-";
            vrets += "-";
            flags += st;
            stopped = true;
            continue;
        }
        flags += "ok";
        rets += has_ret ? std::to_string(ret) : std::string("-");

        // the same operation on the vector (only if its precondition holds)
        std::ptrdiff_t vret = 0;
        bool vpre = vec_valid;
        if(vpre)
        {
            const auto sz = vec.size();
            if(name == "push")
            {
                vec.push_back(x0);
            }
            else if(name == "pop")
            {
                if((vpre = !vec.empty()))
                {
                    vec.pop_back();
                }
            }
            else if(name == "clear")
            {
                vec.clear();
            }
            else if(name == "erase")
            {
                if((vpre = n0 < sz))
                {
                    const auto vit = vec.erase(vec.begin() + n0);
                    vret = vit - vec.begin();
                }
            }
            else if(name == "erasr")
            {
                if((vpre = n0 <= n1 && n1 <= sz))
                {
                    const auto vit =
                        vec.erase(vec.begin() + n0, vec.begin() + n1);
                    vret = vit - vec.begin();
                }
            }
            else if(name == "ins")
            {
                if((vpre = n0 <= sz))
                {
                    const auto vit = vec.insert(vec.begin() + n0, x0);
                    vret = vit - vec.begin();
                }
            }
            else if(name == "insn")
            {
                if((vpre = n0 <= sz))
                {
                    const auto vit = vec.insert(vec.begin() + n0, n1, x0);
                    vret = vit - vec.begin();
                }
            }
            else if(name == "insr" || name == "insi" || name == "insl")
            {
                if((vpre = n0 <= sz))
                {
                    const auto vit =
                        vec.insert(vec.begin() + n0, xs.begin(), xs.end());
                    vret = vit - vec.begin();
                }
            }
            else if(name == "rsz")
            {
                vec.resize(n0);
            }
            else if(name == "rszv")
            {
                vec.resize(n0, x0);
            }
            else if(name == "rszd")
            {
                // new elements are indeterminate: take whatever the
                // implementation exposes (only if it is inside the block)
                vec.resize(n0);
                for(std::size_t i = old_vec_size; i < n0 && w + i < init.size();
                    i++)
                {
                    vec[i] = static_cast<V>(base[w + i]);
                }
            }
            else if(name == "asgn")
            {
                vec.assign(n0, x0);
            }
            else if(name == "asgr" || name == "asgl" || name == "asgrr")
            {
                vec.assign(xs.begin(), xs.end());
            }
            else if(name == "asgs")
            {
                const std::string tmp(cstr.c_str());
                vec.assign(tmp.begin(), tmp.end());
            }
        }
        if(!vpre)
        {
            vec_valid = false;
            vrets += "pre";
        }
        else
        {
            vrets += has_ret ? std::to_string(vret) : std::string("-");
        }
    }

    std::string sz = "-", sb = "-";
    if(!stopped)
    {
        unsigned long long v1 = 0, v2 = 0;
        auto s1 = proto::guarded([&] { v1 = a.size(); });
        sz = s1.empty() ? std::to_string(v1) : s1;
        auto s2 = proto::guarded([&] { v2 = sbepp::size_bytes(a); });
        sb = s2.empty() ? std::to_string(v2) : s2;
    }

    bool oob = false;
    for(std::size_t i = 0; i < mem.size(); i++)
    {
        if(i >= guard && i < guard + init.size())
        {
            continue;
        }
        if(mem[i] != static_cast<unsigned char>(0xA5 ^ (i * 7)))
        {
            oob = true;
        }
    }
    if(oob)
    {
        std::cout << "impl=OOB";
    }
    else
    {
        std::cout << "impl=" << proto::hex(base, init.size()) << ";" << rets
                  << ";" << flags << ";" << sz << ";" << sb;
    }
    if(vec_valid)
    {
        std::cout << " vec=" << hex_values(vec) << ";" << vrets << ";"
                  << vec.size() << "\n";
    }
    else
    {
        std::cout << " vec=invalid;" << vrets << ";-\n";
    }
}

template<typename T, sbepp::endian E>
void run_elem(const proto::request& r)
{
    const auto e = r.str("elem");
    if(e == "char" || e.empty())
    {
        run<unsigned char, char, T, E>(r);
    }
    else if(e == "u8")
    {
        run<char, std::uint8_t, T, E>(r);
    }
    else if(e == "i8")
    {
        run<unsigned char, std::int8_t, T, E>(r);
    }
    else
    {
        std::cout << "bad-op\n";
    }
}

template<typename T>
void run_bo(const proto::request& r)
{
    const auto bo = r.str("bo");
    if(bo == "le")
    {
        run_elem<T, sbepp::endian::little>(r);
    }
    else if(bo == "be")
    {
        run_elem<T, sbepp::endian::big>(r);
    }
    else
    {
        std::cout << "bad-op\n";
    }
}
} // namespace

int main()
{
    std::ios::sync_with_stdio(false);
    proto::install_handlers();
    std::string line;
    proto::request r;
    while(std::getline(std::cin, line))
    {
        if(!proto::parse(line, r))
        {
            std::cout << "\n";
            continue;
        }
        const auto t = r.str("len");
        if(r.cmd != "dyn")
        {
            std::cout << "bad-op\n";
        }
        else if(t == "u8")
        {
            run_bo<std::uint8_t>(r);
        }
        else if(t == "u16")
        {
            run_bo<std::uint16_t>(r);
        }
        else if(t == "u32")
        {
            run_bo<std::uint32_t>(r);
        }
        else if(t == "u64")
        {
            run_bo<std::uint64_t>(r);
        }
        else
        {
            std::cout << "bad-op\n";
        }
    }
    std::cout.flush();
    return 0;
}
