// Line-protocol helpers shared by the C++ harnesses (Layer R).
// One request per line on stdin: `<cmd> key=value key=value ...`
#pragma once
#include <csetjmp>
#include <csignal>
#include <cstdint>
#include <cstdio>
#include <cstdlib>
#include <cstring>
#include <iostream>
#include <map>
#include <sstream>
#include <string>
#include <vector>

namespace proto
{
struct request
{
    std::string cmd;
    std::map<std::string, std::string> kv;

    bool has(const std::string& k) const
    {
        return kv.count(k) != 0;
    }

    const std::string& str(const std::string& k) const
    {
        static const std::string empty;
        auto it = kv.find(k);
        return it == kv.end() ? empty : it->second;
    }

    std::uint64_t u64(const std::string& k) const
    {
        return std::strtoull(str(k).c_str(), nullptr, 0);
    }

    std::int64_t i64(const std::string& k) const
    {
        return std::strtoll(str(k).c_str(), nullptr, 0);
    }
};

inline bool parse(const std::string& line, request& r)
{
    std::istringstream is(line);
    r.kv.clear();
    if(!(is >> r.cmd))
    {
        return false;
    }
    std::string tok;
    while(is >> tok)
    {
        auto eq = tok.find('=');
        if(eq == std::string::npos)
        {
            r.kv[tok] = "";
        }
        else
        {
            r.kv[tok.substr(0, eq)] = tok.substr(eq + 1);
        }
    }
    return true;
}

inline std::vector<unsigned char> unhex(const std::string& s)
{
    std::vector<unsigned char> out;
    for(std::size_t i = 0; i + 1 < s.size(); i += 2)
    {
        out.push_back(static_cast<unsigned char>(
            std::strtoul(s.substr(i, 2).c_str(), nullptr, 16)));
    }
    return out;
}

inline std::string hex(const unsigned char* p, std::size_t n)
{
    static const char* d = "0123456789abcdef";
    std::string s;
    for(std::size_t i = 0; i < n; i++)
    {
        s.push_back(d[p[i] >> 4]);
        s.push_back(d[p[i] & 15]);
    }
    return s;
}

// ---- UB / assertion / fault interception --------------------------------
// Harnesses are built with -fsanitize=undefined
// -fsanitize-undefined-trap-on-error: UB executes a trap instruction (SIGILL),
// which lands here; guard pages give SIGSEGV/SIGBUS; the sbepp assertion
// handler longjmps with code 3.
static sigjmp_buf jump_buf;
static volatile sig_atomic_t armed = 0;

inline void on_signal(int sig)
{
    if(armed)
    {
        armed = 0;
        siglongjmp(jump_buf, sig == SIGILL ? 1 : 2);
    }
    std::_Exit(70);
}

inline void install_handlers()
{
    struct sigaction sa;
    std::memset(&sa, 0, sizeof(sa));
    sa.sa_handler = on_signal;
    sa.sa_flags = SA_NODEFER;
    sigaction(SIGILL, &sa, nullptr);
    sigaction(SIGSEGV, &sa, nullptr);
    sigaction(SIGBUS, &sa, nullptr);
    sigaction(SIGFPE, &sa, nullptr);
    sigaction(SIGTRAP, &sa, nullptr);
}

// run f(); returns "" on normal completion, "UB", "FAULT" or "ASSERT"
template<typename F>
std::string guarded(F&& f)
{
    armed = 1;
    int rc = sigsetjmp(jump_buf, 1);
    if(rc == 0)
    {
        f();
        armed = 0;
        return "";
    }
    armed = 0;
    return rc == 1 ? "UB" : rc == 2 ? "FAULT" : "ASSERT";
}

[[noreturn]] inline void assertion_jump()
{
    if(armed)
    {
        armed = 0;
        siglongjmp(jump_buf, 3);
    }
    std::_Exit(71);
}
} // namespace proto
