// Recording visitor for C19 (C++11 compatible).  One record per callback; the
// member name is taken from the traits of the tag the callback received, so a
// wrong tag shows up as a wrong name.
#pragma once
#include "gen_driver.hpp"

namespace c19
{
template<bool B, typename T = void>
using en = typename std::enable_if<B, T>::type;

struct enum_name_visitor
{
    std::string name;

    template<typename T, typename Tag>
    void on_enum_value(T, Tag)
    {
        name = sbepp::enum_value_traits<Tag>::name();
    }

    template<typename T>
    void on_enum_value(T, sbepp::unknown_enum_value_tag)
    {
        name = "unknown";
    }
};

struct set_choice_visitor
{
    std::string text;

    template<typename Tag>
    void on_set_choice(const bool value, Tag)
    {
        if(!text.empty())
        {
            text += ",";
        }
        text += sbepp::set_choice_traits<Tag>::name();
        text += value ? "=1" : "=0";
    }
};

struct recorder
{
    std::vector<std::string>& out;
    long stop_at;
    long count;
    bool stopped;
    std::string pfx;       // entry prefix
    std::string comp;      // composite path inside the current field
    std::vector<std::size_t> entry_index;
    std::vector<std::string> group_prefix;

    recorder(std::vector<std::string>& o, long stop)
        : out(o), stop_at(stop), count(0), stopped(false)
    {
    }

    // a callback invoked although an earlier callback returned true: the property says the visit stops "as soon as a
    // callback returns true", so this is recorded (and makes the record list differ from the specified prefix)
    bool after_stop(const char* what)
    {
        out.push_back(std::string("AFTER-STOP:") + what);
        return true;
    }

    // returns true when visiting must stop
    bool rec(const std::string& s)
    {
        out.push_back(s);
        if(++count == stop_at)
        {
            stopped = true;
        }
        return stopped;
    }

    template<typename T, typename Cursor, typename Tag>
    void on_message(T m, Cursor& c, Tag)
    {
        sbepp::visit_children(m, c, *this);
    }

    template<typename T, typename Cursor, typename Tag>
    bool on_group(T g, Cursor& c, Tag)
    {
        if(stopped)
        {
            return after_stop(__func__);
        }
        const std::string name = sbepp::group_traits<Tag>::name();
        if(rec("G:" + pfx + name + ":n=" + std::to_string(static_cast<unsigned long long>(g.size()))))
        {
            return true;
        }
        group_prefix.push_back(pfx + name);
        entry_index.push_back(0);
        const std::string saved = pfx;
        sbepp::visit_children(g, c, *this);
        pfx = saved;
        group_prefix.pop_back();
        entry_index.pop_back();
        return stopped;
    }

    template<typename T, typename Cursor>
    bool on_entry(T e, Cursor& c)
    {
        if(stopped)
        {
            return after_stop(__func__);
        }
        const std::string gp = group_prefix.back();
        const std::size_t i = entry_index.back()++;
        if(rec("E:" + gp + "[" + std::to_string(i) + "]"))
        {
            return true;
        }
        pfx = gp + "[" + std::to_string(i) + "].";
        sbepp::visit_children(e, c, *this);
        return stopped;
    }

    template<typename T, typename Tag>
    bool on_data(T d, Tag)
    {
        if(stopped)
        {
            return after_stop(__func__);
        }
        std::vector<std::string> tmp;
        gd::obs_data(tmp, "D:" + pfx + sbepp::data_traits<Tag>::name(), d, false);
        return rec(tmp[0]);
    }

    // ---- values
    template<typename T>
    en<sbepp::is_array_type<T>::value, std::string> value_text(T a)
    {
        std::vector<std::string> tmp;
        gd::obs_arr(tmp, "", a);
        return tmp[0];
    }

    template<typename T>
    en<sbepp::is_non_array_type<T>::value, std::string> value_text(T t)
    {
        return "=" + gd::hexnum(gd::bits_of(t));
    }

    template<typename T>
    en<sbepp::is_enum<T>::value, std::string> value_text(T e)
    {
        enum_name_visitor v;
        sbepp::visit(e, v);
        return "=" + gd::hexnum(gd::bits_of(e)) + "/" + v.name;
    }

    template<typename T>
    en<sbepp::is_set<T>::value, std::string> value_text(T s)
    {
        set_choice_visitor v;
        sbepp::visit(s, v);
        return "=" + gd::hexnum(gd::bits_of(s)) + "/{" + v.text + "}";
    }

    // ---- on_field: scalar/array/enum/set vs composite
    template<typename T, typename Tag>
    en<!sbepp::is_composite<T>::value, bool> on_field(T f, Tag)
    {
        if(stopped)
        {
            return after_stop(__func__);
        }
        return rec("F:" + pfx + sbepp::field_traits<Tag>::name() + value_text(f));
    }

    template<typename T, typename Tag>
    en<sbepp::is_composite<T>::value, bool> on_field(T f, Tag)
    {
        if(stopped)
        {
            return after_stop(__func__);
        }
        const std::string name = sbepp::field_traits<Tag>::name();
        if(rec("F:" + pfx + name + "{}"))
        {
            return true;
        }
        const std::string saved = comp;
        comp = pfx + name + ".";
        sbepp::visit_children(f, *this);
        comp = saved;
        return stopped;
    }

    template<typename T, typename Tag>
    bool on_type(T t, Tag)
    {
        if(stopped)
        {
            return after_stop(__func__);
        }
        return rec("T:" + comp + sbepp::type_traits<Tag>::name() + value_text(t));
    }

    template<typename T, typename Tag>
    bool on_enum(T e, Tag)
    {
        if(stopped)
        {
            return after_stop(__func__);
        }
        return rec("N:" + comp + sbepp::enum_traits<Tag>::name() + value_text(e));
    }

    template<typename T, typename Tag>
    bool on_set(T s, Tag)
    {
        if(stopped)
        {
            return after_stop(__func__);
        }
        return rec("S:" + comp + sbepp::set_traits<Tag>::name() + value_text(s));
    }

    template<typename T, typename Tag>
    bool on_composite(T c, Tag)
    {
        if(stopped)
        {
            return after_stop(__func__);
        }
        const std::string name = sbepp::composite_traits<Tag>::name();
        if(rec("C:" + comp + name + "{}"))
        {
            return true;
        }
        const std::string saved = comp;
        comp = comp + name + ".";
        sbepp::visit_children(c, *this);
        comp = saved;
        return stopped;
    }
};

// visit a message view; returns records, whether it stopped, the cursor offset
template<typename Msg>
void run(Msg m, gd::span buf, long stop_at, std::vector<std::string>& out, bool& stopped, long& cursor)
{
    recorder r(out, stop_at);
    auto c = sbepp::init_cursor(m);
    sbepp::visit(m, c, r);
    stopped = r.stopped;
    cursor = static_cast<long>(c.pointer() - buf.p);
}
} // namespace c19
