// Layer R harness for C15: drives sbepp::detail::bitset_base<T> directly.
#include "proto.hpp"

#include <sbepp/sbepp.hpp>

template<typename T>
struct set_t : sbepp::detail::bitset_base<T>
{
    using sbepp::detail::bitset_base<T>::bitset_base;
    using sbepp::detail::bitset_base<T>::operator();
};

template<typename T>
static bool get_bit(std::uint64_t v, unsigned n)
{
    set_t<T> s{static_cast<T>(v)};
    return s(sbepp::detail::get_bit_tag{}, static_cast<sbepp::choice_index_t>(n));
}

template<typename T>
static std::uint64_t set_bit(std::uint64_t v, unsigned n, bool b)
{
    set_t<T> s{static_cast<T>(v)};
    s(sbepp::detail::set_bit_tag{}, static_cast<sbepp::choice_index_t>(n), b);
    return *s;
}

template<typename T>
static void run(const proto::request& r)
{
    const auto op = r.str("op");
    const unsigned n = static_cast<unsigned>(r.u64("n"));
    std::uint64_t out = 0;
    std::uint64_t ub = 0;
    std::string st;
    if(op == "get")
    {
        st = proto::guarded([&] { out = get_bit<T>(r.u64("v"), n); });
    }
    else if(op == "set")
    {
        st = proto::guarded(
            [&] { out = set_bit<T>(r.u64("v"), n, r.u64("b") != 0); });
    }
    else if(op == "seq")
    {
        // a whole history of setter calls on ONE set object
        const std::string ops = r.str("ops");
        st = proto::guarded(
            [&]
            {
                set_t<T> s{static_cast<T>(r.u64("v"))};
                std::size_t i = 0;
                while(i < ops.size())
                {
                    std::size_t colon = ops.find(':', i);
                    std::size_t comma = ops.find(',', i);
                    if(comma == std::string::npos)
                    {
                        comma = ops.size();
                    }
                    const unsigned idx = static_cast<unsigned>(
                        std::stoul(ops.substr(i, colon - i)));
                    const bool b = ops.substr(colon + 1, comma - colon - 1) != "0";
                    s(sbepp::detail::set_bit_tag{},
                      static_cast<sbepp::choice_index_t>(idx),
                      b);
                    i = comma + 1;
                }
                out = *s;
            });
    }
    else if(op == "getsum" || op == "setsum")
    {
        const bool b = r.u64("b") != 0;
        for(std::uint64_t v = r.u64("lo"); v < r.u64("hi"); v++)
        {
            std::uint64_t x = 0;
            auto s = proto::guarded(
                [&]
                { x = (op == "getsum") ? get_bit<T>(v, n) : set_bit<T>(v, n, b); });
            if(s.empty())
            {
                out += x * (v + 1);
            }
            else
            {
                ub++;
            }
        }
        std::cout << "impl=" << out << " implub=" << ub << "\n";
        return;
    }
    else
    {
        std::cout << "bad-op\n";
        return;
    }
    if(st.empty())
    {
        std::cout << "impl=" << out << "\n";
    }
    else
    {
        std::cout << "impl=" << st << "\n";
    }
}

int main()
{
    proto::install_handlers();
    std::string line;
    proto::request r;
    while(std::getline(std::cin, line))
    {
        if(!proto::parse(line, r))
        {
            std::cout << "\n";
            continue;
        }
        const auto t = r.str("T");
        if(r.cmd != "bits")
        {
            std::cout << "bad-op\n";
        }
        else if(t == "u8")
        {
            run<std::uint8_t>(r);
        }
        else if(t == "u16")
        {
            run<std::uint16_t>(r);
        }
        else if(t == "u32")
        {
            run<std::uint32_t>(r);
        }
        else if(t == "u64")
        {
            run<std::uint64_t>(r);
        }
        else
        {
            std::cout << "bad-op\n";
        }
    }
    return 0;
}
