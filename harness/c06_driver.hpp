// Generic part of the per-schema C06 drivers (vlib/c06gen.py emits the rest).
//
// Request lines:
//   checked  <msg> <hex> <n>          size_bytes_checked(message_view, n)
//   checkedg <msg> <group> <hex> <n>  size_bytes_checked(group_view, n) for a top-level group
// The first n bytes of <hex> (zero padded) are copied into a guard buffer of
// EXACTLY n bytes: the byte at offset n is on a PROT_NONE page, so any read at an
// offset >= n raises SIGSEGV -> `FAULT`.
// Answer: `res=<valid>,<size>|FAULT|UB|ASSERT|TIMEOUT steps=<k>`
//   steps: number of size_bytes_checked_visitor::on_* callbacks entered, counted
//   by -finstrument-functions hooks (exact, also for inlined callbacks); the call
//   is abandoned with TIMEOUT when the count exceeds C06_STEP_CAP or after
//   C06_CPU_MS of CPU time (ITIMER_VIRTUAL), whichever comes first.
//
// Built twice per schema: -DSBEPP_DISABLE_ASSERTS (what a release build does) and
// -DSBEPP_ENABLE_ASSERTS_WITH_HANDLER (checked build: SBEPP_SIZE_CHECK -> ASSERT).
#pragma once
#include "gen_driver.hpp"

#include <dlfcn.h>
#include <sys/time.h>

#ifndef C06_STEP_CAP
#define C06_STEP_CAP 3000000ull
#endif
#ifndef C06_CPU_MS
#define C06_CPU_MS 1500
#endif

#define C06_NOINSTR __attribute__((no_instrument_function))

namespace c06
{
static volatile unsigned long long steps = 0;
static volatile int counting = 0;

struct slot
{
    void* fn;
    int is_cb;
};
static slot cache[4096];

C06_NOINSTR inline bool contains(const char* s, const char* sub)
{
    return std::strstr(s, sub) != nullptr;
}

// is `fn` an instantiation of size_bytes_checked_visitor::on_*?  (Itanium
// mangling keeps the class and member names verbatim)
C06_NOINSTR inline int classify(void* fn)
{
    Dl_info info;
    if(!dladdr(fn, &info) || !info.dli_sname)
    {
        return 0;
    }
    const char* n = info.dli_sname;
    if(!contains(n, "26size_bytes_checked_visitor"))
    {
        return 0;
    }
    return (contains(n, "10on_message") || contains(n, "8on_group") || contains(n, "8on_entry")
            || contains(n, "7on_data") || contains(n, "8on_field"))
               ? 1
               : 0;
}

C06_NOINSTR inline void timeout_jump()
{
    if(proto::armed)
    {
        proto::armed = 0;
        counting = 0;
        siglongjmp(proto::jump_buf, 4);
    }
    std::_Exit(73);
}

C06_NOINSTR inline void on_enter(void* fn)
{
    if(!counting)
    {
        return;
    }
    const std::size_t h = (reinterpret_cast<std::uintptr_t>(fn) >> 2) & 4095;
    std::size_t i = h;
    for(;;)
    {
        if(cache[i].fn == fn)
        {
            break;
        }
        if(cache[i].fn == nullptr)
        {
            counting = 0; // dladdr and friends are not to be counted
            cache[i].is_cb = classify(fn);
            cache[i].fn = fn;
            counting = 1;
            break;
        }
        i = (i + 1) & 4095;
        if(i == h)
        {
            return;
        }
    }
    if(cache[i].is_cb)
    {
        steps = steps + 1;
        if(steps > C06_STEP_CAP)
        {
            timeout_jump();
        }
    }
}

C06_NOINSTR inline void on_alarm(int)
{
    timeout_jump();
}

C06_NOINSTR inline void arm_timer(long ms)
{
    struct itimerval tv;
    std::memset(&tv, 0, sizeof(tv));
    tv.it_value.tv_sec = ms / 1000;
    tv.it_value.tv_usec = (ms % 1000) * 1000;
    setitimer(ITIMER_VIRTUAL, &tv, nullptr);
}

// like proto::guarded, with the step counter and the two watchdogs
template<typename F>
C06_NOINSTR std::string guarded(F&& f)
{
    steps = 0;
    proto::armed = 1;
    int rc = sigsetjmp(proto::jump_buf, 1);
    if(rc == 0)
    {
        arm_timer(C06_CPU_MS);
        counting = 1;
        f();
        counting = 0;
        arm_timer(0);
        proto::armed = 0;
        return "";
    }
    counting = 0;
    arm_timer(0);
    proto::armed = 0;
    return rc == 1 ? "UB" : rc == 2 ? "FAULT" : rc == 3 ? "ASSERT" : "TIMEOUT";
}

struct entry
{
    std::function<sbepp::size_bytes_checked_result(char*, std::size_t)> msg;
    std::map<std::string, std::function<sbepp::size_bytes_checked_result(char*, std::size_t)>> groups;
};

C06_NOINSTR inline int main_loop(const std::map<std::string, entry>& table)
{
    proto::install_handlers();
    {
        struct sigaction sa;
        std::memset(&sa, 0, sizeof(sa));
        sa.sa_handler = on_alarm;
        sa.sa_flags = SA_NODEFER;
        sigaction(SIGVTALRM, &sa, nullptr);
    }
    std::string line;
    while(std::getline(std::cin, line))
    {
        std::istringstream is(line);
        std::string cmd, msg, grp, hex;
        unsigned long long n = 0;
        is >> cmd >> msg;
        auto it = table.find(msg);
        const std::function<sbepp::size_bytes_checked_result(char*, std::size_t)>* fn = nullptr;
        if(it != table.end())
        {
            if(cmd == "checked")
            {
                fn = &it->second.msg;
            }
            else if(cmd == "checkedg")
            {
                is >> grp;
                auto g = it->second.groups.find(grp);
                if(g != it->second.groups.end())
                {
                    fn = &g->second;
                }
            }
        }
        if(!fn || !(is >> hex >> n))
        {
            std::cout << "bad-op" << std::endl;
            continue;
        }
        auto img = proto::unhex(hex.empty() ? hex : hex.substr(1));
        img.resize(static_cast<std::size_t>(n), 0);
        gd::guard_buf gb{static_cast<std::size_t>(n)};
        if(n)
        {
            std::memcpy(gb.p, img.data(), static_cast<std::size_t>(n));
        }
        sbepp::size_bytes_checked_result r{};
        const auto st = guarded([&] { r = (*fn)(gb.p, static_cast<std::size_t>(n)); });
        const bool same = n == 0 || std::memcmp(gb.p, img.data(), static_cast<std::size_t>(n)) == 0;
        std::cout << "res=";
        if(st.empty())
        {
            std::cout << (r.valid ? 1 : 0) << "," << r.size;
        }
        else
        {
            std::cout << st;
        }
        std::cout << " steps=" << steps << " unchanged=" << (same ? 1 : 0) << std::endl;
    }
    return 0;
}
} // namespace c06

extern "C"
{
C06_NOINSTR void __cyg_profile_func_enter(void* fn, void*)
{
    c06::on_enter(fn);
}

C06_NOINSTR void __cyg_profile_func_exit(void*, void*)
{
}
}
