// Layer R harness for C12 (and the flat part of C05): drives
// sbepp::detail::flat_group_base / nested_group_base / random_access_iterator /
// forward_iterator directly, over hand-declared dimension composites for all
// 16 (numInGroup type, blockLength type) pairs.
//
// Addresses are computed, never dereferenced: only the group header lives in
// real memory (except for the `nest` and `resize` requests, which use small
// real buffers), so group sizes and indices up to the type maxima need no
// storage.  Every result is an offset relative to the data start (first byte
// after the header), an iterator index, a difference or a boolean.
//
// Build flavours: default = SBEPP_DISABLE_ASSERTS (what a release build runs);
// -DC12_CHECKED = SBEPP_ENABLE_ASSERTS_WITH_HANDLER, assertion -> `ASSERT`.
#ifdef C12_CHECKED
#    define SBEPP_ENABLE_ASSERTS_WITH_HANDLER
#else
#    define SBEPP_DISABLE_ASSERTS
#endif

#include "proto.hpp"

#include <sbepp/sbepp.hpp>

#include <cerrno>
#include <type_traits>

#ifdef C12_CHECKED
namespace sbepp
{
[[noreturn]] void assertion_failed(char const*, char const*, char const*, long)
{
    proto::assertion_jump();
}
} // namespace sbepp
#endif

namespace
{
using byte_t = unsigned char;

// sbepp::size_bytes(dimension): a run-time value so that the header size is a
// request parameter (a dimension composite may have padding / extra members)
std::size_t g_hdr = 0;

template<typename T, int Tag>
class dim_field : public sbepp::detail::required_base<T, dim_field<T, Tag>>
{
public:
    using sbepp::detail::required_base<T, dim_field<T, Tag>>::required_base;

    static constexpr T min_value() noexcept
    {
        return 0;
    }

    static constexpr T max_value() noexcept
    {
        return static_cast<T>(~static_cast<T>(0));
    }
};

// the shape sbeppc generates for a group dimension composite: blockLength at
// offset 0, numInGroup right after it
template<typename Byte, typename NT, typename BT, sbepp::endian E>
class dimension : public sbepp::detail::composite_base<Byte>
{
public:
    using sbepp::detail::composite_base<Byte>::composite_base;
    using sbepp::detail::composite_base<Byte>::operator();

    using block_length_t = dim_field<BT, 0>;
    using num_in_group_t = dim_field<NT, 1>;

    SBEPP_CPP20_CONSTEXPR block_length_t blockLength() const noexcept
    {
        return ::sbepp::detail::get_value<block_length_t, BT, E>(*this, 0);
    }

    SBEPP_CPP20_CONSTEXPR void blockLength(block_length_t v) const noexcept
    {
        ::sbepp::detail::set_value<E>(*this, 0, v.value());
    }

    SBEPP_CPP20_CONSTEXPR num_in_group_t numInGroup() const noexcept
    {
        return ::sbepp::detail::get_value<num_in_group_t, NT, E>(
            *this, sizeof(BT));
    }

    SBEPP_CPP20_CONSTEXPR void numInGroup(num_in_group_t v) const noexcept
    {
        ::sbepp::detail::set_value<E>(*this, sizeof(BT), v.value());
    }

    std::size_t operator()(::sbepp::detail::size_bytes_tag) const noexcept
    {
        return g_hdr;
    }
};

// entry of a flat group, as generated: size_bytes == block length
template<typename Byte, typename BT>
class flat_entry : public sbepp::detail::entry_base<Byte, BT>
{
public:
    using sbepp::detail::entry_base<Byte, BT>::entry_base;
    using sbepp::detail::entry_base<Byte, BT>::operator();

    SBEPP_CPP20_CONSTEXPR std::size_t
        operator()(::sbepp::detail::size_bytes_tag) const noexcept
    {
        return 0 + (*this)(::sbepp::detail::get_block_length_tag{});
    }
};

// entry of a nested group: block followed by one <data> member with a
// one-byte length prefix; its size is read from memory like generated code
// does (block_length + sizeof(length) + length)
template<typename Byte, typename BT>
class nested_entry : public sbepp::detail::entry_base<Byte, BT>
{
public:
    using sbepp::detail::entry_base<Byte, BT>::entry_base;
    using sbepp::detail::entry_base<Byte, BT>::operator();

    std::size_t operator()(::sbepp::detail::size_bytes_tag) const noexcept
    {
        const auto bl = (*this)(::sbepp::detail::get_block_length_tag{});
        const Byte* p = (*this)(::sbepp::detail::addressof_tag{});
        return static_cast<std::size_t>(bl) + 1 + p[bl];
    }
};

template<typename NT, typename BT, sbepp::endian E = sbepp::endian::little>
class flat_group : public sbepp::detail::flat_group_base<
                       byte_t,
                       flat_entry<byte_t, BT>,
                       dimension<byte_t, NT, BT, E>>
{
public:
    using base_t = sbepp::detail::flat_group_base<
        byte_t,
        flat_entry<byte_t, BT>,
        dimension<byte_t, NT, BT, E>>;
    using base_t::base_t;
    using base_t::operator();
};

template<typename NT, typename BT, sbepp::endian E = sbepp::endian::little>
class nested_group : public sbepp::detail::nested_group_base<
                         byte_t,
                         nested_entry<byte_t, BT>,
                         dimension<byte_t, NT, BT, E>>
{
public:
    using base_t = sbepp::detail::nested_group_base<
        byte_t,
        nested_entry<byte_t, BT>,
        dimension<byte_t, NT, BT, E>>;
    using base_t::base_t;
    using base_t::operator();
};

alignas(16) byte_t g_header_buf[64];

// an integer argument together with the C++ type it has at the call site
struct int_arg
{
    enum kind_t
    {
        ll,
        ull,
        size,
        diff
    } kind;
    std::uint64_t bits;
};

template<typename NT, typename BT>
struct evaluator
{
    using group_t = flat_group<NT, BT>;
    using iterator = typename group_t::iterator;
    using size_type = typename group_t::size_type;
    using difference_type = typename group_t::difference_type;
    static_assert(std::is_same<size_type, NT>::value, "");
    static_assert(
        std::is_same<
            difference_type,
            typename std::make_signed<NT>::type>::value,
        "");

    struct val
    {
        enum kind_t
        {
            it,
            integer,
            addr,
            boolean,
            bad
        } kind;
        iterator i;
        int_arg k;
        std::int64_t a;
        bool b;
    };

    group_t g;
    std::uintptr_t data;
    const char* p;

    static difference_type to_diff(const int_arg& k)
    {
        switch(k.kind)
        {
        case int_arg::ll:
            return static_cast<difference_type>(static_cast<long long>(k.bits));
        case int_arg::ull:
            return static_cast<difference_type>(
                static_cast<unsigned long long>(k.bits));
        case int_arg::size:
            return static_cast<difference_type>(static_cast<size_type>(k.bits));
        default:
            return static_cast<difference_type>(
                static_cast<std::int64_t>(k.bits));
        }
    }

    static size_type to_size(const int_arg& k)
    {
        switch(k.kind)
        {
        case int_arg::ll:
            return static_cast<size_type>(static_cast<long long>(k.bits));
        case int_arg::ull:
            return static_cast<size_type>(
                static_cast<unsigned long long>(k.bits));
        case int_arg::size:
            return static_cast<size_type>(k.bits);
        default:
            return static_cast<size_type>(static_cast<difference_type>(
                static_cast<std::int64_t>(k.bits)));
        }
    }

    template<typename Entry>
    std::int64_t off(const Entry& e) const
    {
        return static_cast<std::int64_t>(
            reinterpret_cast<std::uintptr_t>(sbepp::addressof(e)) - data);
    }

    static val bad()
    {
        val v{};
        v.kind = val::bad;
        return v;
    }

    static val mk_it(iterator i)
    {
        val v{};
        v.kind = val::it;
        v.i = i;
        return v;
    }

    static val mk_addr(std::int64_t a)
    {
        val v{};
        v.kind = val::addr;
        v.a = a;
        return v;
    }

    bool eat(char c)
    {
        if(*p == c)
        {
            p++;
            return true;
        }
        return false;
    }

    val parse()
    {
        if(*p == '-' || (*p >= '0' && *p <= '9'))
        {
            char* e = nullptr;
            val v{};
            v.kind = val::integer;
            errno = 0;
            if(*p == '-')
            {
                v.k.kind = int_arg::ll;
                v.k.bits = static_cast<std::uint64_t>(std::strtoll(p, &e, 10));
            }
            else
            {
                const auto u = std::strtoull(p, &e, 10);
                v.k.kind = (u > 0x7fffffffffffffffULL) ? int_arg::ull
                                                       : int_arg::ll;
                v.k.bits = u;
            }
            if(errno == ERANGE)
            {
                return bad();
            }
            p = e;
            return v;
        }
        std::string name;
        while((*p >= 'a' && *p <= 'z') || *p == '_')
        {
            name.push_back(*p++);
        }
        val a = bad(), b = bad();
        int nargs = 0;
        if(eat('('))
        {
            a = parse();
            nargs = 1;
            if(eat(','))
            {
                b = parse();
                nargs = 2;
            }
            if(!eat(')'))
            {
                return bad();
            }
        }
        if((nargs >= 1 && a.kind == val::bad)
           || (nargs == 2 && b.kind == val::bad))
        {
            return bad();
        }
        return apply(name, nargs, a, b);
    }

    val apply(const std::string& n, int nargs, const val& a, const val& b)
    {
        val r{};
        if(nargs == 0)
        {
            if(n == "begin")
            {
                return mk_it(g.begin());
            }
            if(n == "end")
            {
                return mk_it(g.end());
            }
            if(n == "size")
            {
                r.kind = val::integer;
                r.k.kind = int_arg::size;
                r.k.bits = g.size();
                return r;
            }
            if(n == "front")
            {
                return mk_addr(off(g.front()));
            }
            if(n == "back")
            {
                return mk_addr(off(g.back()));
            }
            return bad();
        }
        if(nargs == 1)
        {
            if(n == "inc" && a.kind == val::it)
            {
                auto i = a.i;
                ++i;
                return mk_it(i);
            }
            if(n == "dec" && a.kind == val::it)
            {
                auto i = a.i;
                --i;
                return mk_it(i);
            }
            if(n == "deref" && a.kind == val::it)
            {
                return mk_addr(off(*a.i));
            }
            if(n == "idx" && a.kind == val::integer)
            {
                return mk_addr(off(g[to_size(a.k)]));
            }
            if(n == "iter" && a.kind == val::integer)
            {
                const auto cnt = static_cast<std::int64_t>(a.k.bits);
                if(cnt < 0 || cnt > 200000)
                {
                    return bad();
                }
                auto i = g.begin();
                for(std::int64_t j = 0; j < cnt; j++)
                {
                    ++i;
                }
                return mk_addr(off(*i));
            }
            return bad();
        }
        if(n == "add" && a.kind == val::it && b.kind == val::integer)
        {
            return mk_it(a.i + to_diff(b.k));
        }
        if(n == "radd" && a.kind == val::integer && b.kind == val::it)
        {
            return mk_it(to_diff(a.k) + b.i);
        }
        if(n == "sub" && a.kind == val::it && b.kind == val::integer)
        {
            return mk_it(a.i - to_diff(b.k));
        }
        if(n == "at" && a.kind == val::it && b.kind == val::integer)
        {
            return mk_addr(off(a.i[to_diff(b.k)]));
        }
        if(a.kind == val::it && b.kind == val::it)
        {
            if(n == "diff")
            {
                r.kind = val::integer;
                r.k.kind = int_arg::diff;
                r.k.bits = static_cast<std::uint64_t>(
                    static_cast<std::int64_t>(a.i - b.i));
                return r;
            }
            r.kind = val::boolean;
            if(n == "lt")
            {
                r.b = a.i < b.i;
            }
            else if(n == "le")
            {
                r.b = a.i <= b.i;
            }
            else if(n == "gt")
            {
                r.b = a.i > b.i;
            }
            else if(n == "ge")
            {
                r.b = a.i >= b.i;
            }
            else if(n == "eq")
            {
                r.b = a.i == b.i;
            }
            else if(n == "ne")
            {
                r.b = a.i != b.i;
            }
            else
            {
                return bad();
            }
            return r;
        }
        return bad();
    }

    std::string fmt(const val& v)
    {
        std::ostringstream os;
        switch(v.kind)
        {
        case val::it:
            os << "it:" << off(*v.i) << ":"
               << static_cast<std::uint64_t>(
                      static_cast<size_type>(v.i - g.begin()));
            break;
        case val::integer:
            if(v.k.kind == int_arg::ull)
            {
                os << "d:" << v.k.bits;
            }
            else if(v.k.kind == int_arg::size)
            {
                os << "d:" << v.k.bits;
            }
            else
            {
                os << "d:" << static_cast<std::int64_t>(v.k.bits);
            }
            break;
        case val::addr:
            os << "a:" << v.a;
            break;
        case val::boolean:
            os << (v.b ? "b:1" : "b:0");
            break;
        default:
            os << "BAD";
        }
        return os.str();
    }
};

template<typename NT, typename BT>
void setup_header(const proto::request& r)
{
    std::memset(g_header_buf, 0xEE, sizeof(g_header_buf));
    dimension<byte_t, NT, BT, sbepp::endian::little> d{
        g_header_buf, g_header_buf + sizeof(g_header_buf)};
    d.blockLength(static_cast<BT>(r.u64("bl")));
    d.numInGroup(static_cast<NT>(r.u64("n")));
    g_hdr = r.has("hdr") ? static_cast<std::size_t>(r.u64("hdr"))
                         : sizeof(NT) + sizeof(BT);
}

byte_t* fake_end(byte_t* base, const proto::request& r)
{
#ifdef C12_CHECKED
    // the end pointer of the view: `cap` bytes after the group start (an
    // address only, the storage behind the header is never touched)
    return reinterpret_cast<byte_t*>(
        reinterpret_cast<std::uintptr_t>(base)
        + static_cast<std::uintptr_t>(r.u64("cap")));
#else
    (void)r;
    return base + sizeof(g_header_buf);
#endif
}

template<typename NT, typename BT>
void run_grp(const proto::request& r)
{
    setup_header<NT, BT>(r);
    evaluator<NT, BT> ev{
        flat_group<NT, BT>{g_header_buf, fake_end(g_header_buf, r)},
        reinterpret_cast<std::uintptr_t>(g_header_buf) + g_hdr,
        nullptr};
    std::string out;
    const std::string& all = r.str("expr");
    std::size_t pos = 0;
    bool first = true;
    while(pos <= all.size())
    {
        auto semi = all.find(';', pos);
        if(semi == std::string::npos)
        {
            semi = all.size();
        }
        const std::string e = all.substr(pos, semi - pos);
        pos = semi + 1;
        std::string res;
        auto st = proto::guarded(
            [&]
            {
                ev.p = e.c_str();
                auto v = ev.parse();
                if(*ev.p != '\0')
                {
                    v = evaluator<NT, BT>::bad();
                }
                res = ev.fmt(v);
            });
        if(!first)
        {
            out += ";";
        }
        first = false;
        out += st.empty() ? res : st;
    }
    std::cout << "impl=" << out << "\n";
}

template<typename NT, typename BT>
void run_size(const proto::request& r)
{
    setup_header<NT, BT>(r);
    flat_group<NT, BT> g{g_header_buf, fake_end(g_header_buf, r)};
    std::size_t sz = 0;
    auto st = proto::guarded([&] { sz = sbepp::size_bytes(g); });
    if(st.empty())
    {
        std::cout << "impl=" << sz << "\n";
    }
    else
    {
        std::cout << "impl=" << st << "\n";
    }
}

std::vector<std::uint64_t> parse_list(const std::string& s)
{
    std::vector<std::uint64_t> out;
    std::size_t pos = 0;
    while(pos < s.size())
    {
        auto c = s.find(',', pos);
        if(c == std::string::npos)
        {
            c = s.size();
        }
        out.push_back(std::strtoull(s.substr(pos, c - pos).c_str(), nullptr, 10));
        pos = c + 1;
    }
    return out;
}

template<typename NT, typename BT>
void run_nest(const proto::request& r)
{
    const auto lens = parse_list(r.str("lens"));
    const std::uint64_t n = static_cast<NT>(r.u64("n"));
    const std::uint64_t bl = static_cast<BT>(r.u64("bl"));
    g_hdr = r.has("hdr") ? static_cast<std::size_t>(r.u64("hdr"))
                         : sizeof(NT) + sizeof(BT);
    if(lens.empty() || n > 200000 || bl > 64 || g_hdr > 64
       || g_hdr < sizeof(NT) + sizeof(BT))
    {
        std::cout << "bad-op\n";
        return;
    }
    std::vector<byte_t> buf(g_hdr, 0xEE);
    for(std::uint64_t i = 0; i < n; i++)
    {
        const auto len = lens[i % lens.size()];
        buf.insert(buf.end(), bl, static_cast<byte_t>(0xB0 + (i & 7)));
        buf.push_back(static_cast<byte_t>(len));
        buf.insert(buf.end(), len, static_cast<byte_t>(0xD0 + (i & 7)));
    }
    buf.insert(buf.end(), 16, 0xEE); // slack so that a stray read is harmless
    dimension<byte_t, NT, BT, sbepp::endian::little> d{
        buf.data(), buf.data() + buf.size()};
    d.blockLength(static_cast<BT>(bl));
    d.numInGroup(static_cast<NT>(n));
    nested_group<NT, BT> g{buf.data(), buf.data() + buf.size()};
    const auto data = reinterpret_cast<std::uintptr_t>(buf.data()) + g_hdr;
    std::ostringstream os;
    auto st = proto::guarded(
        [&]
        {
            std::vector<std::int64_t> starts;
            for(const auto e : g)
            {
                starts.push_back(static_cast<std::int64_t>(
                    reinterpret_cast<std::uintptr_t>(sbepp::addressof(e))
                    - data));
                if(starts.size() > 300000)
                {
                    break;
                }
            }
            os << "starts:";
            if(n <= 8)
            {
                for(std::size_t i = 0; i < starts.size(); i++)
                {
                    os << (i ? "," : "") << starts[i];
                }
            }
            else
            {
                std::uint64_t sum = 0;
                for(std::size_t i = 0; i < starts.size(); i++)
                {
                    sum += static_cast<std::uint64_t>(starts[i]) * (i + 1);
                }
                os << sum;
            }
            os << "|count:" << starts.size();
            os << "|size:" << sbepp::size_bytes(g);
            os << "|front:";
            if(n != 0)
            {
                os << static_cast<std::int64_t>(
                    reinterpret_cast<std::uintptr_t>(
                        sbepp::addressof(g.front()))
                    - data);
            }
            else
            {
                // front() on an empty group is outside the contract; begin()
                // is what it would dereference
                os << static_cast<std::int64_t>(
                    reinterpret_cast<std::uintptr_t>(
                        sbepp::addressof(*g.begin()))
                    - data);
            }
        });
    std::cout << "impl=" << (st.empty() ? os.str() : st) << "\n";
}

template<typename G, typename NT>
void do_resize(const proto::request& r, std::vector<byte_t>& buf)
{
    const auto pad = static_cast<std::size_t>(r.u64("pad"));
    G g{buf.data() + pad, buf.data() + buf.size()};
    if(r.str("op") == "clear")
    {
        g.clear();
    }
    else
    {
        g.resize(static_cast<NT>(r.u64("count")));
    }
}

template<typename NT, typename BT>
void run_resize(const proto::request& r)
{
    auto buf = proto::unhex(r.str("buf"));
    const auto pad = static_cast<std::size_t>(r.u64("pad"));
    g_hdr = sizeof(NT) + sizeof(BT);
    if(pad + g_hdr > buf.size())
    {
        std::cout << "bad-op\n";
        return;
    }
    const bool be = r.u64("be") != 0;
    const bool nested = r.str("kind") == "nested";
    auto st = proto::guarded(
        [&]
        {
            if(nested)
            {
                if(be)
                {
                    do_resize<nested_group<NT, BT, sbepp::endian::big>, NT>(
                        r, buf);
                }
                else
                {
                    do_resize<nested_group<NT, BT, sbepp::endian::little>, NT>(
                        r, buf);
                }
            }
            else
            {
                if(be)
                {
                    do_resize<flat_group<NT, BT, sbepp::endian::big>, NT>(
                        r, buf);
                }
                else
                {
                    do_resize<flat_group<NT, BT, sbepp::endian::little>, NT>(
                        r, buf);
                }
            }
        });
    std::cout << "impl="
              << (st.empty() ? proto::hex(buf.data(), buf.size()) : st) << "\n";
}

template<typename NT, typename BT>
void run(const proto::request& r)
{
    if(r.cmd == "grp")
    {
        run_grp<NT, BT>(r);
    }
    else if(r.cmd == "grpsize")
    {
        run_size<NT, BT>(r);
    }
    else if(r.cmd == "nest")
    {
        run_nest<NT, BT>(r);
    }
    else if(r.cmd == "resize")
    {
        run_resize<NT, BT>(r);
    }
    else
    {
        std::cout << "bad-op\n";
    }
}

template<typename NT>
void run_bt(const proto::request& r)
{
    const auto& t = r.str("bt");
    if(t == "u8")
    {
        run<NT, std::uint8_t>(r);
    }
    else if(t == "u16")
    {
        run<NT, std::uint16_t>(r);
    }
    else if(t == "u32")
    {
        run<NT, std::uint32_t>(r);
    }
    else if(t == "u64")
    {
        run<NT, std::uint64_t>(r);
    }
    else
    {
        std::cout << "bad-op\n";
    }
}
} // namespace

int main()
{
    proto::install_handlers();
    // the model places the group at absolute address 2^20; every real address
    // is above that, so an address the model can represent never wraps here
    if(reinterpret_cast<std::uintptr_t>(g_header_buf) < (1u << 20))
    {
        std::cout << "machinery-error: header buffer below 2^20\n";
        return 3;
    }
    std::string line;
    proto::request r;
    while(std::getline(std::cin, line))
    {
        if(!proto::parse(line, r))
        {
            std::cout << "\n";
            continue;
        }
#ifndef C12_CHECKED
        if(r.u64("chk") != 0)
        {
            std::cout << "bad-op\n";
            continue;
        }
#endif
        const auto& t = r.str("nt");
        if(t == "u8")
        {
            run_bt<std::uint8_t>(r);
        }
        else if(t == "u16")
        {
            run_bt<std::uint16_t>(r);
        }
        else if(t == "u32")
        {
            run_bt<std::uint32_t>(r);
        }
        else if(t == "u64")
        {
            run_bt<std::uint64_t>(r);
        }
        else
        {
            std::cout << "bad-op\n";
        }
    }
    return 0;
}
