// constant-evaluation helpers for the generated static_assert translation units (C++20)
#pragma once
#include <sbepp/sbepp.hpp>

#include <array>
#include <bit>
#include <cstdint>
#include <type_traits>

namespace ce
{
template<std::size_t N>
struct uint_of;
template<> struct uint_of<1> { using type = std::uint8_t; };
template<> struct uint_of<2> { using type = std::uint16_t; };
template<> struct uint_of<4> { using type = std::uint32_t; };
template<> struct uint_of<8> { using type = std::uint64_t; };

template<typename V>
constexpr std::uint64_t raw(V v)
{
    return static_cast<std::uint64_t>(std::bit_cast<typename uint_of<sizeof(V)>::type>(v));
}

template<typename T>
constexpr std::uint64_t bits(T v)
{
    if constexpr(std::is_enum_v<T>)
    {
        return raw(static_cast<std::underlying_type_t<T>>(v));
    }
    else if constexpr(sbepp::is_set_v<T>)
    {
        return raw(*v);
    }
    else
    {
        return raw(v.value());
    }
}
} // namespace ce
