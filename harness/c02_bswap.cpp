// Layer R harness for the byte-order kernels of C02.  `builtin` is
// sbepp::detail::byteswap as compiled in this configuration (intrinsics or
// std::byteswap); `portable` and `via32` are the other preprocessor branches of
// sbepp.hpp, copied verbatim by vlib/c02bswap.py into c02_bswap_variants.hpp on
// every run (they are not selected by any compiler present here).
#include "proto.hpp"

#include <sbepp/sbepp.hpp>

#include "c02_bswap_variants.hpp"

template<typename T>
static void emit(const std::string& st, T out)
{
    if(st.empty())
    {
        std::cout << "impl=" << static_cast<std::uint64_t>(out) << "\n";
    }
    else
    {
        std::cout << "impl=" << st << "\n";
    }
}

template<typename T>
static void run(const proto::request& r)
{
    const auto var = r.str("variant");
    const T v = static_cast<T>(r.u64("v"));
    T out{};
    std::string st;
    if(var == "builtin")
    {
        st = proto::guarded([&] { out = sbepp::detail::byteswap(v); });
    }
    else if(var == "portable")
    {
        st = proto::guarded([&] { out = var_portable::byteswap(v); });
    }
    else
    {
        std::cout << "bad-op\n";
        return;
    }
    emit(st, out);
}

int main()
{
    proto::install_handlers();
    std::string line;
    proto::request r;
    while(std::getline(std::cin, line))
    {
        if(!proto::parse(line, r) || r.cmd != "bswap")
        {
            std::cout << "bad-op\n";
            continue;
        }
        const auto w = r.u64("w");
        if(r.str("variant") == "via32" && w == 16)
        {
            std::uint16_t out{};
            const auto v = static_cast<std::uint16_t>(r.u64("v"));
            const auto st = proto::guarded([&] { out = var_via32::byteswap(v); });
            emit(st, out);
        }
        else if(w == 16)
        {
            run<std::uint16_t>(r);
        }
        else if(w == 32)
        {
            run<std::uint32_t>(r);
        }
        else if(w == 64)
        {
            run<std::uint64_t>(r);
        }
        else
        {
            std::cout << "bad-op\n";
        }
    }
    return 0;
}
