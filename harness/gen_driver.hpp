// Generic part of the per-schema generated drivers (Layer R, wire properties).
// C++11-compatible. The generated part calls the *named* accessors of the
// generated views; everything here is schema independent.
#pragma once
#include "proto.hpp"

#include <sbepp/sbepp.hpp>

#include <sys/mman.h>
#include <unistd.h>

#include <functional>
#include <type_traits>

namespace sbepp
{
[[noreturn]] inline void assertion_failed(
    char const* /*expr*/, char const* /*function*/, char const* /*file*/, long /*line*/)
{
    proto::assertion_jump();
}
} // namespace sbepp

namespace gd
{
// set when a header filler returned a view that is not the header it filled
static bool bad_header_view = false;

struct span
{
    char* p;
    std::size_t n;
};

// n usable bytes that end exactly at a PROT_NONE page
struct guard_buf
{
    char* base{};
    std::size_t total{};
    char* p{};
    std::size_t n{};

    explicit guard_buf(std::size_t size) : n{size}
    {
        const std::size_t page = static_cast<std::size_t>(sysconf(_SC_PAGESIZE));
        const std::size_t pages = (size + page - 1) / page + 1;
        total = (pages + 1) * page;
        base = static_cast<char*>(mmap(
            nullptr, total, PROT_READ | PROT_WRITE, MAP_PRIVATE | MAP_ANONYMOUS, -1, 0));
        if(base == MAP_FAILED)
        {
            std::_Exit(72);
        }
        mprotect(base + pages * page, page, PROT_NONE);
        p = base + pages * page - size;
    }

    ~guard_buf()
    {
        munmap(base, total);
    }

    guard_buf(const guard_buf&) = delete;
    guard_buf& operator=(const guard_buf&) = delete;
};

struct tokens
{
    std::vector<std::string> t;
    std::size_t i{};

    const std::string& next()
    {
        static const std::string empty;
        return i < t.size() ? t[i++] : empty;
    }

    std::uint64_t num()
    {
        return std::strtoull(next().c_str(), nullptr, 16);
    }

    std::vector<unsigned char> bytes()
    {
        const auto& s = next();
        return proto::unhex(s.empty() ? s : s.substr(1));
    }
};

template<typename T, typename = void>
struct has_value_fn : std::false_type
{
};

template<typename T>
struct has_value_fn<T, decltype((void)std::declval<T>().value())> : std::true_type
{
};

template<typename V>
std::uint64_t raw_bits(V v)
{
    std::uint64_t out = 0;
    std::memcpy(&out, &v, sizeof(v));
    return out;
}

// enum
template<typename T>
typename std::enable_if<std::is_enum<T>::value, std::uint64_t>::type bits_of(T v)
{
    return raw_bits(static_cast<typename std::underlying_type<T>::type>(v));
}

// required/optional wrapper
template<typename T>
typename std::enable_if<!std::is_enum<T>::value && has_value_fn<T>::value, std::uint64_t>::type
    bits_of(T v)
{
    return raw_bits(v.value());
}

// set
template<typename T>
typename std::enable_if<!std::is_enum<T>::value && !has_value_fn<T>::value, std::uint64_t>::type
    bits_of(T v)
{
    return raw_bits(*v);
}

template<typename V>
V from_bits(std::uint64_t bits)
{
    V v;
    std::memcpy(&v, &bits, sizeof(v));
    return v;
}

template<typename T>
typename std::enable_if<std::is_enum<T>::value, T>::type make(std::uint64_t bits)
{
    return static_cast<T>(from_bits<typename std::underlying_type<T>::type>(bits));
}

template<typename T>
typename std::enable_if<!std::is_enum<T>::value && has_value_fn<T>::value, T>::type
    make(std::uint64_t bits)
{
    return T{from_bits<typename T::value_type>(bits)};
}

template<typename T>
typename std::enable_if<!std::is_enum<T>::value && !has_value_fn<T>::value, T>::type
    make(std::uint64_t bits)
{
    using U = typename std::decay<decltype(*std::declval<T>())>::type;
    return T{from_bits<U>(bits)};
}

inline std::string hexnum(std::uint64_t v)
{
    char buf[32];
    std::snprintf(buf, sizeof(buf), "%llx", static_cast<unsigned long long>(v));
    return buf;
}

inline void obs(std::vector<std::string>& out, const std::string& key, std::uint64_t bits)
{
    out.push_back(key + "=" + hexnum(bits));
}

template<typename A>
void obs_arr(std::vector<std::string>& out, const std::string& key, A a)
{
    std::string s;
    for(std::size_t i = 0; i < a.size(); i++)
    {
        const unsigned char b = static_cast<unsigned char>(a[i]);
        s += proto::hex(&b, 1);
    }
    out.push_back(key + "=[" + s + "]");
}

template<typename D>
void obs_data(std::vector<std::string>& out, const std::string& key, D d, bool with_size)
{
    std::string s;
    const std::size_t n = static_cast<std::size_t>(d.size());
    for(std::size_t i = 0; i < n; i++)
    {
        const unsigned char b = static_cast<unsigned char>(d.data()[i]);
        s += proto::hex(&b, 1);
    }
    out.push_back(
        key + "=<" + s + ">"
        + (with_size ? ",sz=" + std::to_string(sbepp::size_bytes(d)) : std::string{}));
}

template<typename A>
void set_arr(A a, const std::vector<unsigned char>& bytes)
{
    for(std::size_t i = 0; i < a.size() && i < bytes.size(); i++)
    {
        a[i] = static_cast<typename A::value_type>(bytes[i]);
    }
}

template<typename D>
void set_data(D d, const std::vector<unsigned char>& bytes)
{
    std::vector<typename D::value_type> v;
    for(auto b : bytes)
    {
        v.push_back(static_cast<typename D::value_type>(b));
    }
    d.assign_range(v);
}

struct entry
{
    std::function<void(span, std::vector<std::string>&, const std::vector<std::uint64_t>&)> dec_ra;
    std::function<void(span, std::vector<std::string>&)> dec_cur;
    std::function<std::size_t(span, tokens&)> enc_ra;
    std::function<std::size_t(span, tokens&)> enc_cur;
    // visit with a recording visitor that stops at the k-th callback (0: never)
    std::function<void(span, long, std::vector<std::string>&, bool&, long&)> visit;
    // encode through set_by_tag / get_by_tag
    std::function<std::size_t(span, tokens&)> enc_tag;
};

inline std::string join(const std::vector<std::string>& v)
{
    std::string s;
    for(std::size_t i = 0; i < v.size(); i++)
    {
        if(i)
        {
            s += ";";
        }
        s += v[i];
    }
    return s;
}

inline int main_loop(const std::map<std::string, entry>& table)
{
    proto::install_handlers();
    std::string line;
    while(std::getline(std::cin, line))
    {
        std::istringstream is(line);
        std::string cmd, msg;
        is >> cmd >> msg;
        auto it = table.find(msg);
        if(it == table.end())
        {
            std::cout << "bad-op\n";
            continue;
        }
        if(cmd == "decode")
        {
            std::string hex;
            is >> hex;
            std::vector<std::uint64_t> args;
            std::uint64_t a;
            while(is >> a)
            {
                args.push_back(a);
            }
            const auto img = proto::unhex(hex);
            guard_buf gb{img.size()};
            std::memcpy(gb.p, img.data(), img.size());
            std::vector<std::string> ra, cur;
            const auto s1 = proto::guarded([&] { it->second.dec_ra(span{gb.p, gb.n}, ra, args); });
            const auto s2 = proto::guarded([&] { it->second.dec_cur(span{gb.p, gb.n}, cur); });
            const bool same = std::memcmp(gb.p, img.data(), img.size()) == 0;
            std::cout << "ra=" << join(ra) << " rast=" << (s1.empty() ? "ok" : s1) << " cur=" << join(cur)
                      << " curst=" << (s2.empty() ? "ok" : s2) << " unchanged=" << (same ? 1 : 0) << "\n";
        }
        else if(cmd == "visit")
        {
            std::string hex;
            long stop_at = 0;
            is >> hex >> stop_at;
            const auto img = proto::unhex(hex);
            guard_buf gb{img.size()};
            std::memcpy(gb.p, img.data(), img.size());
            std::vector<std::string> recs;
            bool stopped = false;
            long cursor = -1;
            std::string st = "no-visit-entry";
            if(it->second.visit)
            {
                st = proto::guarded([&] { it->second.visit(span{gb.p, gb.n}, stop_at, recs, stopped, cursor); });
            }
            const bool same = std::memcmp(gb.p, img.data(), img.size()) == 0;
            std::cout << "recs=" << join(recs) << " stopped=" << (stopped ? 1 : 0) << " cursor=" << cursor
                      << " st=" << (st.empty() ? "ok" : st) << " unchanged=" << (same ? 1 : 0) << "\n";
        }
        else if(cmd == "encode")
        {
            std::string mode, hex;
            is >> mode >> hex;
            tokens tq;
            std::string tok;
            while(is >> tok)
            {
                tq.t.push_back(tok);
            }
            const auto pre = proto::unhex(hex);
            guard_buf gb{pre.size()};
            std::memcpy(gb.p, pre.data(), pre.size());
            std::size_t ret = 0;
            bad_header_view = false;
            const auto st = proto::guarded(
                [&]
                {
                    ret = (mode == "cur")   ? it->second.enc_cur(span{gb.p, gb.n}, tq)
                          : (mode == "tag") ? it->second.enc_tag(span{gb.p, gb.n}, tq)
                                            : it->second.enc_ra(span{gb.p, gb.n}, tq);
                });
            std::cout << "buf=" << proto::hex(reinterpret_cast<unsigned char*>(gb.p), gb.n) << " ret=" << ret
                      << " st=" << (st.empty() ? (bad_header_view ? "BADHDRVIEW" : "ok") : st) << "\n";
        }
        else
        {
            std::cout << "bad-op\n";
        }
    }
    return 0;
}
} // namespace gd
