// Generic part of the per-schema generated trait dumpers (C18, Layer R).
// C++11-compatible.  The generated translation unit (vlib/c18gen.py) registers a
// printable identity for every tag type (`c18::tag_id<Tag>`) and calls one
// `dump_<kind><Tag>(out, path)` per schema entity; everything here is schema
// independent and reads the traits only through `sbepp::*_traits<Tag>`.
//
// One output line per entity:
//   <tag path> kind=<k> predicates=<11 bits> <trait>=<value> ...
// numbers decimal, text `x<hex>`, presence / byte order / primitive types by
// their SBE names, tags and tag lists through `tag_id` (lists comma separated in
// `sbepp::type_list` order), min/max/null as object representations.
#pragma once

#include <sbepp/sbepp.hpp>

#include <cstdint>
#include <cstring>
#include <iostream>
#include <string>
#include <type_traits>

namespace c18
{
template<typename... Ts>
struct make_void
{
    typedef void type;
};
template<typename... Ts>
using void_t = typename make_void<Ts...>::type;

// ------------------------------------------------------------ tag identities
template<typename Tag>
struct tag_id
{
    static const char* get()
    {
        return "?";
    }
};

#define C18_BUILTIN(N)                   \
    template<>                           \
    struct tag_id<::sbepp::N##_t>        \
    {                                    \
        static const char* get()         \
        {                                \
            return "builtin." #N;        \
        }                                \
    };                                   \
    template<>                           \
    struct tag_id<::sbepp::N##_opt_t>    \
    {                                    \
        static const char* get()         \
        {                                \
            return "builtin." #N "_opt"; \
        }                                \
    }
C18_BUILTIN(char);
C18_BUILTIN(int8);
C18_BUILTIN(uint8);
C18_BUILTIN(int16);
C18_BUILTIN(uint16);
C18_BUILTIN(int32);
C18_BUILTIN(uint32);
C18_BUILTIN(int64);
C18_BUILTIN(uint64);
C18_BUILTIN(float);
C18_BUILTIN(double);
#undef C18_BUILTIN

template<typename List>
struct list_ids;
template<typename... Ts>
struct list_ids<::sbepp::type_list<Ts...>>
{
    static std::string get()
    {
        std::string r;
        const char* ids[] = {"", tag_id<Ts>::get()...};
        for(std::size_t i = 1; i < sizeof(ids) / sizeof(ids[0]); i++)
        {
            if(i > 1)
            {
                r += ",";
            }
            r += ids[i];
        }
        return r;
    }
};

// ------------------------------------------------------------ value rendering
inline std::string hex(const char* s)
{
    static const char* digits = "0123456789abcdef";
    std::string r = "x";
    for(; *s; ++s)
    {
        const unsigned char c = static_cast<unsigned char>(*s);
        r += digits[c >> 4];
        r += digits[c & 15];
    }
    return r;
}

template<typename T>
std::string num(T v)
{
    return std::to_string(static_cast<unsigned long long>(v));
}

template<typename T>
std::string prim_name()
{
    return std::is_same<T, char>::value            ? "char"
        : std::is_same<T, std::int8_t>::value      ? "int8"
        : std::is_same<T, std::uint8_t>::value     ? "uint8"
        : std::is_same<T, std::int16_t>::value     ? "int16"
        : std::is_same<T, std::uint16_t>::value    ? "uint16"
        : std::is_same<T, std::int32_t>::value     ? "int32"
        : std::is_same<T, std::uint32_t>::value    ? "uint32"
        : std::is_same<T, std::int64_t>::value     ? "int64"
        : std::is_same<T, std::uint64_t>::value    ? "uint64"
        : std::is_same<T, float>::value            ? "float"
        : std::is_same<T, double>::value           ? "double"
                                                   : "?";
}

// object representation, zero extended (the host is little endian)
template<typename T>
std::string bits_of(T v)
{
    static_assert(sizeof(T) <= 8, "primitive");
    std::uint64_t b = 0;
    std::memcpy(&b, &v, sizeof(T));
    return std::to_string(static_cast<unsigned long long>(b));
}

inline const char* presence_name(::sbepp::field_presence p)
{
    return p == ::sbepp::field_presence::required ? "required"
        : p == ::sbepp::field_presence::optional  ? "optional"
        : p == ::sbepp::field_presence::constant  ? "constant"
                                                  : "?";
}

// numeric value of an enumerator as the mathematical integer
template<typename U>
std::string int_text(U v, std::true_type /*signed*/)
{
    return std::to_string(static_cast<long long>(v));
}
template<typename U>
std::string int_text(U v, std::false_type)
{
    return std::to_string(static_cast<unsigned long long>(v));
}
template<typename E>
std::string enum_text(E e)
{
    using U = typename std::underlying_type<E>::type;
    const U u = static_cast<U>(e);
    if(std::is_same<U, char>::value)
    {
        return std::to_string(static_cast<unsigned>(static_cast<unsigned char>(u)));
    }
    return int_text(u, std::integral_constant<bool, std::is_signed<U>::value>{});
}

// value of a constant field as returned by the generated (static constexpr) accessor
template<typename V>
typename std::enable_if<std::is_enum<V>::value, std::string>::type const_text(V v)
{
    return enum_text(v);
}
template<typename V>
typename std::enable_if<std::is_integral<V>::value, std::string>::type const_text(V v)
{
    if(std::is_same<V, char>::value)
    {
        return std::to_string(static_cast<unsigned>(static_cast<unsigned char>(v)));
    }
    return int_text(v, std::integral_constant<bool, std::is_signed<V>::value>{});
}
template<typename V>
void put_const(std::ostream& o, const char* path, V v)
{
    o << "#const " << path << " " << const_text(v) << "\n";
}

// ------------------------------------------------------------ optional members
#define C18_OPTIONAL_FN(NAME, EXPR)                                              \
    template<typename T, typename = void>                                        \
    struct has_##NAME : std::false_type                                          \
    {                                                                            \
    };                                                                           \
    template<typename T>                                                         \
    struct has_##NAME<T, void_t<decltype(T::NAME())>> : std::true_type           \
    {                                                                            \
    };                                                                           \
    template<typename T>                                                         \
    void put_##NAME##_impl(std::ostream& o, std::true_type)                      \
    {                                                                            \
        o << " " #NAME "=" << EXPR;                                              \
    }                                                                            \
    template<typename T>                                                         \
    void put_##NAME##_impl(std::ostream&, std::false_type)                       \
    {                                                                            \
    }                                                                            \
    template<typename T>                                                         \
    void put_##NAME(std::ostream& o)                                             \
    {                                                                            \
        put_##NAME##_impl<T>(o, std::integral_constant<bool, has_##NAME<T>::value>{}); \
    }

C18_OPTIONAL_FN(offset, num(T::offset()))
C18_OPTIONAL_FN(deprecated, num(T::deprecated()))
C18_OPTIONAL_FN(min_value, bits_of(T::min_value()))
C18_OPTIONAL_FN(max_value, bits_of(T::max_value()))
C18_OPTIONAL_FN(null_value, bits_of(T::null_value()))
#undef C18_OPTIONAL_FN

// ------------------------------------------------------------ value_type / traits_tag
struct none_t
{
};

template<typename Tr, typename = void>
struct vt_plain
{
    using type = none_t;
};
template<typename Tr>
struct vt_plain<Tr, void_t<typename Tr::value_type>>
{
    using type = typename Tr::value_type;
};
template<typename Tr, typename = void>
struct vt_tmpl
{
    using type = typename vt_plain<Tr>::type;
};
template<typename Tr>
struct vt_tmpl<Tr, void_t<typename Tr::template value_type<char>>>
{
    using type = typename Tr::template value_type<char>;
};
// `value_type` (plain alias) or `value_type<char>` (alias template), `none_t` if neither
template<typename Tr>
using value_type_of = typename vt_tmpl<Tr>::type;

template<typename VT, typename = void>
struct traits_tag_of
{
    static void put(std::ostream&, const char*)
    {
    }
};
template<typename VT>
struct traits_tag_of<VT, void_t<typename ::sbepp::traits_tag<VT>::type>>
{
    static void put(std::ostream& o, const char* key)
    {
        o << " " << key << "=" << tag_id<typename ::sbepp::traits_tag<VT>::type>::get();
    }
};

template<typename Tr>
void put_traits_tag(std::ostream& o)
{
    traits_tag_of<value_type_of<Tr>>::put(o, "traits_tag");
}

// `value_type_tag` exists only for non-constant fields
template<typename Tr, typename = void>
struct value_type_tag_of
{
    static void put(std::ostream&)
    {
    }
};
template<typename Tr>
struct value_type_tag_of<Tr, void_t<typename Tr::value_type_tag>>
{
    static void put(std::ostream& o)
    {
        o << " value_type_tag=" << tag_id<typename Tr::value_type_tag>::get();
    }
};

// ------------------------------------------------------------ tag-kind predicates
template<typename Tag>
std::string predicates()
{
    std::string r;
    r += ::sbepp::is_type_tag<Tag>::value ? '1' : '0';
    r += ::sbepp::is_enum_tag<Tag>::value ? '1' : '0';
    r += ::sbepp::is_enum_value_tag<Tag>::value ? '1' : '0';
    r += ::sbepp::is_set_tag<Tag>::value ? '1' : '0';
    r += ::sbepp::is_set_choice_tag<Tag>::value ? '1' : '0';
    r += ::sbepp::is_composite_tag<Tag>::value ? '1' : '0';
    r += ::sbepp::is_field_tag<Tag>::value ? '1' : '0';
    r += ::sbepp::is_group_tag<Tag>::value ? '1' : '0';
    r += ::sbepp::is_data_tag<Tag>::value ? '1' : '0';
    r += ::sbepp::is_message_tag<Tag>::value ? '1' : '0';
    r += ::sbepp::is_schema_tag<Tag>::value ? '1' : '0';
    return r;
}

template<typename Tag>
void head(std::ostream& o, const char* path, const char* kind)
{
    o << path << " kind=" << kind << " predicates=" << predicates<Tag>();
}

// ------------------------------------------------------------ one dumper per trait class
template<typename Tag>
void dump_schema(std::ostream& o, const char* path)
{
    using T = ::sbepp::schema_traits<Tag>;
    head<Tag>(o, path, "schema");
    o << " package=" << hex(T::package()) << " id=" << num(T::id()) << " version=" << num(T::version())
      << " semantic_version=" << hex(T::semantic_version()) << " byte_order="
      << (T::byte_order() == ::sbepp::endian::big
              ? "big"
              : (T::byte_order() == ::sbepp::endian::little ? "little" : "?"))
      << " description=" << hex(T::description())
      << " header_type_tag=" << tag_id<typename T::header_type_tag>::get()
      << " type_tags=" << list_ids<typename T::type_tags>::get()
      << " message_tags=" << list_ids<typename T::message_tags>::get() << " header_type_ok="
      << (std::is_same<
              typename T::template header_type<char>,
              typename ::sbepp::composite_traits<typename T::header_type_tag>::template value_type<char>>::value
              ? 1
              : 0)
      << " id_type_ok=" << (std::is_same<decltype(T::id()), ::sbepp::schema_id_t>::value ? 1 : 0)
      << " version_type_ok=" << (std::is_same<decltype(T::version()), ::sbepp::version_t>::value ? 1 : 0) << "\n";
}

template<typename Tag>
void dump_type(std::ostream& o, const char* path)
{
    using T = ::sbepp::type_traits<Tag>;
    head<Tag>(o, path, "type");
    o << " name=" << hex(T::name()) << " description=" << hex(T::description())
      << " presence=" << presence_name(T::presence())
      << " primitive_type=" << prim_name<typename T::primitive_type>();
    put_min_value<T>(o);
    put_max_value<T>(o);
    put_null_value<T>(o);
    o << " length=" << num(T::length());
    put_offset<T>(o);
    o << " semantic_type=" << hex(T::semantic_type()) << " since_version=" << num(T::since_version())
      << " character_encoding=" << hex(T::character_encoding());
    put_deprecated<T>(o);
    put_traits_tag<T>(o);
    o << "\n";
}

template<typename Tag>
void dump_enum(std::ostream& o, const char* path)
{
    using T = ::sbepp::enum_traits<Tag>;
    head<Tag>(o, path, "enum");
    o << " name=" << hex(T::name()) << " description=" << hex(T::description())
      << " encoding_type=" << prim_name<typename T::encoding_type>();
    put_offset<T>(o);
    o << " since_version=" << num(T::since_version());
    put_deprecated<T>(o);
    o << " value_tags=" << list_ids<typename T::value_tags>::get();
    put_traits_tag<T>(o);
    o << " underlying_ok="
      << (std::is_same<typename std::underlying_type<typename T::value_type>::type, typename T::encoding_type>::value
              ? 1
              : 0)
      << "\n";
}

template<typename Tag>
void dump_enum_value(std::ostream& o, const char* path)
{
    using T = ::sbepp::enum_value_traits<Tag>;
    head<Tag>(o, path, "enum_value");
    o << " name=" << hex(T::name()) << " description=" << hex(T::description())
      << " since_version=" << num(T::since_version());
    put_deprecated<T>(o);
    o << " value=" << enum_text(T::value()) << "\n";
}

template<typename Tag>
void dump_set(std::ostream& o, const char* path)
{
    using T = ::sbepp::set_traits<Tag>;
    head<Tag>(o, path, "set");
    o << " name=" << hex(T::name()) << " description=" << hex(T::description())
      << " encoding_type=" << prim_name<typename T::encoding_type>();
    put_offset<T>(o);
    o << " since_version=" << num(T::since_version());
    put_deprecated<T>(o);
    o << " choice_tags=" << list_ids<typename T::choice_tags>::get();
    put_traits_tag<T>(o);
    o << "\n";
}

template<typename Tag>
void dump_set_choice(std::ostream& o, const char* path)
{
    using T = ::sbepp::set_choice_traits<Tag>;
    head<Tag>(o, path, "set_choice");
    o << " name=" << hex(T::name()) << " description=" << hex(T::description())
      << " since_version=" << num(T::since_version());
    put_deprecated<T>(o);
    o << " index=" << num(T::index())
      << " index_type_ok=" << (std::is_same<decltype(T::index()), ::sbepp::choice_index_t>::value ? 1 : 0) << "\n";
}

template<typename Tag>
void dump_composite(std::ostream& o, const char* path)
{
    using T = ::sbepp::composite_traits<Tag>;
    head<Tag>(o, path, "composite");
    o << " name=" << hex(T::name()) << " description=" << hex(T::description());
    put_offset<T>(o);
    o << " semantic_type=" << hex(T::semantic_type()) << " since_version=" << num(T::since_version());
    put_deprecated<T>(o);
    o << " size_bytes=" << num(T::size_bytes()) << " element_tags=" << list_ids<typename T::element_tags>::get();
    put_traits_tag<T>(o);
    o << "\n";
}

template<typename Tag>
void dump_message(std::ostream& o, const char* path)
{
    using T = ::sbepp::message_traits<Tag>;
    head<Tag>(o, path, "message");
    o << " name=" << hex(T::name()) << " description=" << hex(T::description()) << " id=" << num(T::id())
      << " block_length=" << num(T::block_length()) << " semantic_type=" << hex(T::semantic_type())
      << " since_version=" << num(T::since_version());
    put_deprecated<T>(o);
    o << " schema_tag=" << tag_id<typename T::schema_tag>::get()
      << " field_tags=" << list_ids<typename T::field_tags>::get()
      << " group_tags=" << list_ids<typename T::group_tags>::get()
      << " data_tags=" << list_ids<typename T::data_tags>::get();
    put_traits_tag<T>(o);
    o << " id_type_ok=" << (std::is_same<decltype(T::id()), ::sbepp::message_id_t>::value ? 1 : 0) << "\n";
}

template<typename Tag>
void dump_field(std::ostream& o, const char* path)
{
    using T = ::sbepp::field_traits<Tag>;
    head<Tag>(o, path, "field");
    o << " name=" << hex(T::name()) << " id=" << num(T::id()) << " description=" << hex(T::description())
      << " presence=" << presence_name(T::presence());
    put_offset<T>(o);
    o << " since_version=" << num(T::since_version());
    put_deprecated<T>(o);
    value_type_tag_of<T>::put(o);
    put_traits_tag<T>(o);
    o << " id_type_ok=" << (std::is_same<decltype(T::id()), ::sbepp::member_id_t>::value ? 1 : 0) << "\n";
}

template<typename Tag>
void dump_group(std::ostream& o, const char* path)
{
    using T = ::sbepp::group_traits<Tag>;
    head<Tag>(o, path, "group");
    o << " name=" << hex(T::name()) << " description=" << hex(T::description()) << " id=" << num(T::id())
      << " block_length=" << num(T::block_length()) << " semantic_type=" << hex(T::semantic_type())
      << " since_version=" << num(T::since_version());
    put_deprecated<T>(o);
    o << " dimension_type_tag=" << tag_id<typename T::dimension_type_tag>::get()
      << " field_tags=" << list_ids<typename T::field_tags>::get()
      << " group_tags=" << list_ids<typename T::group_tags>::get()
      << " data_tags=" << list_ids<typename T::data_tags>::get();
    put_traits_tag<T>(o);
    traits_tag_of<typename T::template entry_type<char>>::put(o, "entry_traits_tag");
    o << " dimension_type_ok="
      << (std::is_same<
              typename T::template dimension_type<char>,
              typename ::sbepp::composite_traits<typename T::dimension_type_tag>::template value_type<char>>::value
              ? 1
              : 0)
      << " id_type_ok=" << (std::is_same<decltype(T::id()), ::sbepp::member_id_t>::value ? 1 : 0) << "\n";
}

template<typename Tag>
void dump_data(std::ostream& o, const char* path)
{
    using T = ::sbepp::data_traits<Tag>;
    head<Tag>(o, path, "data");
    o << " name=" << hex(T::name()) << " id=" << num(T::id()) << " description=" << hex(T::description())
      << " since_version=" << num(T::since_version());
    put_deprecated<T>(o);
    o << " length_type_tag=" << tag_id<typename T::length_type_tag>::get()
      << " length_type=" << prim_name<typename T::length_type::value_type>()
      << " size_bytes_0=" << num(T::size_bytes(0)) << " size_bytes_5=" << num(T::size_bytes(5))
      << " length_type_ok="
      << (std::is_same<
              typename T::length_type,
              typename ::sbepp::type_traits<typename T::length_type_tag>::value_type>::value
              ? 1
              : 0)
      << " id_type_ok=" << (std::is_same<decltype(T::id()), ::sbepp::member_id_t>::value ? 1 : 0) << "\n";
}

// ------------------------------------------------------------ generic walk over the tag lists
// Starting from the schema tag only: every tag reachable through `type_tags`,
// `message_tags`, `element_tags`, `value_tags`, `choice_tags`, `field_tags`,
// `group_tags`, `data_tags`, classified by the tag-kind predicates, in list order
// (pre-order).  Output: `walk_types=<subtree>|<subtree>…` (one subtree per public
// type, `type_tags` order) and `walk_messages=<subtree>|…`; a subtree is a comma
// separated list of `<tag id>:<kind>`.
enum kind_t
{
    k_type,
    k_enum,
    k_enum_value,
    k_set,
    k_set_choice,
    k_composite,
    k_field,
    k_group,
    k_data,
    k_message,
    k_schema,
    k_none
};

template<typename Tag>
struct kind_of
{
    static constexpr int value = ::sbepp::is_type_tag<Tag>::value ? k_type
        : ::sbepp::is_enum_tag<Tag>::value                         ? k_enum
        : ::sbepp::is_enum_value_tag<Tag>::value                   ? k_enum_value
        : ::sbepp::is_set_tag<Tag>::value                          ? k_set
        : ::sbepp::is_set_choice_tag<Tag>::value                   ? k_set_choice
        : ::sbepp::is_composite_tag<Tag>::value                    ? k_composite
        : ::sbepp::is_field_tag<Tag>::value                        ? k_field
        : ::sbepp::is_group_tag<Tag>::value                        ? k_group
        : ::sbepp::is_data_tag<Tag>::value                         ? k_data
        : ::sbepp::is_message_tag<Tag>::value                      ? k_message
        : ::sbepp::is_schema_tag<Tag>::value                       ? k_schema
                                                                   : k_none;
};

template<typename Tag, int Kind = kind_of<Tag>::value>
struct walker;

template<typename List>
struct walk_list;
template<>
struct walk_list<::sbepp::type_list<>>
{
    static void run(std::string&, const char*)
    {
    }
};
template<typename T, typename... Ts>
struct walk_list<::sbepp::type_list<T, Ts...>>
{
    // `sep`: "," inside a subtree, "|" between top-level subtrees
    static void run(std::string& r, const char* sep)
    {
        if(!r.empty() && r.back() != '=')
        {
            r += sep;
        }
        walker<T>::run(r);
        walk_list<::sbepp::type_list<Ts...>>::run(r, sep);
    }
};

inline void walk_item(std::string& r, const char* id, const char* kind)
{
    r += id;
    r += ":";
    r += kind;
}

template<typename Tag, int Kind>
struct walker
{
    static void run(std::string& r)
    {
        static const char* names[] = {"type", "enum", "enum_value", "set", "set_choice", "composite",
                                      "field", "group", "data", "message", "schema", "none"};
        walk_item(r, tag_id<Tag>::get(), names[Kind]);
    }
};
template<typename Tag>
struct walker<Tag, k_enum>
{
    static void run(std::string& r)
    {
        walk_item(r, tag_id<Tag>::get(), "enum");
        walk_list<typename ::sbepp::enum_traits<Tag>::value_tags>::run(r, ",");
    }
};
template<typename Tag>
struct walker<Tag, k_set>
{
    static void run(std::string& r)
    {
        walk_item(r, tag_id<Tag>::get(), "set");
        walk_list<typename ::sbepp::set_traits<Tag>::choice_tags>::run(r, ",");
    }
};
template<typename Tag>
struct walker<Tag, k_composite>
{
    static void run(std::string& r)
    {
        walk_item(r, tag_id<Tag>::get(), "composite");
        walk_list<typename ::sbepp::composite_traits<Tag>::element_tags>::run(r, ",");
    }
};
template<typename Tag>
struct walker<Tag, k_group>
{
    static void run(std::string& r)
    {
        walk_item(r, tag_id<Tag>::get(), "group");
        walk_list<typename ::sbepp::group_traits<Tag>::field_tags>::run(r, ",");
        walk_list<typename ::sbepp::group_traits<Tag>::group_tags>::run(r, ",");
        walk_list<typename ::sbepp::group_traits<Tag>::data_tags>::run(r, ",");
    }
};
template<typename Tag>
struct walker<Tag, k_message>
{
    static void run(std::string& r)
    {
        walk_item(r, tag_id<Tag>::get(), "message");
        walk_list<typename ::sbepp::message_traits<Tag>::field_tags>::run(r, ",");
        walk_list<typename ::sbepp::message_traits<Tag>::group_tags>::run(r, ",");
        walk_list<typename ::sbepp::message_traits<Tag>::data_tags>::run(r, ",");
    }
};

template<typename SchemaTag>
void dump_walk(std::ostream& o)
{
    using T = ::sbepp::schema_traits<SchemaTag>;
    std::string types = "walk_types=";
    walk_list<typename T::type_tags>::run(types, "|");
    std::string msgs = "walk_messages=";
    walk_list<typename T::message_tags>::run(msgs, "|");
    o << "#walk " << types << " " << msgs << "\n";
}
} // namespace c18
