// Generic part of the per-schema generated C04 drivers (Layer R, cursor
// protocol).  The generated part (vlib/c04gen.py) contains, per level of every
// message, a dispatcher over (member index, cursor wrapper) that calls the REAL
// generated cursor accessors; everything here is schema independent.
// C++11-compatible.
//
// Request line:
//   cursor <msg> <image-hex> <start: init|null|offset> <view-size|-> <n-items> <item tokens...>
// item tokens (numbers in hex):
//   c <member> <wrapper>                      getter
//   s <member> <wrapper> <bits>               setter (scalar field)
//   r <member> <wrapper> <n-ranges> { <kind 0=all 1=sub(pos) 2=sub(pos,count)> <pos> <count> <n-bodies>
//                                      { <n-items> <items...> } }
// wrapper: 0 plain, 1 init, 2 dont_move, 3 init_dont_move, 4 skip
//
// Answer: ev=<event;event;...> st=<ok|ASSERT|UB|FAULT|BAD> buf=<hex>
// event: <path>=<v<hex>|a<addr>|e<addr>|n<range size>|x<0|1 iterator at end()>|->@<cursor offset|null>; the list ends
// with end@<cursor> on normal completion.
#pragma once
#include "gen_driver.hpp"

namespace c4
{
struct bad_call
{
};

struct ctx
{
    sbepp::cursor<char> c;
    char* base{};
    gd::tokens tq;
    std::vector<std::string> out;

    std::string cur() const
    {
        return c.pointer() ? std::to_string(c.pointer() - base) : std::string{"null"};
    }

    void ev(const std::string& path, const std::string& res)
    {
        out.push_back(path + "=" + res + "@" + cur());
    }

    [[noreturn]] void bad()
    {
        throw bad_call{};
    }
};

template<typename T>
std::string val(T v)
{
    return "v" + gd::hexnum(gd::bits_of(v));
}

template<typename View>
std::string addr(const ctx& x, View v)
{
    return "a" + std::to_string(sbepp::addressof(v) - x.base);
}

// consume the tokens of `n` items without executing them
inline void skip_items(gd::tokens& tq, std::size_t n)
{
    for(std::size_t i = 0; i < n; i++)
    {
        const std::string op = tq.next();
        tq.num();
        tq.num();
        if(op == "s")
        {
            tq.num();
        }
        else if(op == "r")
        {
            const std::size_t nr = tq.num();
            for(std::size_t r = 0; r < nr; r++)
            {
                tq.num();
                tq.num();
                tq.num();
                const std::size_t nb = tq.num();
                for(std::size_t b = 0; b < nb; b++)
                {
                    skip_items(tq, tq.num());
                }
            }
        }
    }
}

// for(it = r.begin(), i = 0; it != r.end() && i < #bodies; ++it, ++i) { auto e = *it; body_i(e); }
template<typename GV, typename Body>
void run_ranges(GV gv, ctx& x, const std::string& gpath, std::size_t nranges, Body body)
{
    using size_type = typename GV::size_type;
    for(std::size_t ri = 0; ri < nranges; ri++)
    {
        const std::uint64_t kind = x.tq.num();
        const std::uint64_t pos = x.tq.num();
        const std::uint64_t cnt = x.tq.num();
        const std::size_t nbodies = x.tq.num();
        auto rg = kind == 0   ? gv.cursor_range(x.c)
                  : kind == 1 ? gv.cursor_subrange(x.c, static_cast<size_type>(pos))
                              : gv.cursor_subrange(
                                    x.c, static_cast<size_type>(pos), static_cast<size_type>(cnt));
        // the range object: its size()
        x.ev(gpath + "#" + std::to_string(ri), "n" + std::to_string(static_cast<unsigned long long>(rg.size())));
        auto it = rg.begin();
        const auto en = rg.end();
        const std::size_t start = kind == 0 ? 0 : static_cast<std::size_t>(pos);
        for(std::size_t j = 0; j < nbodies; j++)
        {
            const std::size_t nitems = x.tq.num();
            if(it != en)
            {
                auto e = *it;
                const std::string path = gpath + "[" + std::to_string(start + j) + "]";
                x.ev(path, "e" + std::to_string(sbepp::addressof(e) - x.base));
                body(e, x, path + ".", nitems);
                ++it;
            }
            else
            {
                skip_items(x.tq, nitems);
            }
        }
        // after the loop: has the iterator reached end()?
        x.ev(gpath + "#" + std::to_string(ri) + "end", it == en ? "x1" : "x0");
    }
}

using entry_fn = std::function<void(gd::span, ctx&, const std::string&, std::size_t)>;

inline int main_loop(const std::map<std::string, entry_fn>& table)
{
    proto::install_handlers();
    std::string line;
    while(std::getline(std::cin, line))
    {
        std::istringstream is(line);
        std::string cmd, msg, hex, start, vsize;
        is >> cmd >> msg >> hex >> start >> vsize;
        auto it = table.find(msg);
        if(cmd != "cursor" || it == table.end())
        {
            std::cout << "bad-op\n";
            continue;
        }
        ctx x;
        std::string tok;
        while(is >> tok)
        {
            x.tq.t.push_back(tok);
        }
        const auto img = proto::unhex(hex);
        gd::guard_buf gb{img.size()};
        std::memcpy(gb.p, img.data(), img.size());
        x.base = gb.p;
        const std::size_t n = vsize == "-" ? gb.n : static_cast<std::size_t>(std::strtoull(vsize.c_str(), nullptr, 10));
        bool bad = false;
        const auto st = proto::guarded(
            [&]
            {
                try
                {
                    it->second(gd::span{gb.p, gb.n}, x, start, n);
                    x.out.push_back("end@" + x.cur());
                }
                catch(const bad_call&)
                {
                    bad = true;
                }
            });
        if(!st.empty())
        {
            x.out.push_back(st);
        }
        else if(bad)
        {
            x.out.push_back("BAD");
        }
        std::cout << "ev=" << gd::join(x.out) << " st=" << (st.empty() ? (bad ? "BAD" : "ok") : st)
                  << " buf=" << proto::hex(reinterpret_cast<unsigned char*>(gb.p), gb.n) << "\n";
    }
    return 0;
}
} // namespace c4
