// Layer R harness for C16: drives sbepp::detail::optional_base / required_base
// over all 11 primitive types with run-time supplied min/max/null, and the real
// built-in types (sbepp::int16_opt_t, ...) for the default tables.
//
// Requests (see lean/Sbepp/Drive/C16.lean for the answer format):
//   opt kind=opt|req|optbi|reqbi p=<prim> impl=.. min=<hex> max=<hex> null=<hex> a=<hex> b=<hex>
//       (optbi/reqbi: the built-in type of <prim>; min/max/null are ignored here)
//   opttab p=<prim> k=min|max|null
//   optcfg
// Values are object representations in hex (memcpy, never printed as numbers).
//
// Built twice: C++17 (six hand-written operators) and C++20 (operator<=>).
// -DC16_FLOAT_ORD_NC: ordering a float/double optional does not compile in this
// configuration (probed by vlib/props/c16.py); those four fields print `NC`.
#include "proto.hpp"

#include <sbepp/sbepp.hpp>

#include <limits>
#include <type_traits>

template<typename T>
struct params
{
    static T min;
    static T max;
    static T null;
};
template<typename T>
T params<T>::min{};
template<typename T>
T params<T>::max{};
template<typename T>
T params<T>::null{};

template<typename T>
class opt_t : public sbepp::detail::optional_base<T, opt_t<T>>
{
public:
    using sbepp::detail::optional_base<T, opt_t<T>>::optional_base;

    static T min_value() noexcept
    {
        return params<T>::min;
    }

    static T max_value() noexcept
    {
        return params<T>::max;
    }

    static T null_value() noexcept
    {
        return params<T>::null;
    }
};

template<typename T>
class req_t : public sbepp::detail::required_base<T, req_t<T>>
{
public:
    using sbepp::detail::required_base<T, req_t<T>>::required_base;

    static T min_value() noexcept
    {
        return params<T>::min;
    }

    static T max_value() noexcept
    {
        return params<T>::max;
    }
};

template<typename T>
static T from_bits(std::uint64_t bits)
{
    // little-endian host (checked by optcfg): the low sizeof(T) bytes
    T v;
    std::memcpy(&v, &bits, sizeof(T));
    return v;
}

template<typename T>
static std::string to_hex(T v)
{
    unsigned char raw[sizeof(T)];
    std::memcpy(raw, &v, sizeof(T));
    unsigned char be[sizeof(T)];
    for(std::size_t i = 0; i < sizeof(T); i++)
    {
        be[i] = raw[sizeof(T) - 1 - i];
    }
    return proto::hex(be, sizeof(T));
}

static const char* b01(bool b)
{
    return b ? "1" : "0";
}

// the four ordering relations; Skip = they do not compile for this type
template<typename V, bool Skip>
struct ordering
{
    static std::string get(const V& a, const V& b)
    {
        std::string s;
        s += b01(a < b);
        s += ",";
        s += b01(a <= b);
        s += ",";
        s += b01(a > b);
        s += ",";
        s += b01(a >= b);
        return s;
    }
};

template<typename V>
struct ordering<V, true>
{
    static std::string get(const V&, const V&)
    {
        return "NC,NC,NC,NC";
    }
};

#ifdef C16_FLOAT_ORD_NC
template<typename T>
using skip_opt_ordering = std::is_floating_point<T>;
#else
template<typename T>
using skip_opt_ordering = std::false_type;
#endif

template<typename Opt>
static std::string run_opt(std::uint64_t abits, std::uint64_t bbits)
{
    using T = typename Opt::value_type;
    const Opt a{from_bits<T>(abits)};
    const Opt b{from_bits<T>(bbits)};
    const Opt d;                 // default constructor
    const Opt n{sbepp::nullopt}; // nullopt constructor
    std::string s;
    s += b01(a == b);
    s += ",";
    s += b01(a != b);
    s += ",";
    s += ordering<Opt, skip_opt_ordering<T>::value>::get(a, b);
    s += ",";
    s += b01(a.has_value());
    s += ",";
    s += b01(b.has_value());
    s += ",";
    s += b01(static_cast<bool>(a));
    s += ",";
    s += b01(a.in_range());
    s += ",";
    s += to_hex<T>(a.value_or(from_bits<T>(bbits)));
    s += ",";
    s += b01(d.has_value());
    s += ",";
    s += b01(static_cast<bool>(n));
    s += ",";
    s += to_hex<T>(d.value());
    return s;
}

template<typename Req>
static std::string run_req(std::uint64_t abits, std::uint64_t bbits)
{
    using T = typename Req::value_type;
    const Req a{from_bits<T>(abits)};
    const Req b{from_bits<T>(bbits)};
    const Req d{}; // value-initialised
    std::string s;
    s += b01(a == b);
    s += ",";
    s += b01(a != b);
    s += ",";
    s += ordering<Req, false>::get(a, b);
    s += ",-,-,-,";
    s += b01(a.in_range());
    s += ",-,-,-,";
    s += to_hex<T>(d.value());
    return s;
}

template<typename T, typename BuiltInOpt, typename BuiltInReq>
static void run(const proto::request& r)
{
    if(r.cmd == "opttab")
    {
        const auto k = r.str("k");
        if(k == "min")
        {
            std::cout << "impl=" << to_hex<T>(BuiltInOpt::min_value())
                      << " req=" << to_hex<T>(BuiltInReq::min_value())
                      << " traits="
                      << to_hex<T>(
                             sbepp::type_traits<BuiltInOpt>::min_value())
                      << "\n";
        }
        else if(k == "max")
        {
            std::cout << "impl=" << to_hex<T>(BuiltInOpt::max_value())
                      << " req=" << to_hex<T>(BuiltInReq::max_value())
                      << " traits="
                      << to_hex<T>(
                             sbepp::type_traits<BuiltInOpt>::max_value())
                      << "\n";
        }
        else if(k == "null")
        {
            std::cout << "impl=" << to_hex<T>(BuiltInOpt::null_value())
                      << " req=- traits="
                      << to_hex<T>(
                             sbepp::type_traits<BuiltInOpt>::null_value())
                      << "\n";
        }
        else
        {
            std::cout << "bad-op\n";
        }
        return;
    }
    static_assert(
        std::is_same<typename BuiltInOpt::value_type, T>::value
            && std::is_same<typename BuiltInReq::value_type, T>::value,
        "built-in value_type");
    params<T>::min = from_bits<T>(r.u64("min"));
    params<T>::max = from_bits<T>(r.u64("max"));
    params<T>::null = from_bits<T>(r.u64("null"));
    const auto kind = r.str("kind");
    const auto a = r.u64("a");
    const auto b = r.u64("b");
    std::string out;
    std::string st;
    if(kind == "opt")
    {
        st = proto::guarded([&] { out = run_opt<opt_t<T>>(a, b); });
    }
    else if(kind == "req")
    {
        st = proto::guarded([&] { out = run_req<req_t<T>>(a, b); });
    }
    else if(kind == "optbi")
    {
        st = proto::guarded([&] { out = run_opt<BuiltInOpt>(a, b); });
    }
    else if(kind == "reqbi")
    {
        st = proto::guarded([&] { out = run_req<BuiltInReq>(a, b); });
    }
    else
    {
        std::cout << "bad-op\n";
        return;
    }
    std::cout << "impl=" << (st.empty() ? out : st) << "\n";
}

// request values are written in hex without prefix
static void rehex(proto::request& r)
{
    for(const char* k : {"min", "max", "null", "a", "b"})
    {
        if(r.has(k))
        {
            r.kv[k] = "0x" + r.kv[k];
        }
    }
}

int main()
{
    proto::install_handlers();
    std::string line;
    proto::request r;
    while(std::getline(std::cin, line))
    {
        if(!proto::parse(line, r))
        {
            std::cout << "\n";
            continue;
        }
        if(r.cmd == "optcfg")
        {
            const std::uint32_t one = 1;
            unsigned char first;
            std::memcpy(&first, &one, 1);
            std::cout << "impl=char_signed:" << b01(std::is_signed<char>::value)
                      << ",float_iec559:"
                      << b01(
                             std::numeric_limits<float>::is_iec559
                             && sizeof(float) == 4)
                      << ",double_iec559:"
                      << b01(
                             std::numeric_limits<double>::is_iec559
                             && sizeof(double) == 8)
                      << ",little_endian:" << b01(first == 1)
                      << ",threeway:" << SBEPP_HAS_THREE_WAY_COMPARISON
                      << ",float_ord_nc:"
#ifdef C16_FLOAT_ORD_NC
                      << 1
#else
                      << 0
#endif
                      << "\n";
            continue;
        }
        if(r.cmd != "opt" && r.cmd != "opttab")
        {
            std::cout << "bad-op\n";
            continue;
        }
        rehex(r);
        const auto p = r.str("p");
        const bool want_ship = r.str("impl") == "spaceship";
        if(r.cmd == "opt" && want_ship != (SBEPP_HAS_THREE_WAY_COMPARISON != 0))
        {
            // the request is for the other build
            std::cout << "impl=other-build\n";
        }
        else if(p == "char")
        {
            run<char, sbepp::char_opt_t, sbepp::char_t>(r);
        }
        else if(p == "i8")
        {
            run<std::int8_t, sbepp::int8_opt_t, sbepp::int8_t>(r);
        }
        else if(p == "i16")
        {
            run<std::int16_t, sbepp::int16_opt_t, sbepp::int16_t>(r);
        }
        else if(p == "i32")
        {
            run<std::int32_t, sbepp::int32_opt_t, sbepp::int32_t>(r);
        }
        else if(p == "i64")
        {
            run<std::int64_t, sbepp::int64_opt_t, sbepp::int64_t>(r);
        }
        else if(p == "u8")
        {
            run<std::uint8_t, sbepp::uint8_opt_t, sbepp::uint8_t>(r);
        }
        else if(p == "u16")
        {
            run<std::uint16_t, sbepp::uint16_opt_t, sbepp::uint16_t>(r);
        }
        else if(p == "u32")
        {
            run<std::uint32_t, sbepp::uint32_opt_t, sbepp::uint32_t>(r);
        }
        else if(p == "u64")
        {
            run<std::uint64_t, sbepp::uint64_opt_t, sbepp::uint64_t>(r);
        }
        else if(p == "f32")
        {
            run<float, sbepp::float_opt_t, sbepp::float_t>(r);
        }
        else if(p == "f64")
        {
            run<double, sbepp::double_opt_t, sbepp::double_t>(r);
        }
        else
        {
            std::cout << "bad-op\n";
        }
    }
    return 0;
}
