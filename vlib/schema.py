"""Schema model (plain dicts), XML and S-expression rendering, and the
type-directed random schema generator (DESIGN 5.4)."""
import random
from xml.sax.saxutils import escape, quoteattr

PRIMS = ['char', 'int8', 'uint8', 'int16', 'uint16', 'int32', 'uint32', 'int64', 'uint64', 'float', 'double']
PRIM_SIZE = {'char': 1, 'int8': 1, 'uint8': 1, 'int16': 2, 'uint16': 2, 'int32': 4, 'uint32': 4,
             'int64': 8, 'uint64': 8, 'float': 4, 'double': 8}
UNSIGNED = ['uint8', 'uint16', 'uint32', 'uint64']
SINGLE_BYTE = ['char', 'int8', 'uint8']
INTEGRAL = [p for p in PRIMS if p not in ('float', 'double')]


# ---------------------------------------------------------------- XML

def _attrs(d, keys):
    out = ''
    for k, xk in keys:
        if d.get(k) is not None:
            out += ' %s=%s' % (xk, quoteattr(str(d[k])))
    return out


COMMON = [('desc', 'description'), ('since', 'sinceVersion'), ('deprecated', 'deprecated'), ('offset', 'offset'),
          ('semanticType', 'semanticType')]


def elem_xml(e, ind='    '):
    k = e['k']
    if k == 'type':
        a = _attrs(e, [('name', 'name'), ('prim', 'primitiveType'), ('length', 'length'), ('presence', 'presence'),
                       ('min', 'minValue'), ('max', 'maxValue'), ('null', 'nullValue'), ('valueRef', 'valueRef'),
                       ('charEnc', 'characterEncoding')] + COMMON)
        if e.get('const') is not None:
            return '%s<type%s>%s</type>\n' % (ind, a, escape(e['const']))
        return '%s<type%s/>\n' % (ind, a)
    if k == 'composite':
        a = _attrs(e, [('name', 'name')] + COMMON)
        return '%s<composite%s>\n%s%s</composite>\n' % (ind, a, ''.join(elem_xml(x, ind + '    ') for x in e['elems']), ind)
    if k == 'ref':
        return '%s<ref%s/>\n' % (ind, _attrs(e, [('name', 'name'), ('type', 'type'), ('offset', 'offset'),
                                                ('since', 'sinceVersion'), ('deprecated', 'deprecated')]))
    if k == 'enum':
        a = _attrs(e, [('name', 'name'), ('enc', 'encodingType')] + COMMON)
        vals = ''.join('%s    <validValue%s>%s</validValue>\n' % (
            ind, _attrs(v, [('name', 'name'), ('desc', 'description'), ('since', 'sinceVersion'),
                            ('deprecated', 'deprecated')]), escape(str(v['value']))) for v in e['values'])
        return '%s<enum%s>\n%s%s</enum>\n' % (ind, a, vals, ind)
    if k == 'set':
        a = _attrs(e, [('name', 'name'), ('enc', 'encodingType')] + COMMON)
        ch = ''.join('%s    <choice%s>%s</choice>\n' % (
            ind, _attrs(c, [('name', 'name'), ('desc', 'description'), ('since', 'sinceVersion'),
                            ('deprecated', 'deprecated')]), c['index']) for c in e['choices'])
        return '%s<set%s>\n%s%s</set>\n' % (ind, a, ch, ind)
    raise ValueError(k)


def members_xml(m, ind):
    out = ''
    for f in m.get('fields', []):
        out += '%s<field%s/>\n' % (ind, _attrs(f, [('name', 'name'), ('id', 'id'), ('type', 'type'), ('offset', 'offset'),
                                                   ('presence', 'presence'), ('valueRef', 'valueRef'),
                                                   ('desc', 'description'), ('since', 'sinceVersion'),
                                                   ('deprecated', 'deprecated')]))
    for g in m.get('groups', []):
        out += '%s<group%s>\n%s%s</group>\n' % (
            ind, _attrs(g, [('name', 'name'), ('id', 'id'), ('dim', 'dimensionType'), ('blockLength', 'blockLength'),
                            ('desc', 'description'), ('since', 'sinceVersion'), ('deprecated', 'deprecated'),
                            ('semanticType', 'semanticType')]),
            members_xml(g, ind + '    '), ind)
    for d in m.get('datas', []):
        out += '%s<data%s/>\n' % (ind, _attrs(d, [('name', 'name'), ('id', 'id'), ('type', 'type'),
                                                  ('desc', 'description'), ('since', 'sinceVersion'),
                                                  ('deprecated', 'deprecated')]))
    return out


def to_xml(s):
    out = '<?xml version="1.0" encoding="UTF-8"?>\n'
    out += '<sbe:messageSchema xmlns:sbe="http://fixprotocol.io/2016/sbe"%s>\n' % _attrs(
        s, [('package', 'package'), ('id', 'id'), ('version', 'version'), ('semanticVersion', 'semanticVersion'),
            ('desc', 'description'), ('byteOrder', 'byteOrder'), ('headerType', 'headerType')])
    out += '    <types>\n' + ''.join(elem_xml(e, '        ') for e in s['types']) + '    </types>\n'
    for m in s['messages']:
        out += '    <sbe:message%s>\n%s    </sbe:message>\n' % (
            _attrs(m, [('name', 'name'), ('id', 'id'), ('blockLength', 'blockLength'), ('desc', 'description'),
                       ('since', 'sinceVersion'), ('deprecated', 'deprecated'), ('semanticType', 'semanticType')]),
            members_xml(m, '        '))
    out += '</sbe:messageSchema>\n'
    return out


# ---------------------------------------------------------------- S-expressions (Lean transport)

def _kv(d, keys):
    return ''.join(' (%s %s)' % (k2, d[k]) for k, k2 in keys if d.get(k) is not None)


def _x(v):
    return 'x' + str(v).encode('utf-8').hex()


def _attrs_sexp(d):
    """descriptive attributes; free text is hex-encoded"""
    out = ''
    for k, k2 in (('desc', 'desc'), ('semanticType', 'semanticType')):
        if d.get(k) is not None:
            out += ' (%s %s)' % (k2, _x(d[k]))
    for k in ('since', 'deprecated'):
        if d.get(k) is not None:
            out += ' (%s %s)' % (k, d[k])
    return out


def _text(d, keys):
    return ''.join(' (%s %s)' % (k2, _x(d[k])) for k, k2 in keys if d.get(k) is not None)


def elem_sexp(e):
    k = e['k']
    if k == 'type':
        return '(type%s%s%s)' % (_kv(e, [('name', 'name'), ('prim', 'prim'), ('length', 'length'),
                                         ('presence', 'presence'), ('offset', 'offset')]),
                                 _text(e, [('min', 'min'), ('max', 'max'), ('null', 'null'), ('const', 'const'),
                                           ('valueRef', 'valueRef'), ('charEnc', 'charEnc')]), _attrs_sexp(e))
    if k == 'composite':
        return '(composite%s%s (elems %s))' % (_kv(e, [('name', 'name'), ('offset', 'offset')]), _attrs_sexp(e),
                                               ' '.join(elem_sexp(x) for x in e['elems']))
    if k == 'ref':
        return '(ref%s%s)' % (_kv(e, [('name', 'name'), ('type', 'type'), ('offset', 'offset')]), _attrs_sexp(e))
    if k == 'enum':
        vals = ' '.join('(v (name %s) (value %s)%s)' % (v['name'], _x(v['value']), _attrs_sexp(v)) for v in e['values'])
        return '(enum%s%s (values %s))' % (_kv(e, [('name', 'name'), ('enc', 'enc'), ('offset', 'offset')]),
                                          _attrs_sexp(e), vals)
    if k == 'set':
        ch = ' '.join('(c (name %s) (index %s)%s)' % (c['name'], c['index'], _attrs_sexp(c)) for c in e['choices'])
        return '(set%s%s (choices %s))' % (_kv(e, [('name', 'name'), ('enc', 'enc'), ('offset', 'offset')]),
                                          _attrs_sexp(e), ch)
    raise ValueError(k)


def members_sexp(m):
    fs = ' '.join('(field%s%s%s)' % (_kv(f, [('name', 'name'), ('id', 'id'), ('type', 'type'), ('offset', 'offset'),
                                             ('presence', 'presence')]), _text(f, [('valueRef', 'valueRef')]),
                                     _attrs_sexp(f)) for f in m.get('fields', []))
    gs = ' '.join('(group%s%s %s)' % (_kv(g, [('name', 'name'), ('id', 'id'), ('dim', 'dim'),
                                              ('blockLength', 'blockLength')]), _attrs_sexp(g), members_sexp(g))
                  for g in m.get('groups', []))
    ds = ' '.join('(data%s%s)' % (_kv(d, [('name', 'name'), ('id', 'id'), ('type', 'type')]), _attrs_sexp(d))
                  for d in m.get('datas', []))
    return '(fields %s) (groups %s) (datas %s)' % (fs, gs, ds)


def to_sexp(s):
    ms = ' '.join('(message%s%s %s)' % (_kv(m, [('name', 'name'), ('id', 'id'), ('blockLength', 'blockLength')]),
                                        _attrs_sexp(m), members_sexp(m)) for m in s['messages'])
    return '(schema%s%s (types %s) (messages %s))' % (
        _kv(s, [('package', 'package'), ('id', 'id'), ('version', 'version'), ('byteOrder', 'byteOrder'),
                ('headerType', 'headerType')]), _text(s, [('semanticVersion', 'semanticVersion'), ('desc', 'desc')]),
        ' '.join(elem_sexp(e) for e in s['types']), ms)


# ---------------------------------------------------------------- generator

class Gen:
    """Mostly-valid schemas from the repo's own vocabulary.  `feat` counts the
    features used so that the evidence can show the input distribution."""

    def __init__(self, rng, max_depth=3, hdr_variants=True):
        self.r = rng
        self.n = 0
        self.feat = {}
        self.max_depth = max_depth
        self.hdr_variants = hdr_variants

    def hit(self, f):
        self.feat[f] = self.feat.get(f, 0) + 1

    def name(self, p):
        self.n += 1
        return '%s%d' % (p, self.n)

    def maybe(self, p):
        return self.r.random() < p

    WORDS = ['alpha', 'beta', 'price', 'Qty', 'order id', 'x', 'some text 42', 'a-b_c', 'UPPER', 'mixed Case.']

    def decorate(self, d, semantic=False):
        """descriptive attributes (traits must mirror them); text is kept free of characters that need escaping in
        C++ string literals (those are exercised by the C07 stream)"""
        r = self.r
        if self.maybe(0.4):
            d['desc'] = r.choice(self.WORDS)
            self.hit('attr.description')
        if self.maybe(0.25):
            d['since'] = r.randint(0, self.version)
            self.hit('attr.sinceVersion')
            if self.maybe(0.4):
                d['deprecated'] = r.randint(d['since'], self.version)
                self.hit('attr.deprecated')
        if semantic and self.maybe(0.2):
            d['semanticType'] = r.choice(['Price', 'String', 'int', 'UTCTimestamp'])
            self.hit('attr.semanticType')
        return d

    INT_RANGE = {'int8': (-128, 127), 'uint8': (0, 255), 'int16': (-32768, 32767), 'uint16': (0, 65535),
                 'int32': (-2 ** 31, 2 ** 31 - 1), 'uint32': (0, 2 ** 32 - 1), 'int64': (-2 ** 63, 2 ** 63 - 1),
                 'uint64': (0, 2 ** 64 - 1), 'char': (0, 127)}

    def num_text(self, v):
        """decimal text of v; one in four with superfluous leading zeros (xs:integer allows them, sbeppc's
        from_chars accepts them; pasted verbatim they would be octal literals)"""
        if self.maybe(0.25):
            self.hit('number.leading_zeros')
            return ('-' if v < 0 else '') + '0' * self.r.choice([1, 2, 5]) + str(abs(v))
        return str(v)

    def explicit_range(self, t):
        """explicit minValue/maxValue/nullValue on an integer type"""
        p = t['prim']
        if p not in self.INT_RANGE or p == 'char' or t.get('presence') == 'constant':
            return
        lo, hi = self.INT_RANGE[p]
        if self.maybe(0.3):
            t['min'] = self.num_text(self.r.choice([lo, lo + 1, 0 if lo <= 0 else lo, 1 if lo <= 1 else lo,
                                                     -8 if lo <= -8 else lo, -64 if lo <= -64 else lo]))
            self.hit('type.explicit_min')
        if self.maybe(0.3):
            t['max'] = self.num_text(self.r.choice([hi, hi - 1, 100 if hi >= 100 else hi, 10 if hi >= 10 else hi]))
            self.hit('type.explicit_max')
        if t.get('presence') == 'optional' and self.maybe(0.5):
            t['null'] = self.num_text(self.r.choice([lo, hi, 0 if lo <= 0 else lo, -10 if lo <= -10 else lo]))
            self.hit('type.explicit_null')

    # -- types
    def header(self, name, members, types):
        """header-like composite with the required members in random order,
        optional extra members, custom offsets and ref-typed members"""
        r = self.r
        elems = []
        order = list(members)
        if self.hdr_variants and self.maybe(0.5):
            r.shuffle(order)
            self.hit('hdr.reordered')
        for mname, prim in order:
            if self.hdr_variants and self.maybe(0.15):
                elems.append({'k': 'type', 'name': self.name('pad'), 'prim': r.choice(['uint8', 'uint16', 'char']),
                              'length': 1})
                self.hit('hdr.extra_member')
            if self.hdr_variants and self.maybe(0.2):
                tn = self.name('HT')
                types.append({'k': 'type', 'name': tn, 'prim': prim})
                elems.append({'k': 'ref', 'name': mname, 'type': tn})
                self.hit('hdr.ref_member')
            else:
                elems.append({'k': 'type', 'name': mname, 'prim': prim})
        if self.hdr_variants and self.maybe(0.3):
            for cn in ('numGroups', 'numVarDataFields'):
                if self.maybe(0.7):
                    prim = r.choice(UNSIGNED)
                    if self.maybe(0.4):
                        # counter declared through a <ref>, like the required members above
                        tn = self.name('HT')
                        types.append({'k': 'type', 'name': tn, 'prim': prim})
                        elems.insert(r.randint(0, len(elems)), {'k': 'ref', 'name': cn, 'type': tn})
                        self.hit('hdr.' + cn + '_ref')
                    else:
                        elems.insert(r.randint(0, len(elems)), {'k': 'type', 'name': cn, 'prim': prim})
                    self.hit('hdr.' + cn)
        if self.hdr_variants and self.maybe(0.3):
            self.add_offsets(elems, types)
            self.hit('hdr.custom_offsets')
        return {'k': 'composite', 'name': name, 'elems': elems}

    def elem_size(self, e, types):
        k = e['k']
        if k == 'type':
            return 0 if e.get('presence') == 'constant' else PRIM_SIZE[e['prim']] * e.get('length', 1)
        if k in ('enum', 'set'):
            enc = e['enc']
            if enc in PRIM_SIZE:
                return PRIM_SIZE[enc]
            return self.elem_size(self.find(types, enc), types)
        if k == 'ref':
            return self.elem_size(self.find(types, e['type']), types)
        if k == 'composite':
            cur = 0
            for x in e['elems']:
                if self.is_const(x, types):
                    continue
                if x.get('offset') is not None:
                    cur = x['offset']
                cur += self.elem_size(x, types)
            return cur
        raise ValueError(k)

    def is_const(self, e, types):
        if e['k'] == 'type':
            return e.get('presence') == 'constant'
        if e['k'] == 'ref':
            t = self.find(types, e['type'])
            return t['k'] == 'type' and t.get('presence') == 'constant'
        return False

    @staticmethod
    def find(types, name):
        for t in types:
            if t['name'].lower() == name.lower():
                return t
        raise KeyError(name)

    def add_offsets(self, elems, types):
        cur = 0
        for x in elems:
            if self.is_const(x, types):
                continue
            if self.maybe(0.4):
                cur += self.r.choice([0, 1, 2, 3, 7])
                x['offset'] = cur
            cur += self.elem_size(x, types)

    def gen_types(self, types):
        r = self.r
        pool = []   # names usable as field types
        # scalars
        for _ in range(r.randint(2, 5)):
            p = r.choice(PRIMS)
            t = {'k': 'type', 'name': self.name('T'), 'prim': p}
            if self.maybe(0.3):
                t['presence'] = 'optional'
                self.hit('type.optional')
            self.explicit_range(t)
            self.decorate(t, semantic=True)
            types.append(t)
            pool.append(t['name'])
            self.hit('type.' + p)
        # a public type named like a primitive type in another letter case ("alias" types of production schemas:
        # `<type name="UInt16" primitiveType="uint16"/>`).  Type lookup is case-insensitive, but a field whose `type`
        # is the exact primitive name is the built-in type; the alias differs from it in presence, size or primitive
        if self.maybe(0.3):
            base = r.choice(['uint16', 'char', 'int32', 'uint8', 'int64', 'double', 'uint32'])
            alias = r.choice([base.upper(), base.capitalize(), base[0].upper() + base[1].upper() + base[2:]])
            if alias != base and all(t['name'].lower() != alias.lower() for t in types):
                t = {'k': 'type', 'name': alias, 'prim': r.choice([base, 'uint8', 'uint64'])}
                how = r.choice(['optional', 'array', 'other-prim'])
                if how == 'optional':
                    t['prim'] = base
                    t['presence'] = 'optional'
                elif how == 'array':
                    t['prim'] = r.choice(SINGLE_BYTE)
                    t['length'] = r.choice([2, 8])
                types.append(t)
                pool.append(alias)
                self.alias_prims = getattr(self, 'alias_prims', []) + [base]
                self.hit('type.named_like_primitive')
        # arrays
        for _ in range(r.randint(1, 3)):
            p = r.choice(SINGLE_BYTE)
            n = r.choice([0, 2, 3, 5, 8, 17])
            types.append({'k': 'type', 'name': self.name('A'), 'prim': p, 'length': n})
            pool.append(types[-1]['name'])
            self.hit('array.len%d' % n)
        # constants
        if self.maybe(0.6):
            types.append({'k': 'type', 'name': self.name('K'), 'prim': 'uint16', 'presence': 'constant', 'const': '7'})
            pool.append(types[-1]['name'])
            self.hit('type.constant')
        if self.maybe(0.4):
            types.append({'k': 'type', 'name': self.name('KS'), 'prim': 'char', 'presence': 'constant',
                          'const': 'abc'})
            pool.append(types[-1]['name'])
            self.hit('type.constant_string')
        # enums
        for _ in range(r.randint(1, 2)):
            enc = r.choice(['char'] + INTEGRAL[1:])
            if enc == 'char':
                vals = [{'name': 'A', 'value': 'A'}, {'name': 'B', 'value': 'B'}]
                if self.maybe(0.4):
                    vals.append({'name': 'Z', 'value': r.choice(['z', '0', '~'])})
                    self.hit('enum.char_extra')
            else:
                vals = [{'name': 'One', 'value': 1}, {'name': 'Two', 'value': 2}, {'name': 'Max', 'value': 100}]
                if self.maybe(0.6):
                    # values over the whole range of the encoding: the type's extremes, values that need more than
                    # 31/32 bits, negative ones
                    lo, hi = self.INT_RANGE[enc]
                    cands = [c for c in (0, hi, hi - 1, lo, lo + 1, -1, -100, 2 ** 31, 2 ** 31 - 1, 2 ** 32, 2 ** 32 + 5,
                                         2 ** 40 + 3, -2 ** 31 - 1, 255, 256, 65535, 65536, 128, -128, -129)
                             if lo <= c <= hi and c not in (1, 2, 100)]
                    cands = sorted(set(cands))
                    r.shuffle(cands)
                    for i, c in enumerate(cands[:r.randint(1, 3)]):
                        vals.append({'name': 'W%d' % i, 'value': c})
                    self.hit('enum.wide_values')
            if self.maybe(0.3) and enc != 'char':
                tn = self.name('ET')
                types.append({'k': 'type', 'name': tn, 'prim': enc})
                enc = tn
                self.hit('enum.named_encoding')
            for v in vals:
                self.decorate(v)
            types.append(self.decorate({'k': 'enum', 'name': self.name('E'), 'enc': enc, 'values': vals}))
            pool.append(types[-1]['name'])
            self.hit('enum')
        # sets
        for _ in range(r.randint(1, 2)):
            enc = r.choice(UNSIGNED)
            w = PRIM_SIZE[enc] * 8
            idx = sorted(set(r.choice([0, 1, 7, 8, 15, 16, 30, 31, 32, 62, 63]) % w for _ in range(3)))
            types.append(self.decorate({'k': 'set', 'name': self.name('S'), 'enc': enc,
                                        'choices': [self.decorate({'name': 'c%d' % i, 'index': i}) for i in idx]}))
            pool.append(types[-1]['name'])
            self.hit('set.' + enc)
        # composites (inline members, refs, nesting)
        for _ in range(r.randint(1, 3)):
            pool.append(self.gen_composite(types, pool, 0))
        return pool

    def gen_composite(self, types, pool, depth):
        r = self.r
        elems = []
        for _ in range(r.randint(1, 4)):
            c = r.random()
            if c < 0.35:
                p = r.choice(PRIMS)
                e = {'k': 'type', 'name': self.name('m'), 'prim': p}
                if p in SINGLE_BYTE and self.maybe(0.3):
                    e['length'] = r.choice([0, 2, 4])
                elems.append(e)
                self.hit('composite.inline_type')
            elif c < 0.6 and pool:
                elems.append({'k': 'ref', 'name': self.name('r'), 'type': r.choice(pool)})
                self.hit('composite.ref')
            elif c < 0.7:
                elems.append({'k': 'enum', 'name': self.name('ie'), 'enc': 'uint8',
                              'values': [{'name': 'X', 'value': 1}, {'name': 'Y', 'value': 2}]})
                self.hit('composite.inline_enum')
            elif c < 0.8:
                elems.append({'k': 'set', 'name': self.name('is'), 'enc': r.choice(UNSIGNED),
                              'choices': [{'name': 'a', 'index': 0}, {'name': 'b', 'index': 5}]})
                self.hit('composite.inline_set')
            elif c < 0.9 and depth < 2:
                inner = []
                for _ in range(r.randint(1, 2)):
                    inner.append({'k': 'type', 'name': self.name('n'), 'prim': r.choice(PRIMS)})
                elems.append({'k': 'composite', 'name': self.name('ic'), 'elems': inner})
                self.hit('composite.inline_composite')
            else:
                elems.append({'k': 'type', 'name': self.name('kc'), 'prim': 'uint8', 'presence': 'constant',
                              'const': '3'})
                self.hit('composite.constant_member')
        # a <ref> to a constant TYPE (takes no space, has no setter, must not be visited): made likely on purpose, the
        # uniform choice above picks a constant out of the whole pool too rarely
        const_types = [ty for ty in pool if (lambda t: t['k'] == 'type' and t.get('presence') == 'constant')(self.find(types, ty))]
        if const_types and self.maybe(0.35):
            elems.insert(r.randint(0, len(elems)), {'k': 'ref', 'name': self.name('rk'), 'type': r.choice(const_types)})
            self.hit('composite.ref_to_constant_type')
        if all(self.is_const(e, types) for e in elems):
            elems.append({'k': 'type', 'name': self.name('m'), 'prim': 'uint8'})
        for e in elems:
            self.decorate(e, semantic=e['k'] != 'ref')
        comp = self.decorate({'k': 'composite', 'name': self.name('C'), 'elems': elems}, semantic=True)
        types.append(comp)
        if self.maybe(0.35):
            self.add_offsets(elems, types)
            self.hit('composite.custom_offsets')
        return comp['name']

    # -- levels
    def gen_level(self, types, pool, dims, datas, depth):
        r = self.r
        fields = []
        cur = 0
        # entries made only of fields whose constness comes from their TYPE (compiled block length 0; the generated
        # entry needs the "empty entry" cursor constructor), half of them leaf entries
        const_types = [ty for ty in pool if (lambda t: t['k'] == 'type' and t.get('presence') == 'constant')(self.find(types, ty))]
        const_only = depth > 0 and const_types and self.maybe(0.15)
        leaf_only = const_only and self.maybe(0.5)
        if const_only:
            for _ in range(r.randint(1, 3)):
                fields.append(self.decorate({'name': self.name('f'), 'id': self.n, 'type': r.choice(const_types)}))
            self.hit('group.const_only_entry' + ('_leaf' if leaf_only else ''))
        enum_types = [ty for ty in pool if self.find(types, ty)['k'] == 'enum']
        for _ in range(0 if const_only else r.randint(0, 5)):
            if enum_types and self.maybe(0.12):
                # field-level constant: `presence="constant" valueRef="Enum.Value"` (takes no space, has no setter,
                # is not visited); either typed by the enum itself or by the enum's primitive encoding
                e = self.find(types, r.choice(enum_types))
                v = r.choice(e['values'])
                ty = e['name']
                if e['enc'] in PRIM_SIZE and self.maybe(0.4):
                    ty = e['enc']
                    self.hit('field.constant_valueRef_primitive')
                fields.append(self.decorate({'name': self.name('f'), 'id': self.n, 'type': ty, 'presence': 'constant',
                                             'valueRef': '%s.%s' % (e['name'], v['name'])}))
                self.hit('field.constant_valueRef')
                continue
            if self.maybe(0.3):
                ty = r.choice(PRIMS)
                if getattr(self, 'alias_prims', None) and self.maybe(0.5):
                    # the exact primitive name next to a public type that differs from it only in letter case
                    ty = r.choice(self.alias_prims)
                    self.hit('field.primitive_with_alias_type')
                f = {'name': self.name('f'), 'id': self.n, 'type': ty}
                if self.maybe(0.2):
                    f['presence'] = 'optional'
                size = PRIM_SIZE[ty]
                const = False
            else:
                ty = r.choice(pool)
                t = self.find(types, ty)
                f = {'name': self.name('f'), 'id': self.n, 'type': ty}
                const = t['k'] == 'type' and t.get('presence') == 'constant'
                size = self.elem_size(t, types)
                if t['k'] in ('enum', 'set', 'composite') and self.maybe(0.25):
                    # declared presence that the actual-presence rules override (enum/set) or pass through
                    f['presence'] = 'optional'
                    self.hit('field.optional_' + t['k'])
            if not const:
                if self.maybe(0.25):
                    cur += r.choice([0, 1, 2, 5])
                    f['offset'] = cur
                    self.hit('field.custom_offset')
                cur += size
            fields.append(self.decorate(f))
        lvl = {'fields': fields, 'groups': [], 'datas': []}
        if self.maybe(0.3):
            lvl['blockLength'] = cur + r.choice([0, 1, 3, 8])
            self.hit('level.custom_blockLength')
        if depth < self.max_depth and not leaf_only:
            for _ in range(r.choice([0, 0, 1, 1, 2, 3] if depth < 2 else [0, 1, 2])):
                g = self.gen_level(types, pool, dims, datas, depth + 1)
                g.update({'name': self.name('g'), 'id': self.n, 'dim': r.choice(dims)})
                self.decorate(g, semantic=True)
                lvl['groups'].append(g)
                self.hit('group.depth%d' % (depth + 1))
        # name coincidence between path concatenations: a sibling named `<X>_<Y>` next to a group X that has a
        # nested group Y (the trait-level size_bytes parameter names are path-joined)
        for g in list(lvl['groups']):
            if g['groups'] and self.maybe(0.35):
                clash = {'name': '%s_%s' % (g['name'], g['groups'][0]['name']), 'id': self.n + 7000,
                         'dim': r.choice(dims), 'fields': [{'name': self.name('f'), 'id': self.n, 'type': 'uint16'}],
                         'groups': [], 'datas': []}
                pos = lvl['groups'].index(g) + (0 if self.maybe(0.5) else 1)
                lvl['groups'].insert(pos, clash)
                self.hit('group.path_name_coincidence')
        for _ in range(0 if leaf_only else r.choice([0, 0, 1, 2, 3, 4])):
            lvl['datas'].append(self.decorate({'name': self.name('d'), 'id': self.n, 'type': r.choice(datas)}))
            self.hit('data.depth%d' % depth)
        return lvl

    def schema(self, nmsgs=2):
        r = self.r
        types = []
        self.alias_prims = []
        self.version = r.randint(0, 5)
        bo = r.choice(['littleEndian', 'bigEndian'])
        self.hit('byteOrder.' + bo)
        hdr_prim = lambda: r.choice(UNSIGNED[1:]) if self.hdr_variants else 'uint16'  # noqa: E731
        hdr_name = 'messageHeader'
        if self.hdr_variants and self.maybe(0.2):
            hdr_name = self.name('Hdr')
            self.hit('hdr.custom_headerType')
        types.append(self.header(hdr_name, [('blockLength', hdr_prim()), ('templateId', hdr_prim()),
                                            ('schemaId', hdr_prim()), ('version', hdr_prim())], types))
        dims = []
        for _ in range(2):
            bl, nu = r.choice(UNSIGNED), r.choice(UNSIGNED)
            dims.append(self.name('Dim'))
            types.append(self.header(dims[-1], [('blockLength', bl), ('numInGroup', nu)], types))
            self.hit('dim.%s_%s' % (bl, nu))
        datas = []
        for _ in range(2):
            lt = r.choice(UNSIGNED)
            datas.append(self.name('Var'))
            types.append({'k': 'composite', 'name': datas[-1], 'elems': [
                {'k': 'type', 'name': 'length', 'prim': lt},
                {'k': 'type', 'name': 'varData', 'prim': r.choice(SINGLE_BYTE), 'length': 0}]})
            self.hit('data.len_' + lt)
        pool = self.gen_types(types)
        msgs = []
        for _ in range(nmsgs):
            m = self.gen_level(types, pool, dims, datas, 0)
            m.update({'name': self.name('Msg'), 'id': self.n})
            msgs.append(self.decorate(m, semantic=True))
        out = {'package': 'vs', 'id': r.randint(0, 60000), 'version': self.version, 'byteOrder': bo,
               'types': types, 'messages': msgs}
        if hdr_name != 'messageHeader':
            out['headerType'] = hdr_name
        if self.maybe(0.5):
            out['semanticVersion'] = r.choice(['5.2', '1.0.0', 'v7'])
        if self.maybe(0.5):
            out['desc'] = r.choice(self.WORDS)
        return out
