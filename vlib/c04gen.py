"""C04 (cursor protocol): per-schema C++ driver generator and the script
representation shared by the Lean request (`cursor (req ...)`) and the C++
request line.

A script is a list of items (see lean/Sbepp/Drive/C04.lean):
  ('c', member, wrapper)                      getter through a cursor
  ('s', member, wrapper, bits)                setter of a scalar field
  ('r', group, wrapper, [range...])           group getter followed by loops over cursor ranges
  range = (kind, pos, count, [body...])       kind: 'all' | 'sub' | 'subn'; body = list of items
Members are addressed by name in the Lean request and by index (fields, then
groups, then data members of the level) in the C++ request."""
import os
import re

from . import core, wire

WRAPPERS = ['plain', 'init', 'dont_move', 'init_dont_move', 'skip']
WEXPR = ['x.c', 'sbepp::cursor_ops::init(x.c)', 'sbepp::cursor_ops::dont_move(x.c)',
         'sbepp::cursor_ops::init_dont_move(x.c)', 'sbepp::cursor_ops::skip(x.c)']
MOVING = ('plain', 'init', 'skip')


def members(level):
    """[(kind, name, info)] in schema order: fields, groups, datas"""
    out = [('f', f['name'], f) for f in level['fields']]
    out += [('g', g['name'], g) for g in level['groups']]
    out += [('d', d['name'], d) for d in level['datas']]
    return out


def member_index(level, name):
    for i, (_, n, _) in enumerate(members(level)):
        if n == name:
            return i
    raise KeyError(name)


# ------------------------------------------------------------------ script rendering

def items_sexp(items):
    out = []
    for it in items:
        if it[0] == 'c':
            out.append('(c %s %s)' % (it[1], it[2]))
        elif it[0] == 's':
            out.append('(s %s %s v%x)' % (it[1], it[2], it[3]))
        else:
            rs = []
            for (kind, pos, count, bodies) in it[3]:
                bs = ' '.join('(e %s)' % items_sexp(b) for b in bodies)
                if kind == 'all':
                    rs.append('(all %s)' % bs)
                elif kind == 'sub':
                    rs.append('(sub %d %s)' % (pos, bs))
                else:
                    rs.append('(subn %d %d %s)' % (pos, count, bs))
            out.append('(r %s %s %s)' % (it[1], it[2], ' '.join(rs)))
    return ' '.join(out)


def items_tokens(level, items):
    toks = []
    for it in items:
        mi = member_index(level, it[1])
        w = WRAPPERS.index(it[2])
        if it[0] == 'c':
            toks += ['c', '%x' % mi, '%x' % w]
        elif it[0] == 's':
            toks += ['s', '%x' % mi, '%x' % w, '%x' % it[3]]
        else:
            sub = [g for g in level['groups'] if g['name'] == it[1]][0]['level']
            toks += ['r', '%x' % mi, '%x' % w, '%x' % len(it[3])]
            for (kind, pos, count, bodies) in it[3]:
                toks += ['%x' % {'all': 0, 'sub': 1, 'subn': 2}[kind], '%x' % pos, '%x' % count, '%x' % len(bodies)]
                for b in bodies:
                    toks.append('%x' % len(b))
                    toks += items_tokens(sub, b)
    return toks


def count_calls(items):
    n = 0
    for it in items:
        n += 1
        if it[0] == 'r':
            for (_, _, _, bodies) in it[3]:
                for b in bodies:
                    n += 1 + count_calls(b)
    return n


def model_request(sexp, msg, value, start, items, post=None):
    return 'cursor (req %s (msg %s) (value %s) (start %s)%s (calls %s))' % (
        sexp, msg, wire.mval_sexp(value), start, ' (post x%s)' % wire.hexs(post) if post else '', items_sexp(items))


def driver_request(msg, level, image_hex, start, items, view_size='-'):
    return 'cursor %s %s %s %s %x %s' % (msg, image_hex, start, view_size, len(items),
                                         ' '.join(items_tokens(level, items)))


# ------------------------------------------------------------------ C++ driver generation

def gen_level_fn(level, lid, sub_ids):
    """one dispatcher: template<V> run_L<lid>(V v, ctx&, pfx, nitems)"""
    L = []
    ms = members(level)
    L.append('template<typename V>')
    L.append('static void run_L%d(V v, c4::ctx& x, const std::string& pfx, std::size_t nitems) {' % lid)
    L.append('  (void)v;')
    L.append('  for(std::size_t i_ = 0; i_ < nitems; i_++) {')
    L.append('    const std::string op = x.tq.next();')
    L.append('    const std::size_t key = x.tq.num() * 5; const std::size_t w = x.tq.num();')
    L.append('    if(op == "c") {')
    L.append('      switch(key + w) {')
    for mi, (kind, name, info) in enumerate(ms):
        for w in range(5):
            call = 'v.%s(%s)' % (name, WEXPR[w])
            if w == 4:
                body = '%s; x.ev(pfx + "%s", "-");' % (call, name)
            elif kind == 'f' and not info['isView']:
                body = 'const std::string r = c4::val(%s); x.ev(pfx + "%s", r);' % (call, name)
            else:
                body = 'const std::string r = c4::addr(x, %s); x.ev(pfx + "%s", r);' % (call, name)
            L.append('        case %d: { %s break; }' % (mi * 5 + w, body))
    L.append('        default: x.bad();')
    L.append('      }')
    L.append('    } else if(op == "s") {')
    L.append('      const std::uint64_t bits = x.tq.num(); (void)bits;')
    L.append('      switch(key + w) {')
    for mi, (kind, name, info) in enumerate(ms):
        if kind == 'f' and not info['isView']:
            for w in range(4):   # skip has no setters
                L.append('        case %d: { using T = decltype(v.%s()); v.%s(gd::make<T>(bits), %s); x.ev(pfx + "%s", "-"); break; }' % (
                    mi * 5 + w, name, name, WEXPR[w], name))
    L.append('        default: x.bad();')
    L.append('      }')
    L.append('    } else if(op == "r") {')
    L.append('      const std::size_t nr = x.tq.num(); (void)nr;')
    L.append('      switch(key + w) {')
    for mi, (kind, name, info) in enumerate(ms):
        if kind != 'g':
            continue
        sid = sub_ids[name]
        for w in range(4):
            L.append('        case %d: { auto gv = v.%s(%s); x.ev(pfx + "%s", c4::addr(x, gv)); '
                     'c4::run_ranges(gv, x, pfx + "%s", nr, body_L%d{}); break; }' % (
                         mi * 5 + w, name, WEXPR[w], name, name, sid))
        L.append('        case %d: { v.%s(%s); x.ev(pfx + "%s", "-"); if(nr) { x.bad(); } break; }' % (
            mi * 5 + 4, name, WEXPR[4], name))
    L.append('        default: x.bad();')
    L.append('      }')
    L.append('    } else { x.bad(); }')
    L.append('  }')
    L.append('}')
    L.append('struct body_L%d { template<typename E> void operator()(E e, c4::ctx& x, const std::string& pfx, '
             'std::size_t n) const { run_L%d(e, x, pfx, n); } };' % (lid, lid))
    return L


def gen_driver(pkg, clayout, checked=True):
    """C++ source of the C04 driver for all messages of one schema; `clayout` is
    the answer of the model to `cursor (layout (schema ...))`.  `checked=False`:
    assertions and size checks compiled out (SBEPP_DISABLE_ASSERTS)"""
    src = ['#define SBEPP_ENABLE_ASSERTS_WITH_HANDLER' if checked else '#define SBEPP_DISABLE_ASSERTS',
           '#include <%s/%s.hpp>' % (pkg, pkg),
           '#include "c04_driver.hpp"', '']
    ids = wire.counter()
    table = []

    def emit(level):
        sub_ids = {}
        for g in level['groups']:
            sub_ids[g['name']] = emit(g['level'])
        lid = next(ids)
        src.extend(gen_level_fn(level, lid, sub_ids))
        return lid

    for m in clayout['messages']:
        if 'error' in m:
            continue
        lid = emit(m['level'])
        n = m['name']
        src.append('static void run_%s(gd::span b, c4::ctx& x, const std::string& start, std::size_t vsize) {' % n)
        src.append('  auto m = sbepp::make_view<::%s::messages::%s>(b.p, vsize);' % (pkg, n))
        src.append('  if(start == "init") { x.c = sbepp::init_cursor(m); }')
        src.append('  else if(start != "null") { x.c.pointer() = b.p + std::strtoull(start.c_str(), nullptr, 10); }')
        src.append('  run_L%d(m, x, "", x.tq.num());' % lid)
        src.append('}')
        table.append(n)
    src.append('int main() { return c4::main_loop({')
    for n in table:
        src.append('  {"%s", run_%s},' % (n, n))
    src.append('}); }')
    return '\n'.join(src) + '\n'


def build_driver(case, clayout, cxx, std, checked=True):
    """compile the C04 driver of a wire.SchemaCase (sbeppc output is in case.dir/gen)"""
    tag = '' if checked else '_unchecked'
    src = os.path.join(case.dir, 'c04_driver%s.cpp' % tag)
    if not os.path.exists(src):
        tmp = src + '.%d.%s%s' % (os.getpid(), cxx, std)
        open(tmp, 'w').write(gen_driver(case.s['package'], clayout, checked))
        os.replace(tmp, src)
    exe = os.path.join(case.dir, 'c04%s-%s-%s' % (tag, cxx.replace('+', 'p'), std))
    cmd = [cxx, '-std=' + std, '-O0', '-g0', '-w', '-fsanitize=undefined', '-fsanitize-undefined-trap-on-error',
           '-I' + os.path.join(case.dir, 'gen'), '-I' + os.path.join(core.REPO, 'sbepp/src'),
           '-I' + os.path.join(core.VERIF, 'harness'), src, '-o', exe]
    rc, log = core.sh(cmd, timeout=900)
    return (exe if rc == 0 else None), log


# ------------------------------------------------------------------ Layer G: constants in the generated text

ACC_RE = re.compile(
    r'\b(\w+)\(\s*Cursor&&\s*c\)\s*const\s*noexcept.*?c\.template\s+(get_\w+)\s*<.*?>\s*\(\s*\*this\s*(?:,\s*(\d+)\s*,\s*(\d+)\s*\))?',
    re.S)


def parse_generated_accessors(gen_dir, pkg):
    """{member name: (method, rel, abs)} from the generated messages header(s); getters only"""
    out = {}
    for d, _, fs in os.walk(gen_dir):
        for f in fs:
            if not f.endswith('.hpp'):
                continue
            txt = open(os.path.join(d, f), errors='replace').read()
            if 'Cursor&& c' not in txt:
                continue
            for m in ACC_RE.finditer(txt):
                name, method, rel, ab = m.group(1), m.group(2), m.group(3), m.group(4)
                out.setdefault(name, []).append((method, int(rel) if rel is not None else None,
                                                 int(ab) if ab is not None else None))
    return out


def expected_accessors(clayout):
    """{member name: (method, rel, abs)} from the model's layout"""
    out = {}

    def lv(level):
        for f in level['fields']:
            meth = ('get_last_' if f['last'] else 'get_') + ('static_field_view' if f['isView'] else 'value')
            out.setdefault(f['name'], []).append((meth, f['rel'], f['abs']))
        for k, g in enumerate(level['groups']):
            out.setdefault(g['name'], []).append(('get_first_group_view' if k == 0 else 'get_group_view', None, None))
            lv(g['level'])
        for k, d in enumerate(level['datas']):
            first = k == 0 and not level['groups']
            out.setdefault(d['name'], []).append(('get_first_data_view' if first else 'get_data_view', None, None))
    for m in clayout['messages']:
        if 'error' not in m:
            lv(m['level'])
    return out
