"""C08: single-rule-breaking mutators and valid boundary cases over the schema
dicts of vlib/schema.py, an XML renderer that knows which line every entity is
on, and an S-expression renderer that can carry names that are not atoms.

A mutant is `Mut(schema, rule, cls, path, position, expect)`:
  rule      the rule of the property statement that is broken (or probed)
  cls       the diagnostic class (Spec.Rules.DiagClass) the edit must provoke
            (`None` for edits that must be accepted)
  path      entity the diagnostic is located at (list of names, as the Lean side prints it)
  position  where in the schema the edit was applied (top-level type, inline
            composite member, nested composite, ref target, field of a message,
            field of a group at depth n, group/data/message header ...)
  expect    'reject' | 'accept'
Every edit is applied at EVERY position of the schema where it is applicable.
"""
import copy
import random
import re
from collections import namedtuple

from . import schema as S

Mut = namedtuple('Mut', 'schema rule cls path position expect note')

INT_RANGE = dict(S.Gen.INT_RANGE)
INT_RANGE['char'] = (-128, 127)      # `from_chars<char>`: the C++ char of the platform
MULTI_BYTE = [p for p in S.PRIMS if p not in S.SINGLE_BYTE]
HDR_MSG = ['schemaId', 'templateId', 'version', 'blockLength']
HDR_GROUP = ['numInGroup', 'blockLength']
HDR_DATA = ['length', 'varData']

_G = S.Gen(random.Random(0))


def find(types, name):
    for t in types:
        if t['name'].lower() == name.lower():
            return t
    return None


# ------------------------------------------------------------------ walking

def walk_elems(s):
    """(address, path, elem, kind) for every encoding, pre-order.  address = list of keys from the schema dict."""
    def rec(addr, path, e, depth, via):
        yield addr, path, e, ('top-level' if depth == 0 else 'inline-member' if depth == 1 else 'nested-member(depth %d)' % depth)
        if e['k'] == 'composite':
            for i, x in enumerate(e['elems']):
                yield from rec(addr + ['elems', i], path + [x['name']], x, depth + 1, via)
    for i, t in enumerate(s['types']):
        yield from rec(['types', i], ['types', t['name']], t, 0, None)


def walk_levels(s):
    """(address, path, level dict, depth) for every message and group"""
    def rec(addr, path, lvl, depth):
        yield addr, path, lvl, depth
        for i, g in enumerate(lvl.get('groups', [])):
            yield from rec(addr + ['groups', i], path + [g['name']], g, depth + 1)
    for i, m in enumerate(s['messages']):
        yield from rec(['messages', i], ['messages', m['name']], m, 0)


def get(s, addr):
    x = s
    for k in addr:
        x = x[k]
    return x


def level_kind(depth):
    return 'message' if depth == 0 else 'group(depth %d)' % depth


# ------------------------------------------------------------------ layout (third, independent computation)

def is_const(e, types):
    if e['k'] == 'type':
        return e.get('presence') == 'constant'
    if e['k'] == 'ref':
        t = find(types, e['type'])
        return t is not None and t['k'] == 'type' and t.get('presence') == 'constant'
    return False


def elem_size(e, types):
    k = e['k']
    if k == 'type':
        return S.PRIM_SIZE[e['prim']] * e.get('length', 1)
    if k in ('enum', 'set'):
        enc = e['enc']
        return S.PRIM_SIZE[enc] if enc in S.PRIM_SIZE else elem_size(find(types, enc), types)
    if k == 'ref':
        return elem_size(find(types, e['type']), types)
    cur = 0
    for x in e['elems']:
        if is_const(x, types):
            continue
        if x.get('offset') is not None:
            cur = x['offset']
        cur += elem_size(x, types)
    return cur


def member_minima(elems, types):
    """[(index, running minimum)] for the non-constant members"""
    out, cur = [], 0
    for i, x in enumerate(elems):
        if is_const(x, types):
            continue
        out.append((i, cur))
        if x.get('offset') is not None:
            cur = x['offset']
        cur += elem_size(x, types)
    return out, cur


def field_const(f, types):
    if f['type'] in S.PRIM_SIZE:
        return f.get('presence') == 'constant'
    t = find(types, f['type'])
    if t['k'] == 'type':
        return t.get('presence') == 'constant'
    if t['k'] == 'enum':
        return f.get('presence') == 'constant'
    if t['k'] == 'composite':
        return f.get('presence') == 'constant'
    return False


def field_size(f, types):
    return S.PRIM_SIZE[f['type']] if f['type'] in S.PRIM_SIZE else elem_size(find(types, f['type']), types)


def field_minima(fields, types):
    out, cur = [], 0
    for i, f in enumerate(fields):
        if field_const(f, types):
            continue
        out.append((i, cur))
        if f.get('offset') is not None:
            cur = f['offset']
        cur += field_size(f, types)
    return out, cur


def layout_ok(s):
    """every explicit offset / blockLength of `s` respects its minimum (used to
    discard edits that change a size and thereby break a second rule)"""
    types = s['types']
    try:
        for _, _, e, _ in walk_elems(s):
            if e['k'] == 'composite':
                mins, _ = member_minima(e['elems'], types)
                for i, lo in mins:
                    o = e['elems'][i].get('offset')
                    if o is not None and o < lo:
                        return False
        for _, _, l, _ in walk_levels(s):
            mins, end = field_minima(l.get('fields', []), types)
            for i, lo in mins:
                o = l['fields'][i].get('offset')
                if o is not None and o < lo:
                    return False
            if l.get('blockLength') is not None and l['blockLength'] < end:
                return False
    except (KeyError, TypeError, AttributeError, RecursionError):
        return True     # sizes undefined (broken reference): not a layout question
    return True


# ------------------------------------------------------------------ rendering

ATOM = re.compile(r'^[A-Za-z0-9_.\-+]+$')


def _x(v):
    return 'x' + str(v).encode('utf-8').hex()


def _kvx(d, keys):
    """string-valued keys: hex transport (`key!`) when the value is not an atom"""
    out = ''
    for k, k2 in keys:
        v = d.get(k)
        if v is None:
            continue
        v = str(v)
        out += ' (%s %s)' % (k2, v) if ATOM.match(v) else ' (%s! %s)' % (k2, _x(v))
    return out


def elem_sexp(e):
    k = e['k']
    A = S._attrs_sexp
    if k == 'type':
        return '(type%s%s%s)' % (_kvx(e, [('name', 'name'), ('prim', 'prim'), ('length', 'length'),
                                          ('presence', 'presence'), ('offset', 'offset')]),
                                 S._text(e, [('min', 'min'), ('max', 'max'), ('null', 'null'), ('const', 'const'),
                                             ('valueRef', 'valueRef'), ('charEnc', 'charEnc')]), A(e))
    if k == 'composite':
        return '(composite%s%s (elems %s))' % (_kvx(e, [('name', 'name'), ('offset', 'offset')]), A(e),
                                               ' '.join(elem_sexp(x) for x in e['elems']))
    if k == 'ref':
        return '(ref%s%s)' % (_kvx(e, [('name', 'name'), ('type', 'type'), ('offset', 'offset')]), A(e))
    if k == 'enum':
        vals = ' '.join('(v%s (value %s)%s)' % (_kvx(v, [('name', 'name')]), _x(v['value']), A(v)) for v in e['values'])
        return '(enum%s%s (values %s))' % (_kvx(e, [('name', 'name'), ('enc', 'enc'), ('offset', 'offset')]), A(e), vals)
    if k == 'set':
        ch = ' '.join('(c%s (index %s)%s)' % (_kvx(c, [('name', 'name')]), c['index'], A(c)) for c in e['choices'])
        return '(set%s%s (choices %s))' % (_kvx(e, [('name', 'name'), ('enc', 'enc'), ('offset', 'offset')]), A(e), ch)
    raise ValueError(k)


def members_sexp(m):
    A = S._attrs_sexp
    fs = ' '.join('(field%s%s%s)' % (_kvx(f, [('name', 'name'), ('id', 'id'), ('type', 'type'), ('offset', 'offset'),
                                              ('presence', 'presence')]), S._text(f, [('valueRef', 'valueRef')]), A(f))
                  for f in m.get('fields', []))
    gs = ' '.join('(group%s%s %s)' % (_kvx(g, [('name', 'name'), ('id', 'id'), ('dim', 'dim'),
                                               ('blockLength', 'blockLength')]), A(g), members_sexp(g))
                  for g in m.get('groups', []))
    ds = ' '.join('(data%s%s)' % (_kvx(d, [('name', 'name'), ('id', 'id'), ('type', 'type')]), A(d))
                  for d in m.get('datas', []))
    return '(fields %s) (groups %s) (datas %s)' % (fs, gs, ds)


def to_sexp(s):
    ms = ' '.join('(message%s%s %s)' % (_kvx(m, [('name', 'name'), ('id', 'id'), ('blockLength', 'blockLength')]),
                                        S._attrs_sexp(m), members_sexp(m)) for m in s['messages'])
    return '(schema%s%s (types %s) (messages %s))' % (
        _kvx(s, [('package', 'package'), ('id', 'id'), ('version', 'version'), ('byteOrder', 'byteOrder'),
                 ('headerType', 'headerType')]), S._text(s, [('semanticVersion', 'semanticVersion'), ('desc', 'desc')]),
        ' '.join(elem_sexp(e) for e in s['types']), ms)


def entity_paths(s):
    """paths of all entities in the order their opening tags appear in `S.to_xml`"""
    out = [['schema']]

    def elem(path, e):
        out.append(path)
        if e['k'] == 'composite':
            for x in e['elems']:
                elem(path + [x['name']], x)
        elif e['k'] == 'enum':
            out.extend(path + [v['name']] for v in e['values'])
        elif e['k'] == 'set':
            out.extend(path + [c['name']] for c in e['choices'])

    def level(path, lvl):
        out.extend(path + [f['name']] for f in lvl.get('fields', []))
        for g in lvl.get('groups', []):
            out.append(path + [g['name']])
            level(path + [g['name']], g)
        out.extend(path + [d['name']] for d in lvl.get('datas', []))

    for t in s['types']:
        elem(['types', t['name']], t)
    for m in s['messages']:
        out.append(['messages', m['name']])
        level(['messages', m['name']], m)
    return out


OPEN_TAG = re.compile(r'^\s*<(?!/|\?|types>)')


def render(s):
    """(xml text, {line number: entity path})"""
    xml = S.to_xml(s)
    if s.get('_omit_default_dim'):
        # exercise the parser's default `dimensionType` ("groupSizeEncoding"): the attribute is left out
        xml = xml.replace(' dimensionType="groupSizeEncoding"', '')
    lines = [i + 1 for i, l in enumerate(xml.split('\n')) if OPEN_TAG.match(l)]
    paths = entity_paths(s)
    if len(lines) != len(paths):
        raise RuntimeError('line map: %d opening tags, %d entities' % (len(lines), len(paths)))
    return xml, dict(zip(lines, paths))


# ------------------------------------------------------------------ helpers for edits

def fresh(s, base):
    used = set()
    for _, p, e, _ in walk_elems(s):
        used.add(e['name'].lower())
    for _, p, l, _ in walk_levels(s):
        used.add(l['name'].lower())
        for k in ('fields', 'datas'):
            used.update(x['name'].lower() for x in l.get(k, []))
    i = 0
    while True:
        n = '%s%d' % (base, i)
        if n.lower() not in used:
            return n
        i += 1


def rename_type(s, old, new):
    """rename a public type and every reference to it"""
    ol = old.lower()

    def refers(spelling):
        # a reference spelled exactly like a primitive type denotes the built-in type even when a public type has that
        # name in another letter case (`UInt8` next to `uint8`)
        return spelling.lower() == ol and spelling not in S.PRIM_SIZE
    for _, _, e, _ in walk_elems(s):
        if e['k'] == 'ref' and refers(e['type']):
            e['type'] = new
        if e['k'] in ('enum', 'set') and refers(e['enc']):
            e['enc'] = new
        if e.get('valueRef') and e['valueRef'].split('.', 1)[0].lower() == ol:
            e['valueRef'] = new + '.' + e['valueRef'].split('.', 1)[1]
    for _, _, l, _ in walk_levels(s):
        for f in l.get('fields', []):
            if refers(f['type']):
                f['type'] = new
            if f.get('valueRef') and f['valueRef'].split('.', 1)[0].lower() == ol:
                f['valueRef'] = new + '.' + f['valueRef'].split('.', 1)[1]
        for d in l.get('datas', []):
            if d['type'].lower() == ol:
                d['type'] = new
        if 'dim' in l and l['dim'].lower() == ol:
            l['dim'] = new
    if s.get('headerType', 'messageHeader').lower() == ol:
        s['headerType'] = new
    for t in s['types']:
        if t['name'] == old:
            t['name'] = new


def header_composites(s):
    """{lower name: role} of the composites used as message / group / data headers"""
    out = {s.get('headerType', 'messageHeader').lower(): 'message'}
    for _, _, l, d in walk_levels(s):
        if d > 0:
            out[l['dim'].lower()] = 'group'
        for x in l.get('datas', []):
            out[x['type'].lower()] = 'data'
    return out


def required_members(role):
    return {'message': HDR_MSG, 'group': HDR_GROUP, 'data': HDR_DATA}[role]


def header_member_names(s):
    """names that must not be renamed: required members of header composites"""
    roles = header_composites(s)
    out = set()
    for t in s['types']:
        r = roles.get(t['name'].lower())
        if r and t['k'] == 'composite':
            for x in t['elems']:
                if x['name'] in required_members(r) + ['numGroups', 'numVarDataFields']:
                    out.add(id(x))
    return out


def in_header(s, addr):
    """is the encoding at `addr` (or an ancestor) a header composite?"""
    roles = header_composites(s)
    t = s['types'][addr[1]]
    return roles.get(t['name'].lower())


def target_of_header_ref(s):
    """lower names of types referenced through <ref> by header members that the validator inspects
    (the required ones and the optional counters)"""
    roles = header_composites(s)
    out = set()
    for t in s['types']:
        r = roles.get(t['name'].lower())
        if r and t['k'] == 'composite':
            for x in t['elems']:
                if x['k'] == 'ref' and x['name'] in required_members(r) + ['numGroups', 'numVarDataFields']:
                    out.add(x['type'].lower())
    return out


def used_as_encoding_type(s):
    return {e['enc'].lower() for _, _, e, _ in walk_elems(s) if e['k'] in ('enum', 'set')}


# ------------------------------------------------------------------ mutators

def out_of_range_literals(prim):
    """(literal, why) not representable in `prim`"""
    if prim in INT_RANGE:
        lo, hi = INT_RANGE[prim]
        out = [(str(hi + 1), 'max+1'), (str(lo - 1), 'min-1'), ('+1', 'leading plus'), (' 1', 'leading blank'),
               ('1 ', 'trailing blank'), ('0x10', 'hex'), ('1.0', 'fraction'), ('', 'empty'), ('abc', 'text')]
        if lo == 0:
            out.append(('-0', 'minus zero on unsigned'))
        return out
    if prim == 'float':
        return [('3.4028235678e38', 'just above the rounding threshold of FLT_MAX'), ('1e39', 'overflow'),
                ('-1e39', 'negative overflow'), ('1e-46', 'underflow to zero'), ('1e-40', 'inexact subnormal'),
                ('1.1754943157898258e-38', 'just below the tininess threshold'), ('1.1754942106924411e-38', 'largest subnormal, inexact'),
                ('0x1p3', 'hex float'), ('nan', 'lower-case nan'), ('inf', 'lower-case inf'), ('+NaN', 'signed NaN'),
                ('INFINITY', 'INFINITY'), ('1e', 'dangling exponent'), ('.', 'lonely point'), ('1.5f', 'suffix'),
                (' 1.5', 'leading blank'), ('1.5 ', 'trailing blank'), ('', 'empty'), ('1,5', 'comma'),
                ('1e99999999999999999999', 'huge exponent')]
    if prim == 'double':
        return [('1.797693134862315808e308', 'just above the rounding threshold of DBL_MAX'), ('1e309', 'overflow'),
                ('-1e309', 'negative overflow'), ('1e-330', 'underflow to zero'), ('4.9e-324', 'inexact subnormal'),
                ('2.2250738585072011e-308', 'just below the tininess threshold'),
                ('0X1P3', 'hex float'), ('NAN', 'upper-case NAN'), ('Inf', 'mixed-case Inf'), ('-NaN', 'signed NaN'),
                ('1e+', 'dangling exponent'), ('e5', 'no mantissa'), ('1.5d', 'suffix'), ('', 'empty')]
    raise ValueError(prim)


def boundary_literals(prim):
    """(literal, why) representable in `prim`"""
    if prim in INT_RANGE:
        lo, hi = INT_RANGE[prim]
        out = [(str(hi), 'max'), (str(lo), 'min'), ('0', 'zero'), ('007', 'leading zeros')]
        if lo < 0:
            out.append(('-0', 'minus zero'))
        return out
    if prim == 'float':
        return [('3.4028235e38', 'FLT_MAX'), ('3.4028235677e38', 'just below the rounding threshold'),
                ('-3.4028235e38', '-FLT_MAX'), ('1.17549435e-38', 'FLT_MIN'), ('NaN', 'NaN'), ('INF', 'INF'),
                ('-INF', '-INF'), ('+INF', '+INF'), ('1.', 'trailing point'), ('.5', 'leading point'),
                ('1E+5', 'exponent'), ('-0', 'minus zero'), ('+1.5', 'plus sign'), ('16777217', 'inexact integer'),
                ('0e99999999999999999999', 'zero with a huge exponent'),
                ('1.40129846432481707092372958328991613128026194187651577175706828388979108268586060148663818836212158203125e-45',
                 'exact smallest subnormal'),
                ('1.17549433e-38', 'below FLT_MIN but rounds up to it: not tiny after rounding')]
    if prim == 'double':
        return [('1.7976931348623157e308', 'DBL_MAX'), ('1.797693134862315807e308', 'just below the rounding threshold'),
                ('2.2250738585072014e-308', 'DBL_MIN'), ('2.22507385850720126e-308', 'below DBL_MIN but rounds up to it'),
                ('NaN', 'NaN'), ('-INF', '-INF'), ('1e-5', 'small'),
                ('0.1', 'inexact'), ('-1.5E-3', 'exponent')]
    raise ValueError(prim)


def m_offsets(s):
    types = s['types']
    for addr, path, e, kind in walk_elems(s):
        if e['k'] != 'composite':
            continue
        mins, _ = member_minima(e['elems'], types)
        for i, lo in mins:
            x = e['elems'][i]
            pos = '%s member of %s composite (%s)' % (x['k'], kind, 'header' if in_header(s, addr) else 'plain')
            if lo > 0:
                c = copy.deepcopy(s)
                get(c, addr)['elems'][i]['offset'] = lo - 1
                yield Mut(c, 'offset', 'offsetTooSmall', path + [x['name']], pos, 'reject', 'offset %d < %d' % (lo - 1, lo))
            c = copy.deepcopy(s)
            if x.get('offset') is None or x['offset'] > lo:
                get(c, addr)['elems'][i]['offset'] = lo
                # members behind keep their own offsets: still valid because minima only shrink
                yield Mut(c, 'offset', None, path + [x['name']], pos, 'accept', 'offset exactly at the minimum %d' % lo)
    for addr, path, l, depth in walk_levels(s):
        mins, _ = field_minima(l.get('fields', []), types)
        for i, lo in mins:
            f = l['fields'][i]
            t = find(types, f['type'])
            pos = 'field(%s) of %s' % ('primitive' if t is None else t['k'], level_kind(depth))
            if lo > 0:
                c = copy.deepcopy(s)
                get(c, addr)['fields'][i]['offset'] = lo - 1
                yield Mut(c, 'offset', 'offsetTooSmall', path + [f['name']], pos, 'reject', 'offset %d < %d' % (lo - 1, lo))
            if f.get('offset') is None or f['offset'] > lo:
                c = copy.deepcopy(s)
                get(c, addr)['fields'][i]['offset'] = lo
                yield Mut(c, 'offset', None, path + [f['name']], pos, 'accept', 'offset exactly at the minimum %d' % lo)


U64 = 2 ** 64


def m_offset_overflow(s):
    """a non-constant member must end at or before 2^64-1: `offset_t` holds every running offset
    (sbeppc fix 0032; before it the running offset wrapped around and the next member landed at 0).
    Rejecting edits: the offset at which the member ends at 2^64; acceptance twins: one byte less."""
    types = s['types']
    # (1) fresh, unused composites (their size does not propagate anywhere)
    pub = next((t for t in types if t['k'] == 'type' and t.get('presence') != 'constant' and
                elem_size(t, types) > 0), None)
    fam = [
        ([{'k': 'type', 'name': 'a', 'prim': 'uint32', 'offset': U64 - 4}, {'k': 'type', 'name': 'b', 'prim': 'uint32'}],
         ['a'], 'custom offset 2^64-4 + 4 bytes'),
        ([{'k': 'type', 'name': 'a', 'prim': 'uint8', 'offset': U64 - 2}, {'k': 'type', 'name': 'b', 'prim': 'uint8'}],
         ['b'], 'default placement at 2^64-1 + 1 byte'),
        ([{'k': 'type', 'name': 'k', 'prim': 'uint8', 'presence': 'constant', 'const': '1'},
          {'k': 'type', 'name': 'a', 'prim': 'uint64', 'offset': U64 - 8}], ['a'], 'custom offset 2^64-8 + 8 bytes, behind a constant'),
        ([{'k': 'composite', 'name': 'inner', 'elems': [{'k': 'type', 'name': 'x', 'prim': 'uint16', 'offset': U64 - 2}]}],
         ['inner', 'x'], 'member of an inline composite: 2^64-2 + 2 bytes'),
        ([{'k': 'composite', 'name': 'inner', 'elems': [{'k': 'type', 'name': 'x', 'prim': 'uint16'}], 'offset': U64 - 2}],
         ['inner'], 'inline composite member at 2^64-2 + 2 bytes'),
        ([{'k': 'type', 'name': 'a', 'prim': 'uint32', 'offset': U64 - 5}], None, 'the largest offset that fits: 2^64-5 + 4 bytes = 2^64-1'),
        ([{'k': 'type', 'name': 'a', 'prim': 'uint8', 'offset': U64 - 2},
          {'k': 'type', 'name': 'k', 'prim': 'uint8', 'presence': 'constant', 'const': '1'}], None,
         'a constant behind a member that ends at 2^64-1'),
        ([{'k': 'type', 'name': 'a', 'prim': 'char', 'length': 0, 'offset': U64 - 1}], None, 'zero-length member at 2^64-1'),
    ]
    if pub is not None:
        sz = elem_size(pub, types)
        fam.append(([{'k': 'ref', 'name': 'r', 'type': pub['name'], 'offset': U64 - sz}], ['r'], 'ref member at 2^64-%d + %d bytes' % (sz, sz)))
        fam.append(([{'k': 'ref', 'name': 'r', 'type': pub['name'], 'offset': U64 - sz - 1}], None, 'ref member ending at 2^64-1'))
    for members, at, why in fam:
        c = copy.deepcopy(s)
        name = fresh(s, 'OvfC')
        c['types'].append({'k': 'composite', 'name': name, 'elems': copy.deepcopy(members)})
        if at is None:
            yield Mut(c, 'offset-overflow', None, ['types', name], 'fresh top-level composite', 'accept', why)
        else:
            yield Mut(c, 'offset-overflow', 'offsetOverflow', ['types', name] + at, 'fresh top-level composite', 'reject', why)
    # (2) the last non-constant member of every existing composite
    for addr, path, e, kind in walk_elems(s):
        if e['k'] != 'composite':
            continue
        mins, _ = member_minima(e['elems'], types)
        if not mins:
            continue
        i, lo = mins[-1]
        x = e['elems'][i]
        sz = elem_size(x, types)
        if sz <= 0 or sz >= U64:
            continue
        pos = '%s member of %s composite (%s)' % (x['k'], kind, 'header' if in_header(s, addr) else 'plain')
        c = copy.deepcopy(s)
        get(c, addr)['elems'][i]['offset'] = U64 - sz
        yield Mut(c, 'offset-overflow', 'offsetOverflow', path + [x['name']], pos, 'reject', 'offset 2^64-%d + %d bytes' % (sz, sz))
    # (3) the last non-constant field of every level
    mh = find(types, s.get('headerType', 'messageHeader'))
    for addr, path, l, depth in walk_levels(s):
        mins, _ = field_minima(l.get('fields', []), types)
        if not mins:
            continue
        i, lo = mins[-1]
        f = l['fields'][i]
        sz = field_size(f, types)
        if sz <= 0 or sz >= U64:
            continue
        t = find(types, f['type'])
        pos = 'field(%s) of %s' % ('primitive' if t is None else t['k'], level_kind(depth))
        c = copy.deepcopy(s)
        get(c, addr)['fields'][i]['offset'] = U64 - sz
        yield Mut(c, 'offset-overflow', 'offsetOverflow', path + [f['name']], pos, 'reject', 'offset 2^64-%d + %d bytes' % (sz, sz))
        # twin: the block length 2^64-1 must be representable in the level header
        h = mh if depth == 0 else find(types, l['dim'])
        if h is not None and h['k'] == 'composite':
            tt, _ = _member_type(s, h, 'blockLength')
            if tt is not None and tt.get('prim') == 'uint64':
                c = copy.deepcopy(s)
                lv = get(c, addr)
                lv['fields'][i]['offset'] = U64 - sz - 1
                lv['blockLength'] = None
                yield Mut(c, 'offset-overflow', None, path + [f['name']], pos, 'accept', 'field ends at 2^64-1 (uint64 blockLength header)')
    # (4) a fresh group under a fresh 64-bit dimension composite: both verdicts at group level whatever the schema's headers are
    if s['messages']:
        for off, cls in ((U64 - 4, 'offsetOverflow'), (U64 - 5, None)):
            c = copy.deepcopy(s)
            dim = fresh(s, 'OvfDim')
            c['types'].append({'k': 'composite', 'name': dim, 'elems': [{'k': 'type', 'name': 'blockLength', 'prim': 'uint64'},
                                                                        {'k': 'type', 'name': 'numInGroup', 'prim': 'uint8'}]})
            g = _mk_group(s, fresh(s, 'OvfG'), dim)
            g['fields'][0]['offset'] = off
            c['messages'][0].setdefault('groups', []).append(g)
            yield Mut(c, 'offset-overflow', cls, ['messages', c['messages'][0]['name'], g['name'], g['fields'][0]['name']],
                      'field(primitive) of a fresh group with a uint64 blockLength header', 'reject' if cls else 'accept',
                      'offset %s + 4 bytes' % ('2^64-4' if cls else '2^64-5'))


def m_block_length(s):
    types = s['types']
    for addr, path, l, depth in walk_levels(s):
        _, end = field_minima(l.get('fields', []), types)
        if end > 0:
            c = copy.deepcopy(s)
            get(c, addr)['blockLength'] = end - 1
            yield Mut(c, 'blockLength', 'blockLengthTooSmall', path, level_kind(depth), 'reject', '%d < %d' % (end - 1, end))
        c = copy.deepcopy(s)
        get(c, addr)['blockLength'] = end
        yield Mut(c, 'blockLength', None, path, level_kind(depth), 'accept', 'blockLength exactly the content size %d' % end)


def m_values(s, rng):
    types = s['types']
    hdr_targets = target_of_header_ref(s)
    for addr, path, e, kind in walk_elems(s):
        if e['k'] == 'type' and e.get('presence') != 'constant' and e.get('length', 1) == 1 \
                and (len(addr) > 2 or e['name'].lower() not in hdr_targets or True):
            prim = e['prim']
            for attr in ('min', 'max', 'null'):
                for lit, why in out_of_range_literals(prim):
                    c = copy.deepcopy(s)
                    t = get(c, addr)
                    t[attr] = lit
                    if attr == 'null' and t.get('presence') != 'optional':
                        # nullValue of a non-optional type is ignored (warning)
                        if why in ('max+1', 'overflow'):
                            yield Mut(c, 'value', None, path, '%s %sValue %s' % (kind, attr, prim), 'accept',
                                      'nullValue of a non-optional type is ignored: ' + why)
                        continue
                    yield Mut(c, 'value', 'valueOutOfRange', path, '%s %sValue %s' % (kind, attr, prim), 'reject',
                              '%r: %s' % (lit, why))
                for lit, why in boundary_literals(prim):
                    c = copy.deepcopy(s)
                    get(c, addr)[attr] = lit
                    yield Mut(c, 'value', None, path, '%s %sValue %s' % (kind, attr, prim), 'accept', '%r: %s' % (lit, why))
        if e['k'] == 'type' and e.get('presence') == 'constant' and e['prim'] != 'char' and e.get('const') is not None:
            for lit, why in out_of_range_literals(e['prim']):
                if lit == '':
                    continue    # empty content = no value at all (different rule)
                c = copy.deepcopy(s)
                get(c, addr)['const'] = lit
                yield Mut(c, 'value', 'valueOutOfRange', path, '%s constant %s' % (kind, e['prim']), 'reject', '%r: %s' % (lit, why))
            for lit, why in boundary_literals(e['prim']):
                c = copy.deepcopy(s)
                get(c, addr)['const'] = lit
                yield Mut(c, 'value', None, path, '%s constant %s' % (kind, e['prim']), 'accept', '%r: %s' % (lit, why))
        if e['k'] == 'enum' and e['values']:
            enc = e['enc']
            prim = enc if enc in S.PRIM_SIZE else find(types, enc)['prim']
            named = enc not in S.PRIM_SIZE
            pos = '%s enum over %s%s' % (kind, prim, ' (named type)' if named else '')
            vi = rng.randrange(len(e['values']))
            vname = e['values'][vi]['name']
            if prim == 'char':
                bad = [('AB', 'two characters'), ('65', 'a number')]
                good = [('Z', 'one character'), ('0', 'a digit character')]
            else:
                bad = [x for x in out_of_range_literals(prim) if x[0] != '']
                good = boundary_literals(prim)
            for lit, why in bad:
                c = copy.deepcopy(s)
                get(c, addr)['values'][vi]['value'] = lit
                yield Mut(c, 'value', 'valueOutOfRange', path + [vname], pos, 'reject', '%r: %s' % (lit, why))
            def _same(a, b):
                try:
                    return int(str(a)) == int(str(b))
                except ValueError:
                    return str(a) == str(b)
            for lit, why in good:
                # a boundary value that another validValue of the enum already has is a duplicate (rejected), not an
                # acceptance case
                if any(_same(lit, x['value']) for j, x in enumerate(e['values']) if j != vi):
                    continue
                c = copy.deepcopy(s)
                get(c, addr)['values'][vi]['value'] = lit
                yield Mut(c, 'value', None, path + [vname], pos, 'accept', '%r: %s' % (lit, why))


def m_choices(s, rng):
    types = s['types']
    for addr, path, e, kind in walk_elems(s):
        if e['k'] != 'set' or not e['choices']:
            continue
        enc = e['enc']
        prim = enc if enc in S.PRIM_SIZE else find(types, enc)['prim']
        w = S.PRIM_SIZE[prim] * 8
        ci = rng.randrange(len(e['choices']))
        cname = e['choices'][ci]['name']
        pos = '%s set over %s' % (kind, prim)
        for idx, cls, exp, why in ((w, 'choiceIndexOutOfRange', 'reject', 'index = width'),
                                   (w - 1, None, 'accept', 'index = width-1'), (0, None, 'accept', 'index 0'),
                                   (255, 'choiceIndexOutOfRange', 'reject', 'index 255'),
                                   (256, 'choiceIndexNotNumeric', 'reject', 'index 256 is not a choice_index_t')):
            c = copy.deepcopy(s)
            get(c, addr)['choices'][ci]['index'] = idx
            yield Mut(c, 'choice', cls, path + [cname], pos, exp, why)


def m_unknown(s):
    nope = fresh(s, 'Nope')
    for addr, path, e, kind in walk_elems(s):
        if e['k'] == 'ref':
            c = copy.deepcopy(s)
            get(c, addr)['type'] = nope
            hdr = in_header(s, addr)
            yield Mut(c, 'reference', 'unknownEncoding', path, '%s ref%s' % (kind, ' in %s header' % hdr if hdr else ''),
                      'reject', 'ref to a type that does not exist')
        if e['k'] in ('enum', 'set'):
            c = copy.deepcopy(s)
            get(c, addr)['enc'] = nope
            yield Mut(c, 'reference', 'unknownEncoding', path, '%s %s encodingType' % (kind, e['k']), 'reject', '')
        if e['k'] == 'type':
            for bad in (('int128', 'Char', 'uint', 'INT8', 'long')[len(path) * 7 % 5],):
                c = copy.deepcopy(s)
                get(c, addr)['prim'] = bad
                yield Mut(c, 'reference', 'unknownPrimitiveType', path, '%s type primitiveType' % kind, 'reject', bad)
    for addr, path, l, depth in walk_levels(s):
        for i, f in enumerate(l.get('fields', [])):
            c = copy.deepcopy(s)
            get(c, addr)['fields'][i]['type'] = nope
            yield Mut(c, 'reference', 'unknownFieldType', path + [f['name']], 'field of %s' % level_kind(depth), 'reject', '')
        for i, d in enumerate(l.get('datas', [])):
            c = copy.deepcopy(s)
            get(c, addr)['datas'][i]['type'] = nope
            yield Mut(c, 'reference', 'headerUnknown', path + [d['name']], 'data of %s' % level_kind(depth), 'reject', '')
        if depth > 0:
            c = copy.deepcopy(s)
            get(c, addr)['dim'] = nope
            yield Mut(c, 'reference', 'headerUnknown', path, 'dimensionType of %s' % level_kind(depth), 'reject', '')
    c = copy.deepcopy(s)
    c['headerType'] = nope
    yield Mut(c, 'reference', 'headerUnknown', ['schema'], 'headerType', 'reject', '')


def m_cycles(s, rng):
    comps = [(addr, path, e) for addr, path, e, _ in walk_elems(s) if e['k'] == 'composite']
    tops = [(a, p, e) for a, p, e in comps if len(a) == 2]
    for addr, path, e in comps:
        top = s['types'][addr[1]]
        c = copy.deepcopy(s)
        get(c, addr)['elems'].append({'k': 'ref', 'name': fresh(s, 'cyc'), 'type': top['name']})
        yield Mut(c, 'cycle', 'cyclicReference', ['types', top['name']],
                  'self reference from %s composite' % ('top-level' if len(addr) == 2 else 'nested'), 'reject', '')
    # 2-cycles and 3-cycles between top-level composites
    for n in (2, 3):
        if len(tops) >= n:
            for _ in range(3):
                pick = rng.sample(tops, n)
                c = copy.deepcopy(s)
                for k in range(n):
                    a = pick[k][0]
                    b = pick[(k + 1) % n][2]
                    get(c, a)['elems'].append({'k': 'ref', 'name': fresh(s, 'cyc'), 'type': b['name']})
                yield Mut(c, 'cycle', 'cyclicReference', None, '%d-cycle between top-level composites' % n, 'reject',
                          ' -> '.join(p[2]['name'] for p in pick))
    # a long acyclic chain must be accepted
    if tops:
        c = copy.deepcopy(s)
        prev = None
        for k in range(6):
            nm = fresh(c, 'Chain')
            el = [{'k': 'type', 'name': 'x', 'prim': 'uint8'}]
            if prev:
                el.append({'k': 'ref', 'name': 'next', 'type': prev})
                el.append({'k': 'ref', 'name': 'again', 'type': prev})
            c['types'].append({'k': 'composite', 'name': nm, 'elems': el})
            prev = nm
        yield Mut(c, 'cycle', None, None, 'acyclic chain of 6 composites with diamond references', 'accept', '')


def m_wrong_kind(s, rng):
    types = s['types']
    by_kind = {}
    for t in types:
        by_kind.setdefault(t['k'], []).append(t)
    plain = [t for t in by_kind.get('type', []) if t.get('presence') != 'constant']
    arrays = [t for t in plain if t.get('length', 1) != 1]
    floats = [t for t in plain if t['prim'] in ('float', 'double') and t.get('length', 1) == 1]
    signed = [t for t in plain if t['prim'] in ('int8', 'int16', 'int32', 'int64', 'char') and t.get('length', 1) == 1]

    def other(kinds):
        xs = [t for k in kinds for t in by_kind.get(k, [])]
        return rng.choice(xs) if xs else None

    for addr, path, e, kind in walk_elems(s):
        if e['k'] in ('enum', 'set'):
            for tgt, cls, why in ((other(['composite']), 'notAType', 'composite'), (other(['set']), 'notAType', 'set'),
                                  (other(['enum']), 'notAType', 'enum'),
                                  (rng.choice(arrays) if arrays else None, 'encodingTypeLength', 'array type')):
                if tgt is None or tgt is e:
                    continue
                c = copy.deepcopy(s)
                get(c, addr)['enc'] = tgt['name']
                yield Mut(c, 'kind', cls, path, '%s %s encodingType -> %s' % (kind, e['k'], why), 'reject', tgt['name'])
        if e['k'] == 'enum':
            for enc in ['float', 'double'] + ([rng.choice(floats)['name']] if floats else []):
                c = copy.deepcopy(s)
                get(c, addr)['enc'] = enc
                yield Mut(c, 'kind', 'enumTypeNotIntegral', path, '%s enum encodingType -> floating point' % kind, 'reject', enc)
        if e['k'] == 'set':
            for enc in ['int8', 'int32', 'char', 'float'] + ([rng.choice(signed)['name']] if signed else []):
                c = copy.deepcopy(s)
                get(c, addr)['enc'] = enc
                yield Mut(c, 'kind', 'setTypeNotUnsigned', path, '%s set encodingType -> not unsigned' % kind, 'reject', enc)
    for addr, path, l, depth in walk_levels(s):
        for i, d in enumerate(l.get('datas', [])):
            for k in ('type', 'enum', 'set'):
                tgt = other([k])
                if tgt is None:
                    continue
                c = copy.deepcopy(s)
                get(c, addr)['datas'][i]['type'] = tgt['name']
                yield Mut(c, 'kind', 'headerNotComposite', ['types', tgt['name']], 'data type of %s -> %s' % (level_kind(depth), k),
                          'reject', '')
        if depth > 0:
            for k in ('type', 'enum', 'set'):
                tgt = other([k])
                if tgt is None:
                    continue
                c = copy.deepcopy(s)
                get(c, addr)['dim'] = tgt['name']
                yield Mut(c, 'kind', 'headerNotComposite', ['types', tgt['name']], 'dimensionType of %s -> %s' % (level_kind(depth), k),
                          'reject', '')
        for i, f in enumerate(l.get('fields', [])):
            t = find(types, f['type'])
            if t is not None and t['k'] == 'composite':
                c = copy.deepcopy(s)
                get(c, addr)['fields'][i]['presence'] = 'constant'
                yield Mut(c, 'kind', 'compositeFieldConstant', path + [f['name']], 'composite field of %s declared constant' % level_kind(depth),
                          'reject', '')
            if t is not None and t['k'] == 'composite':
                c = copy.deepcopy(s)
                get(c, addr)['fields'][i]['presence'] = 'optional'
                yield Mut(c, 'kind', None, path + [f['name']], 'composite field of %s declared optional' % level_kind(depth),
                          'accept', '')
    for k in ('type', 'enum', 'set'):
        tgt = other([k])
        if tgt is not None:
            c = copy.deepcopy(s)
            c['headerType'] = tgt['name']
            yield Mut(c, 'kind', 'headerNotComposite', ['types', tgt['name']], 'headerType -> %s' % k, 'reject', '')


def m_arrays(s):
    for addr, path, e, kind in walk_elems(s):
        if e['k'] != 'type' or e.get('presence') == 'constant':
            continue
        hdr = in_header(s, addr)
        if hdr and (e['name'] in required_members(hdr) + ['numGroups', 'numVarDataFields']):
            continue        # would (also) break a header rule: see m_headers / m_header_types
        if e['name'].lower() in target_of_header_ref(s) | used_as_encoding_type(s) and len(addr) == 2:
            continue
        for n in (0, 2, 7):
            c = copy.deepcopy(s)
            t = get(c, addr)
            t['length'] = n
            for k in ('min', 'max', 'null'):
                t.pop(k, None)
            if e['prim'] in MULTI_BYTE:
                yield Mut(c, 'array', 'arrayNotSingleByte', path, '%s type %s' % (kind, e['prim']), 'reject', 'length %d' % n)
            else:
                yield Mut(c, 'array', None, path, '%s type %s' % (kind, e['prim']), 'accept', 'length %d' % n)


def m_headers(s):
    roles = header_composites(s)
    types = s['types']
    for ti, t in enumerate(types):
        role = roles.get(t['name'].lower())
        if not role or t['k'] != 'composite':
            continue
        hp = ['types', t['name']]
        for req in required_members(role):
            idx = [i for i, x in enumerate(t['elems']) if x['name'] == req]
            if not idx:
                continue
            i = idx[0]
            x = t['elems'][i]
            via = 'ref' if x['k'] == 'ref' else 'inline'
            pos = '%s header member %s (%s)' % (role, req, via)
            # missing
            c = copy.deepcopy(s)
            del c['types'][ti]['elems'][i]
            yield Mut(c, 'header', 'headerMissingElement', hp, pos, 'reject', 'member removed')
            # renamed in case only: lookup of members is case-sensitive
            c = copy.deepcopy(s)
            c['types'][ti]['elems'][i]['name'] = req.upper() if req.upper() != req else req.lower()
            yield Mut(c, 'header', 'headerMissingElement', hp, pos, 'reject', 'member name differs in case')
            # wrong kind of member
            for k, repl in (('composite', {'k': 'composite', 'name': req, 'elems': [{'k': 'type', 'name': 'v', 'prim': 'uint16'}]}),
                            ('enum', {'k': 'enum', 'name': req, 'enc': 'uint8', 'values': [{'name': 'A', 'value': 1}]}),
                            ('set', {'k': 'set', 'name': req, 'enc': 'uint8', 'choices': [{'name': 'a', 'index': 0}]})):
                c = copy.deepcopy(s)
                c['types'][ti]['elems'][i] = repl
                yield Mut(c, 'header', 'headerElementKind', hp + [req], pos, 'reject', 'member is a %s' % k)
            for k in ('composite', 'enum', 'set'):
                tg = [y for y in types if y['k'] == k and y is not t]
                if tg:
                    c = copy.deepcopy(s)
                    c['types'][ti]['elems'][i] = {'k': 'ref', 'name': req, 'type': tg[0]['name']}
                    yield Mut(c, 'header', 'headerElementRefKind', hp + [req], pos, 'reject', 'ref to a %s' % k)
            # array / constant, directly or through the ref target
            if req == 'varData':
                tgt_addr = None
                for n in (1, 2):
                    c = copy.deepcopy(s)
                    if x['k'] == 'type':
                        c['types'][ti]['elems'][i]['length'] = n
                    else:
                        find(c['types'], x['type'])['length'] = n
                    yield Mut(c, 'header', 'varDataLength', hp + [req], pos, 'reject', 'varData length %d' % n)
                continue
            c = copy.deepcopy(s)
            tt = c['types'][ti]['elems'][i] if x['k'] == 'type' else find(c['types'], x['type'])
            prim = tt['prim']
            tt['length'] = 2
            for k in ('min', 'max', 'null'):
                tt.pop(k, None)
            if prim in MULTI_BYTE:
                # the type itself is an invalid array: reported by validate_types first
                yield Mut(c, 'header', 'arrayNotSingleByte', (hp + [req]) if x['k'] == 'type' else ['types', tt['name']],
                          pos, 'reject', 'multi-byte array as header member')
            else:
                yield Mut(c, 'header', 'headerElementArray', hp + [req], pos, 'reject', 'array member')
            c = copy.deepcopy(s)
            tt = c['types'][ti]['elems'][i] if x['k'] == 'type' else find(c['types'], x['type'])
            tt['length'] = 0
            for k in ('min', 'max', 'null'):
                tt.pop(k, None)
            if tt['prim'] in MULTI_BYTE:
                yield Mut(c, 'header', 'arrayNotSingleByte', (hp + [req]) if x['k'] == 'type' else ['types', tt['name']],
                          pos, 'reject', 'multi-byte zero-length array as header member')
            else:
                yield Mut(c, 'header', 'headerElementArray', hp + [req], pos, 'reject', 'zero-length member')
            c = copy.deepcopy(s)
            tt = c['types'][ti]['elems'][i] if x['k'] == 'type' else find(c['types'], x['type'])
            tt['presence'] = 'constant'
            tt['const'] = '1'
            for k in ('min', 'max', 'null'):
                tt.pop(k, None)
            if tt['prim'] == 'char':
                tt['const'] = 'A'
            yield Mut(c, 'header', 'headerElementConstant', hp + [req], pos, 'reject', 'constant member')
        # extra members, reordered members: accepted
        c = copy.deepcopy(s)
        c['types'][ti]['elems'].append({'k': 'type', 'name': fresh(s, 'extra'), 'prim': 'uint32'})
        if role == 'data':
            yield Mut(c, 'header', 'dataHeaderLayout', hp + ['length'], 'data header: extra member behind varData', 'reject', 'layout')
        else:
            yield Mut(c, 'header', None, hp, '%s header with an extra trailing member' % role, 'accept', '')


def m_data_header_layout(s):
    """the runtime reads a <data> length at offset 0 and the payload right behind it: the header
    composite must occupy exactly the bytes of its `length` member (sbeppc: validate_data_header_layout,
    diagnostic located at the `length` member)"""
    roles = header_composites(s)
    for ti, t in enumerate(s['types']):
        if roles.get(t['name'].lower()) != 'data' or t['k'] != 'composite':
            continue
        hp = ['types', t['name']]
        c = copy.deepcopy(s)
        c['types'][ti]['elems'].insert(0, {'k': 'type', 'name': fresh(s, 'pad'), 'prim': 'uint16'})
        yield Mut(c, 'header', 'dataHeaderLayout', hp + ['length'], 'data header: member in front of `length`', 'reject', 'layout')
        c = copy.deepcopy(s)
        c['types'][ti]['elems'].insert(0, {'k': 'type', 'name': fresh(s, 'pad'), 'prim': 'char', 'length': 0})
        yield Mut(c, 'header', None, hp, 'data header: empty member in front of `length`', 'accept', 'layout')
        c = copy.deepcopy(s)
        c['types'][ti]['elems'].reverse()
        if c['types'][ti]['elems'] != t['elems']:
            yield Mut(c, 'header', None, hp, 'data header: varData (empty) before length', 'accept', 'layout')
        c = copy.deepcopy(s)
        li = [i for i, x in enumerate(t['elems']) if x['name'] == 'length']
        if li and t['elems'][li[0]].get('offset') in (None, 0) and li[0] == 0:
            c['types'][ti]['elems'][li[0]]['offset'] = 3
            yield Mut(c, 'header', 'dataHeaderLayout', hp + ['length'], 'data header: length at offset 3', 'reject', 'layout')
            c = copy.deepcopy(s)
            c['types'][ti]['elems'][li[0]]['offset'] = 0
            yield Mut(c, 'header', None, hp, 'data header: length at explicit offset 0', 'accept', 'layout')
        vi = [i for i, x in enumerate(t['elems']) if x['name'] == 'varData']
        if vi and li and vi[0] > li[0]:
            c = copy.deepcopy(s)
            c['types'][ti]['elems'][vi[0]]['offset'] = elem_size(t['elems'][li[0]], s['types']) + 1
            yield Mut(c, 'header', 'dataHeaderLayout', hp + ['length'], 'data header: gap between length and varData', 'reject', 'layout')


def all_named(s):
    """(kind, address-of-container, key, index, path-prefix) for every named entity"""
    hm = header_member_names(s)
    for addr, path, e, kind in walk_elems(s):
        if id(e) not in hm:
            yield e['k'] + ' (' + kind + ')', addr, path[:-1], e
        if e['k'] == 'enum':
            for i, v in enumerate(e['values']):
                yield 'validValue (%s enum)' % kind, addr + ['values', i], path, v
        if e['k'] == 'set':
            for i, c in enumerate(e['choices']):
                yield 'choice (%s set)' % kind, addr + ['choices', i], path, c
    for addr, path, l, depth in walk_levels(s):
        yield ('message' if depth == 0 else 'group(depth %d)' % depth), addr, path[:-1], l
        for i, f in enumerate(l.get('fields', [])):
            yield 'field of %s' % level_kind(depth), addr + ['fields', i], path, f
        for i, d in enumerate(l.get('datas', [])):
            yield 'data of %s' % level_kind(depth), addr + ['datas', i], path, d


# ISO C++ [lex.key]: keywords (table 5, C++20/23) and alternative tokens (table 6).  Written out here, independently of
# the validator's table and of the Lean lists, so that a keyword dropped from either of them shows up as a disagreement.
ALL_KEYWORDS = (
    'alignas alignof asm auto bool break case catch char char8_t char16_t char32_t class concept const consteval '
    'constexpr constinit const_cast continue co_await co_return co_yield decltype default delete do double '
    'dynamic_cast else enum explicit export extern false float for friend goto if inline int long mutable namespace '
    'new noexcept nullptr operator private protected public register reinterpret_cast requires return short signed '
    'sizeof static static_assert static_cast struct switch template this thread_local throw true try typedef typeid '
    'typename union unsigned using virtual void volatile wchar_t while '
    'and and_eq bitand bitor compl not not_eq or or_eq xor xor_eq').split()
# asked for by name: alternative tokens, C++11/20 additions
KEYWORDS_ALWAYS = ['and', 'not_eq', 'xor_eq', 'alignas', 'char8_t', 'co_await', 'concept', 'requires']
# identifiers with special meaning ([lex.name] table 4) are NOT keywords: usable as names (the generated code compiles
# with them in every position under -std=c++11/17/20/23)
CONTEXTUAL = ['final', 'override', 'import', 'module']
# characters that are neither alphanumeric nor `_` (the last one is a two-byte UTF-8 letter)
BAD_CHARS = ['-', '.', '$', '@', ' ', '+', ':', '#', '~', '\u00e9']
# `<name>.hpp` must fit NAME_MAX = 255: public types and messages become file names
FILE_NAME_MAX = 251


def name_cases(old, is_file, is_public_type):
    """every probe of the naming rule for an entity currently called `old`:
    (new name, rule, class or None, what).  The rule is per character:
    non-empty, every character alphanumeric or `_`, the first one not a digit; C++ keywords and
    alternative tokens (case-sensitive) are refused on top of that."""
    out = []
    mid = max(1, len(old) // 2)
    left, right = (old[:mid], old[mid:]) if len(old) > 1 else (old, old)
    for ch in BAD_CHARS:
        shown = 'U+00E9' if ch == '\u00e9' else 'space' if ch == ' ' else ch
        out.append((ch + old, 'name', 'invalidName', 'only the FIRST character is invalid: `%s`' % shown))
        out.append((old + ch, 'name', 'invalidName', 'only the LAST character is invalid: `%s`' % shown))
        out.append((left + ch + right, 'name', 'invalidName', 'only a MIDDLE character is invalid: `%s`' % shown))
    for d in '7':
        out.append((d + old, 'name', 'invalidName', 'leading digit %s' % d))
        out.append((old + d, 'name', None, 'trailing digit %s' % d))
        out.append((left + d + right, 'name', None, 'digit %s in the middle' % d))
    for one, cls in (('_', None), ('a', None), ('-', 'invalidName'), ('9', 'invalidName'), ('\u00e9', 'invalidName')):
        out.append((one, 'name', cls, 'single-character name'))
    out.append(('', 'name', 'attrEmpty', 'empty name'))
    for n in (2, 64, 65, 255, 256, 1000):
        if is_file and n > FILE_NAME_MAX:
            n = FILE_NAME_MAX if n == 255 else None
        if n and n > len(old):
            out.append((old + 'x' * (n - len(old)), 'name', None, '%d characters' % n))
    for new, what in (('_' + old, 'leading underscore'), (old + '_', 'trailing underscore'), ('__' + old, 'two leading underscores'),
                      (old + '__', 'two trailing underscores'), (left + '__' + right, 'double underscore inside'),
                      ('__', 'only underscores'), ('__reserved', 'reserved form `__x`'), ('_Upper', 'reserved form `_X`'),
                      ('_9', 'underscore then digit')):
        out.append((new, 'name', None, what + ' (sbeppc only warns about reserved C++ identifiers)'))
    for kw in KEYWORDS_ALWAYS + [k for k in ALL_KEYWORDS if k not in KEYWORDS_ALWAYS]:
        out.append((kw, 'keyword', 'keywordName', 'C++ keyword / alternative token'))
    for kw in CONTEXTUAL:
        out.append((kw, 'keyword', None, 'identifier with special meaning, not a keyword'))
    for kw in ('Class', 'AND', 'Not_eq', 'class_', '_class', 'nott'):
        out.append((kw, 'keyword', None, 'differs from a keyword (keywords are case-sensitive, whole-name)'))
    seen, res = set(), []
    for c in out:
        if c[0] != old and c[0] not in seen:
            seen.add(c[0])
            res.append(c)
    return res


def m_names(s, rng, rotate=0):
    """`rotate` = 0: every probe of `name_cases` at every named position (of the keyword table: the ones asked for by name
    and a slice of 12 that rotates with the position).  `rotate` = n > 0: every position gets n probes, a window that
    moves with the position, so that over the positions of a run every probe meets every kind of position"""
    vrefs = set()
    for _, _, e, _ in walk_elems(s):
        if e.get('valueRef'):
            vrefs.add(tuple(e['valueRef'].split('.', 1)))
    for _, _, l, _ in walk_levels(s):
        for f in l.get('fields', []):
            if f.get('valueRef'):
                vrefs.add(tuple(f['valueRef'].split('.', 1)))
    off = rng.randrange(1 << 20)
    for j, (kind, addr, prefix, ent) in enumerate(all_named(s)):
        # validValues that some valueRef points to keep their names (renaming = a second broken rule)
        if kind.startswith('validValue') and any(v[1] == ent['name'] for v in vrefs):
            continue
        old = ent['name']
        public = addr[0] == 'types' and len(addr) == 2
        is_file = public or (addr[0] == 'messages' and len(addr) == 2)
        cases = name_cases(old, is_file, public)
        kws = [c for c in cases if c[2] == 'keywordName' and c[0] not in KEYWORDS_ALWAYS]
        k = (off + j * 12) % len(kws)
        drop = {c[0] for c in kws} - {c[0] for c in (kws + kws)[k:k + 12]}
        cases = [c for c in cases if c[0] not in drop]
        if rotate:
            k = (off + j * rotate) % len(cases)
            cases = (cases + cases)[k:k + rotate]
        siblings = _sibling_names(s, addr)
        low = {x.lower() for x in siblings}
        for new, rule, cls, what in cases:
            if new in siblings or (public and new.lower() in low):
                continue
            if public and '.' in new and any(v[0].lower() == old.lower() for v in vrefs):
                continue        # `valueRef="a.b.X"` would no longer name this enum: a second broken rule
            c = copy.deepcopy(s)
            if public:
                rename_type(c, old, new)
            else:
                get(c, addr)['name'] = new
            yield Mut(c, rule, cls, prefix + [new], kind, 'reject' if cls else 'accept', '%s: %s -> %s' % (what, old, new[:40]))
    pkg0 = s.get('package', 'p')
    for new, rule, cls, what in name_cases(pkg0, False, False):
        if len(new) > 200 or new == '' or (rotate and rng.random() > 0.05 * rotate):
            continue
        c = copy.deepcopy(s)
        c['package'] = new
        yield Mut(c, rule, 'badSchemaName' if cls else None, ['schema'], 'schema package', 'reject' if cls else 'accept',
                  '%s: %s' % (what, new[:40]))
    for pkg, why in (('class', 'keyword'), ('std', 'reserved namespace'), ('posix', 'reserved namespace'), ('1x', 'not symbolic'),
                     ('a.b', 'not symbolic'), ('', 'empty')):
        c = copy.deepcopy(s)
        c['package'] = pkg
        yield Mut(c, 'keyword' if why != 'not symbolic' else 'name', 'badSchemaName', ['schema'], 'schema package', 'reject', why)
    for pkg in ('std_', 'Class', '_x', 'stdx', 'Std', 'POSIX', 'posix_', 'stdd'):
        c = copy.deepcopy(s)
        c['package'] = pkg
        yield Mut(c, 'name', None, ['schema'], 'schema package', 'accept', pkg)


def _sibling_names(s, addr):
    cont = get(s, addr[:-1])
    names = [x['name'] for x in cont if isinstance(x, dict)]
    if addr[0] == 'messages' and len(addr) > 2:
        lvl = get(s, addr[:-2])
        names = [x['name'] for k in ('fields', 'groups', 'datas') for x in lvl.get(k, [])]
    return names


def m_duplicates(s, rng):
    # public types: case-insensitive
    for ti, t in enumerate(s['types']):
        for variant, why in ((t['name'], 'same name'), (t['name'].swapcase(), 'name differing in case only')):
            if variant == t['name'] and why != 'same name':
                continue
            c = copy.deepcopy(s)
            c['types'].append({'k': 'type', 'name': variant, 'prim': 'uint8'})
            yield Mut(c, 'duplicate', 'duplicateEncoding', ['types', variant], 'public %s' % t['k'], 'reject', why)
        if ti >= 3:
            break
    for addr, path, e, kind in walk_elems(s):
        if e['k'] == 'composite' and e['elems']:
            x = rng.choice(e['elems'])
            c = copy.deepcopy(s)
            get(c, addr)['elems'].append({'k': 'type', 'name': x['name'], 'prim': 'uint8'})
            yield Mut(c, 'duplicate', 'duplicateCompositeElement', path + [x['name']], 'member of %s composite' % kind, 'reject', '')
            if x['name'].swapcase() != x['name'] and x['name'].swapcase() not in [y['name'] for y in e['elems']] \
                    and in_header(s, addr) != 'data':
                c = copy.deepcopy(s)
                get(c, addr)['elems'].append({'k': 'type', 'name': x['name'].swapcase(), 'prim': 'uint8'})
                yield Mut(c, 'duplicate', None, path, 'member of %s composite' % kind, 'accept',
                          'member names differing in case only are distinct')
        if e['k'] == 'enum' and e['values']:
            v = rng.choice(e['values'])
            c = copy.deepcopy(s)
            get(c, addr)['values'].append(dict(v))
            yield Mut(c, 'duplicate', 'duplicateValidValue', path + [v['name']], 'validValue of %s enum' % kind, 'reject', '')
            c = copy.deepcopy(s)
            get(c, addr)['values'].append({'name': fresh(s, 'Same'), 'value': v['value']})
            yield Mut(c, 'enum-value', 'duplicateEnumValue', path + [get(c, addr)['values'][-1]['name']],
                      'validValue of %s enum' % kind, 'reject', 'two names for one value')
        if e['k'] == 'set' and e['choices']:
            ch = rng.choice(e['choices'])
            c = copy.deepcopy(s)
            get(c, addr)['choices'].append(dict(ch))
            yield Mut(c, 'duplicate', 'duplicateChoice', path + [ch['name']], 'choice of %s set' % kind, 'reject', '')
    if s['messages']:
        m = s['messages'][0]
        c = copy.deepcopy(s)
        c['messages'].append({'name': m['name'], 'id': 64000, 'fields': [], 'groups': [], 'datas': []})
        yield Mut(c, 'duplicate', 'duplicateMessageName', ['messages', m['name']], 'message name', 'reject', '')
        c = copy.deepcopy(s)
        nm = fresh(s, 'Dup')
        c['messages'].append({'name': nm, 'id': m['id'], 'fields': [], 'groups': [], 'datas': []})
        yield Mut(c, 'duplicate', 'duplicateMessageId', ['messages', nm], 'message id', 'reject', '')
        c = copy.deepcopy(s)
        c['messages'].append({'name': m['name'].swapcase(), 'id': 64001, 'fields': [], 'groups': [], 'datas': []})
        if m['name'].swapcase() != m['name']:
            yield Mut(c, 'duplicate', None, ['messages', m['name'].swapcase()], 'message name', 'accept', 'differs in case')
    prim_field = lambda n: {'name': n, 'id': 999, 'type': 'uint8'}      # noqa: E731
    for addr, path, l, depth in walk_levels(s):
        members = [(k, x) for k in ('fields', 'groups', 'datas') for x in l.get(k, [])]
        for k, x in members:
            # a later member of each kind that repeats the name
            for k2 in ('fields', 'groups', 'datas'):
                order = ['fields', 'groups', 'datas']
                if order.index(k2) < order.index(k):
                    continue
                c = copy.deepcopy(s)
                lv = get(c, addr)
                if k2 == 'fields':
                    lv.setdefault('fields', []).append(prim_field(x['name']))
                elif k2 == 'groups':
                    dims = [g['dim'] for _, _, g, d in walk_levels(s) if d > 0]
                    if not dims:
                        continue
                    lv.setdefault('groups', []).append({'name': x['name'], 'id': 998, 'dim': dims[0], 'fields': [],
                                                        'groups': [], 'datas': []})
                else:
                    dts = [d['type'] for _, _, g, _ in walk_levels(s) for d in g.get('datas', [])]
                    if not dts:
                        continue
                    lv.setdefault('datas', []).append({'name': x['name'], 'id': 997, 'type': dts[0]})
                yield Mut(c, 'duplicate', 'duplicateMemberName', path + [x['name']],
                          '%s repeated by a %s in %s' % (k[:-1], k2[:-1], level_kind(depth)), 'reject', '')
        # the same name in a nested scope is fine
        if l.get('groups') and l.get('fields'):
            c = copy.deepcopy(s)
            get(c, addr)['groups'][0].setdefault('fields', []).append(prim_field(l['fields'][0]['name']))
            if l['fields'][0]['name'] not in [x['name'] for k in ('fields', 'groups', 'datas') for x in l['groups'][0].get(k, [])]:
                yield Mut(c, 'duplicate', None, path, 'field name reused inside a nested group of %s' % level_kind(depth), 'accept', '')


def m_constants(s, rng):
    """rules of constants; adds the valid forms the generator does not produce (valueRef)"""
    types = s['types']
    enums = [t for t in types if t['k'] == 'enum']
    for addr, path, e, kind in walk_elems(s):
        if e['k'] == 'type' and e.get('presence') == 'constant':
            c = copy.deepcopy(s)
            t = get(c, addr)
            t.pop('const', None)
            if t['prim'] == 'char' and t.get('length') is None:
                t['length'] = 1      # (without `length` sbeppc dereferences an empty optional: C09)
            yield Mut(c, 'constant', 'constantWithoutValue', path, '%s constant type' % kind, 'reject', 'no value, no valueRef')
            if enums:
                en = enums[0]
                c = copy.deepcopy(s)
                get(c, addr)['valueRef'] = '%s.%s' % (en['name'], en['values'][0]['name'])
                yield Mut(c, 'constant', 'constantWithoutValue', path, '%s constant type' % kind, 'reject', 'value and valueRef')
            if e['prim'] == 'char' and e.get('const'):
                n = len(e['const'].encode())
                c = copy.deepcopy(s)
                get(c, addr)['length'] = n - 1
                yield Mut(c, 'constant', 'constantTooLong', path, '%s char constant' % kind, 'reject', 'length %d < %d' % (n - 1, n))
                for ln in (n, n + 3):
                    c = copy.deepcopy(s)
                    get(c, addr)['length'] = ln
                    yield Mut(c, 'constant', None, path, '%s char constant' % kind, 'accept', 'length %d >= %d' % (ln, n))
            if e['prim'] != 'char':
                for ln in (0, 2):
                    c = copy.deepcopy(s)
                    get(c, addr)['length'] = ln
                    yield Mut(c, 'constant', 'nonCharConstantLength', path, '%s numeric constant' % kind, 'reject', 'length %d' % ln)
    # (former finding a) an enum whose encodingType is a *named* char type, and constants that refer to it
    ct, ce = fresh(s, 'CharT'), fresh(s, 'CharE')
    base = copy.deepcopy(s)
    base['types'].append({'k': 'type', 'name': ct, 'prim': 'char'})
    base['types'].append({'k': 'enum', 'name': ce, 'enc': ct, 'values': [{'name': 'A', 'value': 'A'}, {'name': 'B', 'value': 'B'}]})
    yield Mut(copy.deepcopy(base), 'constant', None, ['types', ce], 'enum over a named char type', 'accept', 'char-named')
    for target in ('char', 'uint8', 'int64', 'double'):
        c = copy.deepcopy(base)
        k = {'k': 'type', 'name': fresh(s, 'KR'), 'prim': target, 'presence': 'constant', 'valueRef': ce + '.B', 'length': 1}
        c['types'].append(k)
        yield Mut(c, 'constant', None, ['types', k['name']], 'top-level constant type %s with valueRef to enum over a named char type' % target,
                  'accept', 'char-named')
        if s['messages']:
            c = copy.deepcopy(base)
            f = {'name': fresh(s, 'kf'), 'id': 996, 'type': target, 'presence': 'constant', 'valueRef': ce + '.A'}
            c['messages'][0].setdefault('fields', []).append(f)
            yield Mut(c, 'constant', None, ['messages', c['messages'][0]['name'], f['name']],
                      'constant field %s with valueRef to enum over a named char type' % target, 'accept', 'char-named')
    # valueRef constants (types and fields): built on the schema's enums
    for en in enums:
        enc = en['enc']
        prim = enc if enc in S.PRIM_SIZE else find(types, enc)['prim']
        named = enc not in S.PRIM_SIZE
        v0 = en['values'][0]
        ref = '%s.%s' % (en['name'], v0['name'])
        desc = 'enum over %s%s' % (prim, ' (named type)' if named else '')
        fits = ['char', 'uint8', 'int8', 'int64', 'uint64', 'float', 'double'] if prim == 'char' else \
            [p for p in S.INTEGRAL if p != 'char' and INT_RANGE[p][0] <= int(v0['value']) <= INT_RANGE[p][1]] + ['double']
        for target in fits[:4]:
            # constant <type> with valueRef, public and inside a composite
            for where in ('top-level', 'inline-member'):
                c = copy.deepcopy(s)
                k = {'k': 'type', 'name': fresh(s, 'KR'), 'prim': target, 'presence': 'constant', 'valueRef': ref}
                if where == 'top-level':
                    c['types'].append(k)
                    p = ['types', k['name']]
                else:
                    comp = [t for t in c['types'] if t['k'] == 'composite' and t['name'].lower() not in header_composites(s)]
                    if not comp:
                        continue
                    comp[0]['elems'].append(k)
                    p = ['types', comp[0]['name'], k['name']]
                yield Mut(c, 'constant', None, p, '%s constant type %s with valueRef to %s' % (where, target, desc), 'accept',
                          'char-named' if (named and prim == 'char') else '')
            # constant field of primitive type
            if s['messages']:
                c = copy.deepcopy(s)
                f = {'name': fresh(s, 'kf'), 'id': 996, 'type': target, 'presence': 'constant', 'valueRef': ref}
                c['messages'][0].setdefault('fields', []).append(f)
                yield Mut(c, 'constant', None, ['messages', c['messages'][0]['name'], f['name']],
                          'constant field %s with valueRef to %s' % (target, desc), 'accept',
                          'char-named' if (named and prim == 'char') else '')
        if s['messages']:
            m0 = s['messages'][0]['name']
            # constant field of the enum's own type
            c = copy.deepcopy(s)
            f = {'name': fresh(s, 'ke'), 'id': 995, 'type': en['name'], 'presence': 'constant', 'valueRef': ref}
            c['messages'][0].setdefault('fields', []).append(f)
            yield Mut(c, 'constant', None, ['messages', m0, f['name']], 'constant enum field', 'accept', '')
            c = copy.deepcopy(s)
            f = {'name': fresh(s, 'ke'), 'id': 995, 'type': en['name'].swapcase(), 'presence': 'constant', 'valueRef': ref}
            c['messages'][0].setdefault('fields', []).append(f)
            yield Mut(c, 'constant', None, ['messages', m0, f['name']], 'constant enum field, type named in other case', 'accept', '')
            for bad, cls, why in ((None, 'fieldConstantWithoutValueRef', 'no valueRef'), ('NoDot', 'badValueRef', 'no dot'),
                                  ('.x', 'badValueRef', 'empty enum name'), (en['name'] + '.', 'badValueRef', 'empty value name'),
                                  (fresh(s, 'Nope') + '.A', 'unknownEncoding', 'enum does not exist'),
                                  (en['name'] + '.' + fresh(s, 'nov'), 'noSuchValidValue', 'value does not exist'),
                                  (en['name'] + '.' + v0['name'].swapcase(), 'noSuchValidValue', 'value name in other case')):
                if bad is not None and bad.endswith(v0['name'].swapcase()) and (v0['name'].swapcase() == v0['name'] or
                                                                              any(v['name'] == v0['name'].swapcase() for v in en['values'])):
                    continue
                for ftype in (en['name'], 'uint64' if prim != 'char' else 'char'):
                    c = copy.deepcopy(s)
                    f = {'name': fresh(s, 'kb'), 'id': 994, 'type': ftype, 'presence': 'constant'}
                    if bad is not None:
                        f['valueRef'] = bad
                    c['messages'][0].setdefault('fields', []).append(f)
                    yield Mut(c, 'constant', cls, ['messages', m0, f['name']],
                              'constant field of %s type' % ('enum' if ftype == en['name'] else 'primitive'), 'reject', why)
            others = [x for x in types if x['k'] in ('composite', 'set', 'type')]
            if others:
                c = copy.deepcopy(s)
                f = {'name': fresh(s, 'kb'), 'id': 994, 'type': 'uint64', 'presence': 'constant', 'valueRef': others[0]['name'] + '.A'}
                c['messages'][0].setdefault('fields', []).append(f)
                yield Mut(c, 'constant', 'notAnEnum', ['messages', m0, f['name']], 'constant field, valueRef to a %s' % others[0]['k'],
                          'reject', '')
            other_enums = [x for x in enums if x is not en]
            if other_enums:
                o = other_enums[0]
                c = copy.deepcopy(s)
                f = {'name': fresh(s, 'kb'), 'id': 994, 'type': en['name'], 'presence': 'constant',
                     'valueRef': '%s.%s' % (o['name'], o['values'][0]['name'])}
                c['messages'][0].setdefault('fields', []).append(f)
                yield Mut(c, 'constant', 'enumConstantTypeMismatch', ['messages', m0, f['name']], 'constant enum field', 'reject',
                          'valueRef names another enum')
        if prim != 'char':
            big = max(int(v['value']) for v in en['values'])
            vb = [v for v in en['values'] if int(v['value']) == big][0]
            small = [p for p in ('int8', 'uint8', 'char', 'int16') if not (INT_RANGE[p][0] <= big <= INT_RANGE[p][1])]
            if small:
                c = copy.deepcopy(s)
                k = {'k': 'type', 'name': fresh(s, 'KR'), 'prim': small[0], 'presence': 'constant',
                     'valueRef': '%s.%s' % (en['name'], vb['name'])}
                c['types'].append(k)
                yield Mut(c, 'constant', 'valueRefOutOfRange', ['types', k['name']], 'constant type with valueRef', 'reject',
                          '%d does not fit %s' % (big, small[0]))
            c = copy.deepcopy(s)
            k = {'k': 'type', 'name': fresh(s, 'KR'), 'prim': 'uint64' if big >= 0 else 'int64', 'presence': 'constant',
                 'valueRef': ref, 'length': 2}
            c['types'].append(k)
            yield Mut(c, 'constant', 'nonCharConstantLength', ['types', k['name']], 'constant type with valueRef', 'reject', 'length 2')


# ------------------------------------------------------------------ one type, several uses, any order

def _dim_composites(s):
    return [t for t in s['types'] if t['k'] == 'composite' and t['name'].lower() != s.get('headerType', 'messageHeader').lower()
            and {'blockLength', 'numInGroup'} <= {x['name'] for x in t['elems']}
            and 'length' not in {x['name'] for x in t['elems']}]


def _var_composites(s):
    return [t for t in s['types'] if t['k'] == 'composite'
            and {'length', 'varData'} <= {x['name'] for x in t['elems']}
            and 'numInGroup' not in {x['name'] for x in t['elems']}]


def _mk_group(s, name, dim, datas=()):
    return {'name': name, 'id': 901, 'dim': dim, 'fields': [{'name': fresh(s, 'sx'), 'id': 902, 'type': 'uint32'}],
            'groups': [], 'datas': [{'name': fresh(s, 'sd') + str(i), 'id': 903 + i, 'type': v} for i, v in enumerate(datas)]}


def _mk_msg(s, name, mid, groups=(), datas=()):
    return {'name': name, 'id': mid, 'fields': [{'name': fresh(s, 'sf'), 'id': 900, 'type': 'uint32'}],
            'groups': list(groups), 'datas': [{'name': fresh(s, 'md') + str(i), 'id': 910 + i, 'type': v} for i, v in enumerate(datas)]}


def _free_ids(s, n):
    used = {m['id'] for m in s['messages']}
    out, i = [], 60001
    while len(out) < n:
        if i not in used:
            out.append(i)
        i += 1
    return out


def case_variants(name):
    """the name and its other-case spelling (type lookup is case-insensitive) - unless that spelling is exactly a
    primitive type name (`UINT8` -> `uint8`): there it denotes the built-in type, not the public type"""
    out = [name]
    if name.swapcase() != name and name.swapcase() not in S.PRIM_SIZE:
        out.append(name.swapcase())
    return out


def m_shared_headers(s, rng):
    """a header composite shared between roles: since no composite is legal both as a group dimension
    and as a <data> header, every schema that uses one composite in both roles must be rejected —
    whichever use the validator meets first (sbeppc caches validated headers by lower-cased name)"""
    dims, vars_ = _dim_composites(s), _var_composites(s)
    if not dims or not vars_:
        return
    ids = _free_ids(s, 4)
    # ---- (a) <data type> pointing at a group dimension composite D (D has no `length`)
    for D in dims[:2]:
        for dn in case_variants(D['name']):
            exp = ('headerMissingElement', ['types', D['name']])
            # legal use (group) first, same level: groups are validated before data
            c = copy.deepcopy(s)
            m = c['messages'][0]
            m.setdefault('groups', []).append(_mk_group(s, fresh(s, 'shg'), D['name']))
            m.setdefault('datas', []).append({'name': fresh(s, 'shd'), 'id': 920, 'type': dn})
            yield Mut(c, 'shared-header', exp[0], exp[1], 'data -> group dimension; legal use first, same level', 'reject', dn)
            # legal use first: the data member sits inside the group whose dimension it abuses
            c = copy.deepcopy(s)
            g = _mk_group(s, fresh(s, 'shg'), D['name'])
            g['datas'].append({'name': fresh(s, 'shd'), 'id': 921, 'type': dn})
            c['messages'][0].setdefault('groups', []).append(g)
            yield Mut(c, 'shared-header', exp[0], exp[1], 'data -> group dimension; legal use first, data inside that group', 'reject', dn)
            # legal use first, in an earlier message
            c = copy.deepcopy(s)
            c['messages'].insert(0, _mk_msg(s, fresh(s, 'ShA'), ids[0], groups=[_mk_group(s, fresh(s, 'shg'), D['name'])]))
            c['messages'].append(_mk_msg(s, fresh(s, 'ShB'), ids[1], datas=[dn]))
            yield Mut(c, 'shared-header', exp[0], exp[1], 'data -> group dimension; legal use first, later message', 'reject', dn)
            # illegal use first: data in the first message, the group only later
            c = copy.deepcopy(s)
            c['messages'].insert(0, _mk_msg(s, fresh(s, 'ShA'), ids[0], datas=[dn]))
            c['messages'].append(_mk_msg(s, fresh(s, 'ShB'), ids[1], groups=[_mk_group(s, fresh(s, 'shg'), D['name'])]))
            yield Mut(c, 'shared-header', exp[0], exp[1], 'data -> group dimension; illegal use first, earlier message', 'reject', dn)
            # illegal use first, same message: data inside an earlier sibling group
            c = copy.deepcopy(s)
            g1 = _mk_group(s, fresh(s, 'shg'), dims[-1]['name'] if dims[-1] is not D else D['name'])
            g1['datas'] = [{'name': fresh(s, 'shd'), 'id': 922, 'type': dn}]
            c['messages'].insert(0, _mk_msg(s, fresh(s, 'ShA'), ids[0], groups=[g1, _mk_group(s, fresh(s, 'shh'), D['name'])]))
            yield Mut(c, 'shared-header', exp[0], exp[1], 'data -> group dimension; data in an earlier sibling group', 'reject', dn)
    # ---- (b) dimensionType pointing at a data header composite V (V has no `numInGroup`)
    for V in vars_[:2]:
        for vn in case_variants(V['name']):
            exp = ('headerMissingElement', ['types', V['name']])
            # illegal use first, same level (groups before data)
            c = copy.deepcopy(s)
            c['messages'].insert(0, _mk_msg(s, fresh(s, 'ShA'), ids[0], groups=[_mk_group(s, fresh(s, 'shg'), vn)],
                                         datas=[V['name']]))
            yield Mut(c, 'shared-header', exp[0], exp[1], 'dimensionType -> data header; illegal use first, same level', 'reject', vn)
            # legal use first, same level: an earlier sibling group contains the data member
            c = copy.deepcopy(s)
            g1 = _mk_group(s, fresh(s, 'shg'), dims[0]['name'], datas=[V['name']])
            c['messages'].insert(0, _mk_msg(s, fresh(s, 'ShA'), ids[0], groups=[g1, _mk_group(s, fresh(s, 'shh'), vn)]))
            yield Mut(c, 'shared-header', exp[0], exp[1], 'dimensionType -> data header; legal use first, earlier sibling group', 'reject', vn)
            # legal use first, nested: the offending group is nested in a group that already used V for data
            c = copy.deepcopy(s)
            g1 = _mk_group(s, fresh(s, 'shg'), dims[0]['name'])
            g0 = _mk_group(s, fresh(s, 'shh'), dims[0]['name'], datas=[V['name']])
            g1['groups'] = [g0, _mk_group(s, fresh(s, 'shi'), vn)]
            c['messages'].insert(0, _mk_msg(s, fresh(s, 'ShA'), ids[0], groups=[g1]))
            yield Mut(c, 'shared-header', exp[0], exp[1], 'dimensionType -> data header; legal use first, nested group', 'reject', vn)
            # legal use first, earlier message
            c = copy.deepcopy(s)
            c['messages'].insert(0, _mk_msg(s, fresh(s, 'ShA'), ids[0], datas=[V['name']]))
            c['messages'].append(_mk_msg(s, fresh(s, 'ShB'), ids[1], groups=[_mk_group(s, fresh(s, 'shg'), vn)]))
            yield Mut(c, 'shared-header', exp[0], exp[1], 'dimensionType -> data header; legal use first, later message', 'reject', vn)
            # illegal use first, earlier message
            c = copy.deepcopy(s)
            c['messages'].insert(0, _mk_msg(s, fresh(s, 'ShA'), ids[0], groups=[_mk_group(s, fresh(s, 'shg'), vn)]))
            c['messages'].append(_mk_msg(s, fresh(s, 'ShB'), ids[1], datas=[V['name']]))
            yield Mut(c, 'shared-header', exp[0], exp[1], 'dimensionType -> data header; illegal use first, earlier message', 'reject', vn)
    # ---- (c) composites with the members of BOTH headers: legal as dimension, never legal as data header
    mk = lambda n, p, **kw: dict({'k': 'type', 'name': n, 'prim': p}, **kw)   # noqa: E731
    layouts = [
        ('bl,num,length,varData', [mk('blockLength', 'uint16'), mk('numInGroup', 'uint16'), mk('length', 'uint16'),
                                   mk('varData', 'uint8', length=0)]),
        ('length,varData,bl,num', [mk('length', 'uint32'), mk('varData', 'char', length=0), mk('blockLength', 'uint16'),
                                   mk('numInGroup', 'uint8')]),
        ('num,length,bl,varData + offsets', [mk('numInGroup', 'uint8'), mk('length', 'uint8', offset=2),
                                             mk('blockLength', 'uint32', offset=4), mk('varData', 'uint8', length=0, offset=8)]),
        ('varData,length,num,bl', [mk('varData', 'int8', length=0), mk('length', 'uint64'), mk('numInGroup', 'uint16'),
                                   mk('blockLength', 'uint16')]),
    ]
    for desc, elems in layouts:
        both = fresh(s, 'SizeEncoding')
        exp = ('dataHeaderLayout', ['types', both, 'length'])
        for bn in case_variants(both):
            base = copy.deepcopy(s)
            base['types'].append({'k': 'composite', 'name': both, 'elems': copy.deepcopy(elems)})
            c = copy.deepcopy(base)
            c['messages'].insert(0, _mk_msg(s, fresh(s, 'ShA'), ids[0], groups=[_mk_group(s, fresh(s, 'shg'), both)]))
            yield Mut(c, 'shared-header', None, ['types', both], 'both-role composite (%s) used as dimension only' % desc, 'accept', bn)
            c = copy.deepcopy(base)
            c['messages'].insert(0, _mk_msg(s, fresh(s, 'ShA'), ids[0], groups=[_mk_group(s, fresh(s, 'shg'), both)], datas=[bn]))
            yield Mut(c, 'shared-header', exp[0], exp[1], 'both-role composite (%s); group first, same level' % desc, 'reject', bn)
            c = copy.deepcopy(base)
            c['messages'].insert(0, _mk_msg(s, fresh(s, 'ShA'), ids[0], groups=[_mk_group(s, fresh(s, 'shg'), bn, datas=[both])]))
            yield Mut(c, 'shared-header', exp[0], exp[1], 'both-role composite (%s); data inside the group it dimensions' % desc, 'reject', bn)
            c = copy.deepcopy(base)
            c['messages'].insert(0, _mk_msg(s, fresh(s, 'ShA'), ids[0], datas=[bn]))
            c['messages'].append(_mk_msg(s, fresh(s, 'ShB'), ids[1], groups=[_mk_group(s, fresh(s, 'shg'), both)]))
            yield Mut(c, 'shared-header', exp[0], exp[1], 'both-role composite (%s); data first, group in a later message' % desc, 'reject', bn)
            c = copy.deepcopy(base)
            c['messages'].insert(0, _mk_msg(s, fresh(s, 'ShA'), ids[0], groups=[_mk_group(s, fresh(s, 'shg'), both)]))
            c['messages'].append(_mk_msg(s, fresh(s, 'ShB'), ids[1], datas=[bn]))
            yield Mut(c, 'shared-header', exp[0], exp[1], 'both-role composite (%s); group first, data in a later message' % desc, 'reject', bn)
    # ---- (d) the default dimensionType: groups without the attribute use `groupSizeEncoding`
    if find(s['types'], 'groupSizeEncoding') is None:
        D = dims[0]
        base = copy.deepcopy(s)
        rename_type(base, D['name'], 'groupSizeEncoding')
        base['_omit_default_dim'] = True
        c = copy.deepcopy(base)
        c['messages'].insert(0, _mk_msg(s, fresh(s, 'ShA'), ids[0], groups=[_mk_group(s, fresh(s, 'shg'), 'groupSizeEncoding')]))
        yield Mut(c, 'shared-header', None, ['types', 'groupSizeEncoding'], 'default dimensionType', 'accept', 'attribute omitted')
        for dn in ('groupSizeEncoding', 'GROUPSIZEENCODING'):
            exp = ('headerMissingElement', ['types', 'groupSizeEncoding'])
            c = copy.deepcopy(base)
            c['messages'].insert(0, _mk_msg(s, fresh(s, 'ShA'), ids[0], groups=[_mk_group(s, fresh(s, 'shg'), 'groupSizeEncoding')],
                                         datas=[dn]))
            yield Mut(c, 'shared-header', exp[0], exp[1], 'data -> default dimension composite; group first', 'reject', dn)
            c = copy.deepcopy(base)
            c['messages'].insert(0, _mk_msg(s, fresh(s, 'ShA'), ids[0], datas=[dn]))
            c['messages'].append(_mk_msg(s, fresh(s, 'ShB'), ids[1], groups=[_mk_group(s, fresh(s, 'shg'), 'groupSizeEncoding')]))
            yield Mut(c, 'shared-header', exp[0], exp[1], 'data -> default dimension composite; data first', 'reject', dn)
        # a schema without any `groupSizeEncoding` whose group omits the attribute
        c = copy.deepcopy(s)
        c['_omit_default_dim'] = True
        c['messages'].append(_mk_msg(s, fresh(s, 'ShB'), ids[1], groups=[_mk_group(s, fresh(s, 'shg'), 'groupSizeEncoding')]))
        yield Mut(c, 'shared-header', 'headerUnknown', ['messages', c['messages'][-1]['name'], c['messages'][-1]['groups'][0]['name']],
                  'default dimensionType without a groupSizeEncoding composite', 'reject', '')


def m_use_order(s, rng):
    """the same public type referenced from two places of which only one is a legal use, in both
    orders: no validator state (visited / validated sets, the case-insensitive type map) may make
    the verdict depend on which use is met first"""
    types = s['types']
    ids = _free_ids(s, 2)
    plain_comps = [t for t in types if t['k'] == 'composite' and t['name'].lower() not in header_composites(s)]
    enums = [t for t in types if t['k'] == 'enum']

    def two_fields(s0, f_good, f_bad, bad_first):
        c = copy.deepcopy(s0)
        fs = [f_bad, f_good] if bad_first else [f_good, f_bad]
        m = _mk_msg(s, fresh(s, 'UoA'), ids[0])
        m['fields'] = [dict(f) for f in fs]
        c['messages'].insert(0, m)
        return c, ['messages', m['name'], f_bad['name']]

    def two_msgs(s0, f_good, f_bad, bad_first):
        c = copy.deepcopy(s0)
        ma, mb = _mk_msg(s, fresh(s, 'UoA'), ids[0]), _mk_msg(s, fresh(s, 'UoB'), ids[1])
        (ma if bad_first else mb)['fields'] = [dict(f_bad)]
        (mb if bad_first else ma)['fields'] = [dict(f_good)]
        c['messages'].insert(0, ma)
        c['messages'].append(mb)
        return c, ['messages', (ma if bad_first else mb)['name'], f_bad['name']]

    for place, build in (('same message', two_fields), ('two messages', two_msgs)):
        for bad_first in (False, True):
            order = 'illegal use first' if bad_first else 'legal use first'
            # a composite as a required field and as a constant field
            for C in plain_comps[:1]:
                for cn in case_variants(C['name']):
                    good = {'name': fresh(s, 'uo1'), 'id': 930, 'type': C['name']}
                    bad = {'name': fresh(s, 'uo2'), 'id': 931, 'type': cn, 'presence': 'constant'}
                    c, path = build(s, good, bad, bad_first)
                    yield Mut(c, 'use-order', 'compositeFieldConstant', path, 'composite as field and as constant field; %s, %s' % (order, place),
                              'reject', cn)
            # header composites used as plain field types as well (legal) next to a constant use (illegal)
            for H in (_dim_composites(s)[:1] + _var_composites(s)[:1]):
                good = {'name': fresh(s, 'uo1'), 'id': 930, 'type': H['name']}
                bad = {'name': fresh(s, 'uo2'), 'id': 931, 'type': H['name'].swapcase(), 'presence': 'constant'}
                c, path = build(s, good, bad, bad_first)
                yield Mut(c, 'use-order', 'compositeFieldConstant', path, 'header composite as field and as constant field; %s, %s' % (order, place),
                          'reject', H['name'])
            # an enum as a field type, as a fitting valueRef target and as a non-fitting one
            for E in enums[:2]:
                enc = E['enc']
                prim = enc if enc in S.PRIM_SIZE else find(types, enc)['prim']
                if prim == 'char':
                    continue
                big = max(E['values'], key=lambda v: int(v['value']))
                small = [p for p in ('int8', 'uint8', 'int16') if not (INT_RANGE[p][0] <= int(big['value']) <= INT_RANGE[p][1])]
                ref = '%s.%s' % (E['name'], big['name'])
                good = {'name': fresh(s, 'uo1'), 'id': 930, 'type': 'uint64', 'presence': 'constant', 'valueRef': ref}
                if small:
                    bad = {'name': fresh(s, 'uo2'), 'id': 931, 'type': small[0], 'presence': 'constant', 'valueRef': ref.swapcase()
                           if False else ref}
                    c, path = build(s, good, bad, bad_first)
                    yield Mut(c, 'use-order', 'valueRefOutOfRange', path, 'enum value as fitting and non-fitting valueRef; %s, %s' % (order, place),
                              'reject', ref)
                bad = {'name': fresh(s, 'uo2'), 'id': 931, 'type': E['name'], 'presence': 'constant',
                       'valueRef': '%s.%s' % (E['name'], fresh(s, 'nov'))}
                good2 = {'name': fresh(s, 'uo1'), 'id': 930, 'type': E['name']}
                c, path = build(s, good2, bad, bad_first)
                yield Mut(c, 'use-order', 'noSuchValidValue', path, 'enum as field type and as target of a dangling valueRef; %s, %s' % (order, place),
                          'reject', E['name'])
    # a public array type: legal as a field, illegal as enum encodingType / as the `length` of a data header
    arrays = [t for t in types if t['k'] == 'type' and t.get('presence') != 'constant' and t.get('length', 1) not in (0, 1)
              and t['prim'] in ('uint8', 'char', 'int8')]
    for A in arrays[:1]:
        for an in case_variants(A['name']):
            for where in ('before', 'after'):
                c = copy.deepcopy(s)
                en = {'k': 'enum', 'name': fresh(s, 'UoE'), 'enc': an, 'values': [{'name': 'A', 'value': 1 if A['prim'] != 'char' else 'A'}]}
                user = {'k': 'composite', 'name': fresh(s, 'UoC'), 'elems': [{'k': 'ref', 'name': 'r', 'type': A['name']}]}
                c['types'][0:0] = [en, user] if where == 'before' else [user, en]
                yield Mut(c, 'use-order', 'encodingTypeLength', ['types', en['name']],
                          'array type as ref target (legal) and as enum encodingType (illegal), enum %s the legal user' % where, 'reject', an)
            c = copy.deepcopy(s)
            vn = fresh(s, 'UoVar')
            c['types'].append({'k': 'composite', 'name': vn, 'elems': [{'k': 'ref', 'name': 'length', 'type': an},
                                                                       {'k': 'type', 'name': 'varData', 'prim': 'uint8', 'length': 0}]})
            m = _mk_msg(s, fresh(s, 'UoA'), ids[0], datas=[vn])
            m['fields'] = [{'name': fresh(s, 'uo1'), 'id': 930, 'type': A['name']}]
            c['messages'].insert(0, m)
            yield Mut(c, 'use-order', 'headerElementArray', ['types', vn, 'length'],
                      'array type as field (legal) and as `length` of a data header through a ref (illegal)', 'reject', an)
    # one data header composite, many legal uses in every position: must stay accepted (cache hit paths)
    vars_ = _var_composites(s)
    dims = _dim_composites(s)
    if vars_ and dims:
        V, D = vars_[0]['name'], dims[0]['name']
        c = copy.deepcopy(s)
        g = _mk_group(s, fresh(s, 'uog'), D, datas=[V, V.swapcase()])
        g['groups'] = [_mk_group(s, fresh(s, 'uoh'), D.swapcase(), datas=[V])]
        c['messages'].insert(0, _mk_msg(s, fresh(s, 'UoA'), ids[0], groups=[g, _mk_group(s, fresh(s, 'uoi'), D)], datas=[V, V]))
        c['messages'].append(_mk_msg(s, fresh(s, 'UoB'), ids[1], groups=[_mk_group(s, fresh(s, 'uoj'), D.swapcase(), datas=[V.swapcase()])]))
        yield Mut(c, 'use-order', None, ['messages'], 'headers reused legally at every level, in both spellings', 'accept', '')



# ------------------------------------------------------------------ what the generated code needs from headers and enums

INT_MEMBERS = {'message': ['schemaId', 'templateId', 'version', 'blockLength'], 'group': ['numInGroup', 'blockLength'],
               'data': ['length']}
COUNTERS = ['numGroups', 'numVarDataFields']


def prim_max(p):
    return INT_RANGE[p][1] if p in INT_RANGE else None


def _member_type(s, t, name):
    """(the dict holding the primitive type of member `name` of composite t, via) or (None, None)"""
    for x in t['elems']:
        if x['name'] == name:
            if x['k'] == 'type':
                return x, 'inline'
            if x['k'] == 'ref':
                tt = find(s['types'], x['type'])
                return (tt, 'ref') if tt is not None and tt['k'] == 'type' else (None, None)
            return None, None
    return None, None


def level_block_length(s, l):
    _, end = field_minima(l.get('fields', []), s['types'])
    return l['blockLength'] if l.get('blockLength') is not None else end


def written_values(s):
    """{(lower header name, member): [values the header fillers write]}"""
    out = {}
    mh = s.get('headerType', 'messageHeader').lower()
    out.setdefault((mh, 'schemaId'), []).append(s['id'])
    out.setdefault((mh, 'version'), []).append(s['version'])
    for _, _, l, depth in walk_levels(s):
        h = mh if depth == 0 else l['dim'].lower()
        if depth == 0:
            out.setdefault((h, 'templateId'), []).append(l['id'])
        out.setdefault((h, 'blockLength'), []).append(level_block_length(s, l))
        out.setdefault((h, 'numGroups'), []).append(len(l.get('groups', [])))
        out.setdefault((h, 'numVarDataFields'), []).append(len(l.get('datas', [])))
    return out


def repair(s):
    """generated schemas whose group block length does not fit the `blockLength` member of the chosen
    dimension composite get a wide dimension composite instead (rule: header values are representable)"""
    wide = None
    for _, _, l, depth in walk_levels(s):
        if depth == 0:
            continue
        t = find(s['types'], l['dim'])
        tt, _ = _member_type(s, t, 'blockLength') if t is not None and t['k'] == 'composite' else (None, None)
        if tt is None or prim_max(tt['prim']) is None:
            continue
        try:
            bl = level_block_length(s, l)
        except (KeyError, TypeError):
            continue
        if bl > prim_max(tt['prim']):
            if wide is None:
                wide = fresh(s, 'DimWide')
                s['types'].append({'k': 'composite', 'name': wide, 'elems': [
                    {'k': 'type', 'name': 'blockLength', 'prim': 'uint32'}, {'k': 'type', 'name': 'numInGroup', 'prim': 'uint16'}]})
            l['dim'] = wide
    return s


def m_header_types(s, rng):
    """members of level headers that the runtime uses as integers must have an integer primitive type;
    the optional counters must be settable"""
    roles = header_composites(s)
    vals = written_values(s)
    for ti, t in enumerate(s['types']):
        role = roles.get(t['name'].lower())
        if not role or t['k'] != 'composite':
            continue
        hp = ['types', t['name']]
        present = [n for n in INT_MEMBERS[role] + (COUNTERS if role != 'data' else []) if any(x['name'] == n for x in t['elems'])]
        for name in present:
            tt, via = _member_type(s, t, name)
            if tt is None:
                continue
            big = max(vals.get((t['name'].lower(), name), [0]))
            pos = '%s header member %s (%s)' % (role, name, via)
            for prim in ('float', 'double'):
                c = copy.deepcopy(s)
                ct, _ = _member_type(c, c['types'][ti], name)
                ct['prim'] = prim
                for k in ('min', 'max', 'null'):
                    ct.pop(k, None)
                yield Mut(c, 'header-type', 'headerElementNotInteger', hp + [name], pos, 'reject', prim)
            for prim in ('char', 'int8', 'int16', 'int32', 'int64', 'uint64'):
                c = copy.deepcopy(s)
                ct, _ = _member_type(c, c['types'][ti], name)
                ct['prim'] = prim
                for k in ('min', 'max', 'null'):
                    ct.pop(k, None)
                if big <= INT_RANGE[prim][1]:
                    yield Mut(c, 'header-type', None, hp + [name], pos, 'accept', 'integer type %s (largest value written %d)' % (prim, big))
        if role == 'data':
            continue
        # optional counters of every kind, where the composite has none yet
        for name in COUNTERS:
            if any(x['name'] == name for x in t['elems']):
                continue
            pos = '%s header, added %s' % (role, name)
            others = {k: [y for y in s['types'] if y['k'] == k and y is not t] for k in ('composite', 'enum', 'set')}
            variants = [
                ({'k': 'type', 'name': name, 'prim': 'uint8'}, None, 'plain uint8'),
                ({'k': 'type', 'name': name, 'prim': 'int64', 'presence': 'optional'}, None, 'optional int64'),
                ({'k': 'type', 'name': name, 'prim': 'float'}, 'headerElementNotInteger', 'float'),
                ({'k': 'type', 'name': name, 'prim': 'uint8', 'length': 2}, 'headerElementArray', 'array'),
                ({'k': 'type', 'name': name, 'prim': 'uint8', 'length': 0}, 'headerElementArray', 'empty array'),
                ({'k': 'type', 'name': name, 'prim': 'uint8', 'presence': 'constant', 'const': '1'}, 'headerElementConstant', 'constant'),
                ({'k': 'enum', 'name': name, 'enc': 'uint8', 'values': [{'name': 'A', 'value': 1}]}, 'headerElementKind', 'enum'),
                ({'k': 'set', 'name': name, 'enc': 'uint8', 'choices': [{'name': 'a', 'index': 0}]}, 'headerElementKind', 'set'),
                ({'k': 'composite', 'name': name, 'elems': [{'k': 'type', 'name': 'v', 'prim': 'uint8'}]}, 'headerElementKind', 'composite'),
            ]
            for k in ('composite', 'enum', 'set'):
                if others[k]:
                    variants.append(({'k': 'ref', 'name': name, 'type': others[k][0]['name']}, 'headerElementRefKind', 'ref to a %s' % k))
            for el, cls, why in variants:
                c = copy.deepcopy(s)
                c['types'][ti]['elems'].append(el)
                yield Mut(c, 'header-type', cls, hp + [name] if cls else hp, pos, 'reject' if cls else 'accept', why)
            # the same name in another case is not the counter
            c = copy.deepcopy(s)
            c['types'][ti]['elems'].append({'k': 'type', 'name': name.lower(), 'prim': 'float'})
            yield Mut(c, 'header-type', None, hp, pos, 'accept', 'float member named %s (not the counter)' % name.lower())


def m_header_values(s, rng):
    """schema id, version, template ids, block lengths and member counts must be representable in the header
    member they are written into"""
    mhn = s.get('headerType', 'messageHeader')
    mh = find(s['types'], mhn)
    if mh is None or mh['k'] != 'composite':
        return
    used_ids = {m['id'] for m in s['messages']}

    def mprim(t, name):
        tt, via = _member_type(s, t, name)
        return (tt['prim'], via) if tt is not None else (None, None)

    # schema id / version
    for attr, member, cap in (('id', 'schemaId', 2 ** 32 - 1), ('version', 'version', 2 ** 64 - 1)):
        prim, via = mprim(mh, member)
        if prim is None or prim_max(prim) is None:
            continue
        mx = prim_max(prim)
        if mx < cap:
            c = copy.deepcopy(s)
            c[attr] = mx + 1
            yield Mut(c, 'header-value', 'headerValueOutOfRange', ['schema'], 'schema %s -> %s %s (%s)' % (attr, member, prim, via), 'reject',
                      '%d' % (mx + 1))
        c = copy.deepcopy(s)
        c[attr] = min(mx, cap)
        yield Mut(c, 'header-value', None, ['schema'], 'schema %s -> %s %s (%s)' % (attr, member, prim, via), 'accept', '%d' % min(mx, cap))
    # shrink the member instead (value unchanged)
    for attr, member in (('id', 'schemaId'), ('version', 'version')):
        tt, via = _member_type(s, mh, member)
        if tt is None:
            continue
        for prim in ('uint8', 'int8', 'char', 'uint16'):
            ti = s['types'].index(mh)
            c = copy.deepcopy(s)
            ct, _ = _member_type(c, c['types'][ti], member)
            ct['prim'] = prim
            for k in ('min', 'max', 'null'):
                ct.pop(k, None)
            ok = s[attr] <= INT_RANGE[prim][1]
            yield Mut(c, 'header-value', None if ok else 'headerValueOutOfRange', ['schema'],
                      '%s member narrowed to %s (%s)' % (member, prim, via), 'accept' if ok else 'reject', '%s=%d' % (attr, s[attr]))
    # template id of every message
    prim, via = mprim(mh, 'templateId')
    if prim is not None and prim_max(prim) is not None:
        mx = prim_max(prim)
        for mi, m in enumerate(s['messages']):
            if mx < 2 ** 32 - 1 and (mx + 1) not in used_ids:
                c = copy.deepcopy(s)
                c['messages'][mi]['id'] = mx + 1
                yield Mut(c, 'header-value', 'headerValueOutOfRange', ['messages', m['name']],
                          'message id -> templateId %s (%s), message %d' % (prim, via, mi), 'reject', '%d' % (mx + 1))
            b = min(mx, 2 ** 32 - 1)
            if b not in used_ids:
                c = copy.deepcopy(s)
                c['messages'][mi]['id'] = b
                yield Mut(c, 'header-value', None, ['messages', m['name']], 'message id -> templateId %s (%s), message %d' % (prim, via, mi),
                          'accept', '%d' % b)
    # block length of every level
    for addr, path, l, depth in walk_levels(s):
        h = mh if depth == 0 else find(s['types'], l['dim'])
        if h is None or h['k'] != 'composite':
            continue
        prim, via = mprim(h, 'blockLength')
        if prim is None or prim_max(prim) is None:
            continue
        mx = prim_max(prim)
        _, end = field_minima(l.get('fields', []), s['types'])
        pos = 'blockLength of %s -> %s %s (%s)' % (level_kind(depth), h['name'], prim, via)
        if mx < 2 ** 64 - 1 and mx + 1 >= end:
            c = copy.deepcopy(s)
            get(c, addr)['blockLength'] = mx + 1
            yield Mut(c, 'header-value', 'headerValueOutOfRange', path, pos, 'reject', 'explicit blockLength %d' % (mx + 1))
        if mx >= end:
            c = copy.deepcopy(s)
            get(c, addr)['blockLength'] = mx
            yield Mut(c, 'header-value', None, path, pos, 'accept', 'explicit blockLength %d' % mx)
        # computed block length: one more array field pushes it over the limit
        if mx <= 65535 and end <= mx:
            need = mx + 1 - end
            c = copy.deepcopy(s)
            big = fresh(s, 'BigArr')
            c['types'].append({'k': 'type', 'name': big, 'prim': 'uint8', 'length': need})
            lv = get(c, addr)
            lv.setdefault('fields', []).append({'name': fresh(s, 'bigf'), 'id': 940, 'type': big})
            if lv.get('blockLength') is None:
                yield Mut(c, 'header-value', 'headerValueOutOfRange', path, pos, 'reject', 'computed blockLength %d' % (mx + 1))
            if need > 1:
                c = copy.deepcopy(s)
                c['types'].append({'k': 'type', 'name': big, 'prim': 'uint8', 'length': need - 1})
                lv = get(c, addr)
                lv.setdefault('fields', []).append({'name': fresh(s, 'bigf'), 'id': 940, 'type': big})
                if lv.get('blockLength') is None:
                    yield Mut(c, 'header-value', None, path, pos, 'accept', 'computed blockLength %d' % mx)
    # member counts: a signed 8-bit counter holds 127
    dims = _dim_composites(s)
    vars_ = _var_composites(s)
    for role, h in [('message', mh)] + [('group', d) for d in dims[:1]]:
        ti = s['types'].index(h)
        for name, kind in (('numGroups', 'groups'), ('numVarDataFields', 'datas')):
            if any(x['name'] == name for x in h['elems']) or not dims or not vars_:
                continue
            for n, cls in ((128, 'headerValueOutOfRange'), (127, None)):
                c = copy.deepcopy(s)
                c['types'][ti]['elems'].append({'k': 'type', 'name': name, 'prim': 'int8'})
                items = []
                for k in range(n):
                    if kind == 'groups':
                        items.append({'name': 'cg%d' % k, 'id': k, 'dim': dims[-1]['name'], 'fields': [], 'groups': [], 'datas': []})
                    else:
                        items.append({'name': 'cd%d' % k, 'id': k, 'type': vars_[0]['name']})
                if role == 'message':
                    m = _mk_msg(s, fresh(s, 'Cnt'), _free_ids(s, 1)[0])
                    m[kind] = items
                    c['messages'].append(m)
                    path = ['messages', m['name']]
                else:
                    g = _mk_group(s, fresh(s, 'cntg'), h['name'])
                    g[kind] = items
                    m = _mk_msg(s, fresh(s, 'Cnt'), _free_ids(s, 1)[0], groups=[g])
                    c['messages'].append(m)
                    path = ['messages', m['name'], g['name']]
                # every other level using this header has few members: only the new level can overflow
                yield Mut(c, 'header-value', cls, path, '%d %s under a %s header with int8 %s' % (n, kind, role, name),
                          'reject' if cls else 'accept', '')


def m_enum_values(s, rng):
    """no two validValues of an enum stand for the same value"""
    types = s['types']
    for addr, path, e, kind in walk_elems(s):
        if e['k'] != 'enum' or not e['values']:
            continue
        enc = e['enc']
        prim = enc if enc in S.PRIM_SIZE else find(types, enc)['prim']
        named = enc not in S.PRIM_SIZE
        pos = '%s enum over %s%s' % (kind, prim, ' (named type)' if named else '')
        v = rng.choice(e['values'])
        nn = fresh(s, 'Dup')

        def add(vals, cls, why, at=None):
            c = copy.deepcopy(s)
            ev = get(c, addr)['values']
            for nm, val in vals:
                ev.append({'name': nm, 'value': val})
            return Mut(c, 'enum-value', cls, path + [at or vals[-1][0]], pos, 'reject' if cls else 'accept', why)

        if prim == 'char':
            yield add([(nn, str(v['value']))], 'duplicateEnumValue', 'same character')
            free = [ch for ch in 'QRSTUVWxyz019' if all(str(x['value']) != ch for x in e['values'])]
            yield add([(nn, free[0])], None, 'another character')
            yield add([(nn, free[0].swapcase() if free[0].swapcase() != free[0] and
                        all(str(x['value']) != free[0].swapcase() for x in e['values']) else free[1])], None, 'characters differing in case')
        else:
            val = int(v['value'])
            lo, hi = INT_RANGE[prim]
            yield add([(nn, str(val))], 'duplicateEnumValue', 'same text')
            yield add([(nn, '0' + str(val) if val >= 0 else '-0' + str(-val))], 'duplicateEnumValue', 'leading zero')
            yield add([(nn, '000' + str(val) if val >= 0 else '-000' + str(-val))], 'duplicateEnumValue', 'leading zeros')
            used = {int(x['value']) for x in e['values']}
            if 0 not in used:
                yield add([(nn, '0'), (nn + 'b', '00')], 'duplicateEnumValue', '0 and 00')
                if lo < 0:
                    yield add([(nn, '0'), (nn + 'b', '-0')], 'duplicateEnumValue', '0 and -0')
                    yield add([(nn, '-0'), (nn + 'b', '0')], 'duplicateEnumValue', '-0 and 0')
            free = [x for x in (hi, hi - 1, 10, 11, 3) if x not in used]
            yield add([(nn, str(free[0]))], None, 'another value')
            if 10 not in used and 1 in used:
                yield add([(nn, '10')], None, '10 next to 1')
            if lo < 0 and -val not in used and val != 0 and lo <= -val <= hi:
                yield add([(nn, str(-val))], None, 'the negated value')



def m_parser(s):
    """parser-level rules that are expressible on the AST"""
    for addr, path, e, kind in walk_elems(s):
        if in_header(s, addr):
            continue
        c = copy.deepcopy(s)
        get(c, addr)['offset'] = 2 ** 64
        yield Mut(c, 'attribute', 'attrNotNumeric', path, '%s %s offset' % (kind, e['k']), 'reject', 'offset 2^64')
        break
    for addr, path, l, depth in walk_levels(s):
        c = copy.deepcopy(s)
        get(c, addr)['id'] = 2 ** 32 if depth == 0 else 2 ** 16
        yield Mut(c, 'attribute', 'attrNotNumeric', path, '%s id' % level_kind(depth), 'reject', 'id out of range')
        c = copy.deepcopy(s)
        big = (2 ** 32 if depth == 0 else 2 ** 16) - 1
        if depth == 0:
            # (the id is also written into the header's templateId: stay inside that member)
            mhc = find(s['types'], s.get('headerType', 'messageHeader'))
            tt, _ = _member_type(s, mhc, 'templateId') if mhc is not None and mhc['k'] == 'composite' else (None, None)
            if tt is not None and prim_max(tt['prim']) is not None:
                big = min(big, prim_max(tt['prim']))
        get(c, addr)['id'] = big
        if depth > 0 or all(m['id'] != big for m in s['messages']):
            yield Mut(c, 'attribute', None, path, '%s id' % level_kind(depth), 'accept', 'largest id')
        for i, f in enumerate(l.get('fields', [])[:1]):
            c = copy.deepcopy(s)
            get(c, addr)['fields'][i]['id'] = 65536
            yield Mut(c, 'attribute', 'attrNotNumeric', path + [f['name']], 'field id', 'reject', '65536')


def mutants(s, rng, names_rotate=0):
    """every single-rule edit of `s` at every applicable position; edits whose
    only purpose is another rule but which change a size and thereby push a
    later explicit offset / blockLength below its minimum are dropped.
    `names_rotate`: see `m_names`"""
    for m in _mutants(s, rng, names_rotate):
        if m.rule not in ('offset', 'blockLength') and m.cls not in ('cyclicReference',) and not layout_ok(m.schema):
            continue
        yield m


def _mutants(s, rng, names_rotate=0):
    yield from m_offsets(s)
    yield from m_offset_overflow(s)
    yield from m_block_length(s)
    yield from m_values(s, rng)
    yield from m_choices(s, rng)
    yield from m_unknown(s)
    yield from m_cycles(s, rng)
    yield from m_wrong_kind(s, rng)
    yield from m_arrays(s)
    yield from m_headers(s)
    yield from m_data_header_layout(s)
    yield from m_names(s, rng, names_rotate)
    yield from m_duplicates(s, rng)
    yield from m_constants(s, rng)
    yield from m_shared_headers(s, rng)
    yield from m_use_order(s, rng)
    yield from m_header_types(s, rng)
    yield from m_header_values(s, rng)
    yield from m_enum_values(s, rng)
    yield from m_parser(s)
