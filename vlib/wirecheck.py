"""Shared Layer-R runner for the schema-dependent wire properties
(C01 encode, C02/C03 decode, C04 cursor, C05 sizes, C17 header fillers)."""
import concurrent.futures as cf
import json
import os
import random
import re
import shutil
import subprocess

from . import core, schema as S, sbeppc, wire


def kvs(line):
    return dict(x.split('=', 1) for x in line.strip().split(' ') if '=' in x)


def strip_sizes(obs):
    """spec observations -> what a cursor traversal can print (no size queries)"""
    out = []
    for o in obs.split(';'):
        if re.search(r'\]:sz=\d+$', o):
            continue
        out.append(re.sub(r',sz=\d+$', '', o))
    return ';'.join(out)


class WireRun:
    def __init__(self, chk, nschemas, configs, values_per_msg=3, hdr_variants=True, ext=True, max_depth=3,
                 seed_salt=0):
        self.chk = chk
        self.nschemas = nschemas
        self.configs = configs
        self.values_per_msg = values_per_msg
        self.hdr_variants = hdr_variants
        self.ext = ext
        self.max_depth = max_depth
        self.salt = seed_salt
        self.workdir = os.path.join(core.BUILD, 'scratch', '%s-%d' % (chk.prop, os.getpid()))
        self.feat = {}
        self.cases = []
        self.stats = {'schemas': 0, 'schemas_rejected_by_both': 0, 'verdict_mismatch': 0, 'messages': 0,
                      'messages_skipped_unfit': 0, 'driver_builds': 0, 'decode_requests': 0, 'encode_requests': 0}
        self.model = None
        self.sbeppc = None

    def prepare(self):
        chk = self.chk
        self.model = chk.model_exe()
        if self.model is None:
            chk.report_unproved('model-driver-build', 'sbepp_model does not build')
            return False
        self.sbeppc, log = sbeppc.build(chk)
        if self.sbeppc is None:
            chk.report_unproved('sbeppc-build', log[-2000:])
            return False
        shutil.rmtree(self.workdir, ignore_errors=True)
        os.makedirs(self.workdir)
        return True

    def cleanup(self):
        shutil.rmtree(self.workdir, ignore_errors=True)

    def model_lines(self, lines):
        if not lines:
            return []
        rc, out = core.sh([self.model], input='\n'.join(lines) + '\n', timeout=1800)
        outs = out.splitlines()
        if rc != 0 or len(outs) != len(lines):
            raise RuntimeError('model driver: rc=%s, %d answers for %d requests' % (rc, len(outs), len(lines)))
        return outs

    def gen_cases(self):
        chk = self.chk
        cases = []
        for i in range(self.nschemas):
            rng = random.Random((chk.seed * 1000003 + i) * 31 + self.salt)
            g = S.Gen(rng, max_depth=self.max_depth, hdr_variants=self.hdr_variants)
            sch = g.schema()
            for k, v in g.feat.items():
                self.feat[k] = self.feat.get(k, 0) + v
            cases.append(wire.SchemaCase(chk, i, sch, self.workdir))
        with cf.ThreadPoolExecutor(core.NPROC) as ex:
            list(ex.map(lambda c: c.compile_schema(self.sbeppc), cases))
        outs = self.model_lines(['layout ' + c.sexp for c in cases])
        good = []
        for c, o in zip(cases, outs):
            self.stats['schemas'] += 1
            try:
                lay = json.loads(o)
            except ValueError:
                chk.report_unproved('model-layout', {'answer': o[:300], 'schema_xml': open(c.xml).read()})
                continue
            errs = [m for m in lay.get('messages', []) if 'error' in m]
            model_ok = 'error' not in lay and not errs
            if c.rc not in (0, 1):
                # crash / signal: reported by C09's check; unusable here
                self.stats.setdefault('sbeppc_crashes', 0)
                self.stats['sbeppc_crashes'] += 1
                continue
            if (c.rc == 0) != model_ok:
                self.stats['verdict_mismatch'] += 1
                chk.report_unproved('impl≠model: sbeppc and the layout model disagree on accepting a generated schema',
                                    {'sbeppc_rc': c.rc, 'sbeppc_out': c.out[:500], 'model': errs[:1] or lay.get('error'),
                                     'schema_xml': open(c.xml).read()})
                continue
            if c.rc != 0:
                self.stats['schemas_rejected_by_both'] += 1
                continue
            c.layout = lay
            good.append(c)
        self.cases = good
        return good

    def build_drivers(self):
        jobs = [(c, cxx, std) for c in self.cases for (cxx, std) in self.configs]

        def build(job):
            c, cxx, std = job
            exe, log = c.build_driver(cxx, std)
            return job, exe, log
        res = {}
        with cf.ThreadPoolExecutor(core.NPROC) as ex:
            for (c, cxx, std), exe, log in ex.map(build, jobs):
                self.stats['driver_builds'] += 1
                if exe is None:
                    self.chk.report_failure({
                        'kind': 'generated code does not compile', 'config': {'cxx': cxx, 'std': std},
                        'schema_xml': open(c.xml).read(), 'compiler_output': log[-3000:],
                        'case': {'what': 'driver-compile', 'cxx': cxx, 'std': std, 'first_error': first_error(log)}})
                else:
                    res[(c.idx, cxx, std)] = exe
        self.drivers = res
        return res

    def run_driver(self, exe, lines):
        """One answer per request line.  A driver that hangs (a traversal that does not advance) or dies on one
        request must not hide the others: on a timeout / crash / short output the lines are re-run one at a time
        and the offending ones answer `st=TIMEOUT` / `st=CRASH` (which no specification line equals)."""
        import subprocess
        try:
            rc, out = core.sh([exe], input='\n'.join(lines) + '\n', timeout=max(60, 2 * len(lines)))
            outs = out.splitlines()
            if rc == 0 and len(outs) == len(lines):
                return rc, outs
        except subprocess.TimeoutExpired:
            pass
        outs = []
        for line in lines:
            try:
                rc1, o1 = core.sh([exe], input=line + '\n', timeout=20)
                o1 = o1.splitlines()
                outs.append(o1[0] if rc1 == 0 and len(o1) == 1 else 'st=CRASH rast=CRASH curst=CRASH rc=%d' % rc1)
            except subprocess.TimeoutExpired:
                outs.append('st=TIMEOUT rast=TIMEOUT curst=TIMEOUT')
        return 0, outs


def first_error(log):
    for l in log.splitlines():
        if 'error' in l:
            return re.sub(r'^[^:]*:\d+:\d+: ', '', l)[:200]
    return log[:200]


def decode_check(chk, run, judge):
    """Decode reference images printed by the Lean specification with the real
    generated accessors.  `judge(kind, impl, spec, model)` lets the property
    module select what it compares (everything, sizes only, cursor only...)."""
    bo_of = {c.idx: c.layout['byteOrder'] for c in run.cases}
    reqs = []   # (case, msgname, value, model_request)
    for c in run.cases:
        for m in c.layout['messages']:
            if not wire.fits(m) or not wire.std_data_headers(m):
                run.stats['messages_skipped_unfit'] += 1
                continue
            run.stats['messages'] += 1
            for k in range(run.values_per_msg):
                rng = random.Random(hash((chk.seed, c.idx, m['name'], k, run.salt)) & 0xffffffff)
                v = wire.gen_message_value(rng, bo_of[c.idx], m, c.s['id'], c.s['version'], ext_ok=run.ext)
                reqs.append((c, m, v, 'decode (req %s (msg %s) (value %s))' % (c.sexp, m['name'], wire.mval_sexp(v))))
    mouts = run.model_lines([r[3] for r in reqs])
    per_driver = {}
    for (c, m, v, _), mo in zip(reqs, mouts):
        mk = kvs(mo)
        if 'spec' not in mk:
            chk.report_unproved('model-decode', {'answer': mo[:300], 'schema_xml': open(c.xml).read()})
            continue
        if mk.get('conf') != 'true':
            chk.report_unproved('generated value tree is not a well-formed image (generator defect)',
                                {'answer': mo[:300]})
            continue
        for (cxx, std) in run.configs:
            exe = run.drivers.get((c.idx, cxx, std))
            if exe:
                per_driver.setdefault((exe, cxx, std, c.idx), []).append((c, m, v, mk))
    nontrivial = set()
    for (exe, cxx, std, _), items in per_driver.items():
        rc, outs = run.run_driver(exe, [decode_line(m, mk) for (c, m, v, mk) in items])
        if rc != 0 or len(outs) != len(items):
            chk.report_unproved('driver-run', {'rc': rc, 'answers': len(outs), 'requests': len(items)})
            continue
        for (c, m, v, mk), io in zip(items, outs):
            run.stats['decode_requests'] += 1
            chk.cov['evaluations'] += 1
            ik = kvs(io)
            nontrivial.add((c.idx, m['name'], mk['image']))
            problems = judge(ik, mk)
            for kind, detail in problems:
                rep = {'kind': kind, 'config': {'cxx': cxx, 'std': std}, 'schema_xml': open(c.xml).read(),
                       'message': m['name'], 'image': mk['image'], 'observed': detail,
                       'driver_line': decode_line(m, mk),
                       'case': dict(detail.get('case', {}), cxx=cxx, std=std,
                                    root_members=len(m['level']['leaves']) + len(m['level']['groups'])
                                    + len(m['level']['datas']))}
                if kind == 'impl≠spec':
                    chk.report_failure(rep)
                else:
                    chk.report_unproved(kind, rep)
            if len(chk.cov['samples']) < 4:
                chk.sample({'message': m['name'], 'image': mk['image'][:120], 'spec_obs': mk['spec'][:300]})
    chk.cov['distinct_nontrivial'] += len(nontrivial)
    return per_driver


def decode_line(m, mk):
    """driver request: image, then the trait-level size_bytes arguments (total
    entry counts per group in pre-order, total data size if the message has data)"""
    args = [x for x in mk.get('counts', '').split(',') if x]
    if len(wire.trait_param_types(m['level'])) == len(args) + 1:
        args.append(mk.get('tdata', '0'))
    return 'decode %s %s %s' % (m['name'], mk['image'], ' '.join(args))


def constexpr_check(chk, run, max_cases=6, compilers=(('g++', 'c++20'), ('clang++-14', 'c++20'))):
    """Constant evaluation (C++20): for a few generated schemas, a translation unit of static_asserts decodes a
    constexpr image through the generated accessors inside constant expressions; expected values come from the
    Lean specification.  Compiled with -fsyntax-only: a wrong value or UB in constant evaluation is a compile
    error."""
    import re as _re
    bo_of = {c.idx: c.layout['byteOrder'] for c in run.cases}
    n = 0
    for c in run.cases[:max_cases]:
        pkg = c.s['package']
        src = ['#include <%s/%s.hpp>' % (pkg, pkg), '#include "ce_check.hpp"', '']
        reqs = []
        for m in c.layout['messages']:
            if not wire.fits(m) or not wire.std_data_headers(m):
                continue
            rng = random.Random(hash((chk.seed, c.idx, m['name'], 'ce')) & 0xffffffff)
            v = wire.gen_message_value(rng, bo_of[c.idx], m, c.s['id'], c.s['version'], ext_ok=run.ext)
            reqs.append((m, 'decode (req %s (msg %s) (value %s))' % (c.sexp, m['name'], wire.mval_sexp(v))))
        if not reqs:
            continue
        outs = run.model_lines([r[1] for r in reqs])
        nasserts = 0
        for (m, _), o in zip(reqs, outs):
            mk = kvs(o)
            if 'spec' not in mk:
                continue
            img = mk['image']
            name = m['name']
            cls = '::%s::messages::%s' % (pkg, name)
            src.append('namespace ns_%s {' % name)
            src.append('constexpr std::array<char, %d> img{%s};' % (max(1, len(img) // 2), ', '.join(
                'static_cast<char>(0x%s)' % img[i:i + 2] for i in range(0, len(img), 2)) or '0'))
            src.append('constexpr auto m = sbepp::make_const_view<%s>(img.data(), %d);' % (cls, len(img) // 2))
            spec = dict(x.split('=', 1) for x in mk['spec'].split(';') if '=' in x and not x.startswith('h.'))
            for lf in m['level']['leaves']:
                key = '.'.join(lf['path'])
                if lf['kind'] == 'array' or key not in spec:
                    continue
                src.append('static_assert(ce::bits(%s) == UINT64_C(0x%s), "%s");' % (
                    wire.cpp_path('m', lf['path']), spec[key], key))
                nasserts += 1
            for g in m['level']['groups']:
                mm = _re.match(r'n=(\d+),sz=(\d+)', spec.get(g['name'] + ':n', '').join(['n=', '']) if False else '')
                gkey = [x for x in mk['spec'].split(';') if x.startswith(g['name'] + ':n=')]
                if gkey:
                    cnt, sz = _re.match(r'.*:n=(\d+),sz=(\d+)', gkey[0]).groups()
                    src.append('static_assert(m.%s().size() == %s, "count");' % (g['name'], cnt))
                    src.append('static_assert(sbepp::size_bytes(m.%s()) == %s, "group size");' % (g['name'], sz))
                    nasserts += 2
            size = mk['spec'].rsplit('size=', 1)[-1]
            src.append('static_assert(sbepp::size_bytes(m) == %s, "message size");' % size)
            nasserts += 1
            src.append('}')
        path = os.path.join(c.dir, 'ce.cpp')
        open(path, 'w').write('\n'.join(src) + '\n')
        for cxx, std in compilers:
            rc, log = core.sh([cxx, '-std=' + std, '-fsyntax-only', '-w', '-I' + os.path.join(c.dir, 'gen'),
                               '-I' + os.path.join(core.REPO, 'sbepp/src'), '-I' + os.path.join(core.VERIF, 'harness'),
                               path], timeout=600)
            n += nasserts
            chk.cov['evaluations'] += nasserts
            if rc != 0:
                chk.report_failure({'kind': 'impl≠spec', 'what': 'constant evaluation: a static_assert over the generated '
                                    'accessors failed or was not a constant expression',
                                    'config': {'cxx': cxx, 'std': std}, 'schema_xml': open(c.xml).read(),
                                    'tu': open(path).read()[:6000], 'compiler_output': log[-2500:],
                                    'case': {'what': 'constexpr-decode', 'cxx': cxx, 'std': std,
                                             'first_error': first_error(log)}})
    chk.cov['constexpr_static_asserts'] = n
    return n


def first_diff(a, b):
    xa, xb = a.split(';'), b.split(';')
    for i, (x, y) in enumerate(zip(xa, xb)):
        if x != y:
            return {'index': i, 'impl': x, 'expected': y}
    return {'index': min(len(xa), len(xb)), 'impl_len': len(xa), 'expected_len': len(xb)}


def encode_check(chk, run, modes=('ra', 'cur')):
    bo_of = {c.idx: c.layout['byteOrder'] for c in run.cases}
    reqs = []
    for c in run.cases:
        for m in c.layout['messages']:
            if not wire.fits(m) or not wire.std_data_headers(m):
                run.stats['messages_skipped_unfit'] += 1
                continue
            run.stats['messages'] += 1
            for k in range(run.values_per_msg):
                rng = random.Random(hash((chk.seed, c.idx, m['name'], k, run.salt, 'e')) & 0xffffffff)
                v = wire.gen_message_value(rng, bo_of[c.idx], m, c.s['id'], c.s['version'], ext_ok=False)
                reqs.append([c, m, v, rng, None])
    # image size first (model), then the expected buffer for a random prefill
    mo1 = run.model_lines(['decode (req %s (msg %s) (value %s))' % (c.sexp, m['name'], wire.mval_sexp(v))
                           for (c, m, v, _, _) in reqs])
    lines2 = []
    for r, o in zip(reqs, mo1):
        n = len(kvs(o).get('image', '')) // 2
        r[4] = wire.rand_bytes(r[3], n + r[3].choice([0, 1, 5]))
        lines2.append('encode (req %s (msg %s) (value %s) (prefill x%s))' % (
            r[0].sexp, r[1]['name'], wire.mval_sexp(r[2]), wire.hexs(r[4])))
    mo2 = run.model_lines(lines2)
    per_driver = {}
    for (c, m, v, _, prefill), o in zip(reqs, mo2):
        ek = kvs(o)
        if 'expect' not in ek:
            chk.report_unproved('model-encode', {'answer': o[:300], 'schema_xml': open(c.xml).read()})
            continue
        toks = wire.encode_tokens(bo_of[c.idx], m['level'], v['root'])
        for (cxx, std) in run.configs:
            exe = run.drivers.get((c.idx, cxx, std))
            if exe:
                for mode in modes:
                    per_driver.setdefault((exe, cxx, std), []).append(
                        (c, m, ek, 'encode %s %s %s %s' % (m['name'], mode, wire.hexs(prefill), ' '.join(toks)), mode))
    nontrivial = set()
    for (exe, cxx, std), items in per_driver.items():
        rc, outs = run.run_driver(exe, [it[3] for it in items])
        if rc != 0 or len(outs) != len(items):
            chk.report_unproved('driver-run', {'rc': rc, 'answers': len(outs), 'requests': len(items)})
            continue
        for (c, m, ek, line, mode), io in zip(items, outs):
            run.stats['encode_requests'] += 1
            chk.cov['evaluations'] += 1
            ik = kvs(io)
            nontrivial.add((c.idx, m['name'], line[:200]))
            ok = ik.get('buf') == ek['expect'] and ik.get('ret') == ek['end'] and ik.get('st') == 'ok'
            if not ok:
                what = 'bytes' if ik.get('buf') != ek['expect'] else ('status' if ik.get('st') != 'ok' else 'returned_size')
                chk.report_failure({
                    'kind': 'impl≠spec', 'config': {'cxx': cxx, 'std': std}, 'schema_xml': open(c.xml).read(),
                    'message': m['name'], 'driver_line': line,
                    'observed': {'impl': io[:2000], 'expected': ek},
                    'case': {'what': 'encode', 'mode': mode, 'differs': what, 'st': ik.get('st'), 'cxx': cxx, 'std': std,
                             'root_members': len(m['level']['leaves']) + len(m['level']['groups'])
                             + len(m['level']['datas'])}})
            if len(chk.cov['samples']) < 4:
                chk.sample({'message': m['name'], 'mode': mode, 'driver_line': line[:200], 'expected': ek['expect'][:120]})
    chk.cov['distinct_nontrivial'] += len(nontrivial)


def finish_cov(chk, run, rule):
    chk.cov['programs'] = run.stats['schemas']
    chk.cov['traces_validated_against_impl'] = chk.cov['evaluations']
    chk.cov['disagreements_checked'] = chk.cov['evaluations']
    chk.cov['rule'] = rule
    chk.cov['run_stats'] = run.stats
    chk.cov['input_feature_histogram'] = dict(sorted(run.feat.items()))
    chk.cov['configurations'] = ['%s -std=%s' % c for c in run.configs]


def configs_for(tier, quick=(('g++', 'c++17'), ('clang++-14', 'c++11'))):
    if tier == 'thorough':
        return [(c, s) for c in ('g++', 'clang++-14') for s in ('c++11', 'c++14', 'c++17', 'c++20', 'c++2b')]
    return list(quick)
