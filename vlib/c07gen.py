"""C07 - schema streams and translation units for the compile differential.

(a) `clash_schema`   : name-clash stream.  Entity names come from a small pool of
                       clash patterns (entity named like its member, like a
                       mangled form `x_0`, like `types`/`messages`/`schema`/
                       `detail`, like another level's path concatenation, like an
                       identifier of the generator's templates, keywords in a
                       different case, names differing only in case).
(b) `literal_schema` : literal boundary stream (min/max/null/const/enum values at
                       the type boundaries, ids/versions at their maxima, huge
                       offsets and block lengths, every printable character as a
                       char constant, free text with quotes, backslashes,
                       newlines, trigraphs, non-ASCII).
(c) `header_alone_tu`, `touch_tu` : one TU per generated header that includes it
                       ALONE, and a TU that names every entity under its
                       unmodified schema name in the documented namespaces and
                       tag paths and instantiates every accessor, trait and
                       visitor entry point.

S-expressions: `to_sexp` extends vlib/schema.py's transport with the optional
`(schemaName N)` (sbeppc --schema-name) and `(packageText x<hex>)` fields for
packages that are not plain atoms.
"""
import os
import random
import re

from . import schema as S

# ------------------------------------------------------------------ name pools

# identifiers that the generator's templates use or introduce (see extract/gen_templates.py, which scrapes them
# from the fmt templates on every run; this list only seeds the random stream)
TEMPLATE_IDENTS = ['Byte', 'Byte2', 'Cursor', 'T', 'Visitor', 'Tag', 'Args', 'args', 'v', 'c', 'e', 'visitor',
                   'header', 'last', 'value_type', 'size_bytes', 'min_value', 'max_value', 'null_value', 'std',
                   'sbepp', 'detail', 'types', 'messages', 'schema', 'composite_base', 'message_base', 'entry_base',
                   'bitset_base', 'required_base', 'optional_base', 'flat_group_base', 'nested_group_base',
                   'num_in_group', 'total_data_size', 'block_length', 'end_ptr', 'type', 'primitive_type',
                   'header_type', 'type_list', 'operator_', 'tag_invoke', 'value', 'name', 'description',
                   'blockLength', 'numInGroup', 'templateId', 'schemaId', 'version', 'length', 'varData',
                   'numGroups', 'numVarDataFields', 'NULL', 'size_t', 'int8_t', 'uint64_t', 'endian', 'cursor',
                   'this_', 'dimension_type_tag', 'schema_tag', 'field_tags', 'entry_type', 'dimension_type',
                   'length_type', 'encoding_type', 'value_type_tag', 'element_tags', 'choice_tags', 'value_tags',
                   'since_version', 'deprecated', 'presence', 'offset', 'id', 'semantic_type', 'character_encoding']
KEYWORD_CASE = ['Class', 'INT', 'Template', 'Operator', 'Namespace', 'Default', 'Char', 'This', 'Typename', 'Auto',
                'final', 'override', 'import', 'module']
EXTRA_IDENTS = ['has_value', 'value_or', 'in_range', 'EOF', 'errno', 'stdin', 'assert', 'BIG_ENDIAN', 'INT8_MAX',
                'offsetof', 'SIZE_MAX', 'EINVAL', 'alloca', 'cursor_range', 'size', 'begin', 'front', 'data', 'push_back',
                'static_array_ref', 'dynamic_array_ref', 'resize', 'empty', 'iterator']
# identifiers with a known effect somewhere: the quick tier samples mostly from these
HOT_IDENTS = ['Byte', 'T', 'Cursor', 'Args', 'args', 'v', 'last', 'std', 'tag_invoke', 'Visitor', 'value', 'value_type',
              'NULL', 'EOF', 'assert', 'size', 'begin', 'in_range', 'has_value', 'Byte2', 'Tag', 'c', 'header', 'visitor',
              'types', 'messages', 'schema', 'detail', 'sbepp', 'size_bytes', 'num_in_group', 'total_data_size']
BENIGN = ['a', 'b', 'A', 'B', 'x', 'X', 'f', 'g', 'price', 'Price', 'qty', 'a_b', 'b_c', 'c_d', 'a_b_c', 'b_c_d', 'd',
          'foo', 'Foo', 'bar', 'x_0', 'x_1', 'x_0_0', 'a_0', 'A_0', 'g_entry', 'g_0', 'g_0_entry', 'f_entry', 'a_entry',
          'types_0', 'messages_0', 'M', 'M_0', 'Msg', 'msg', 'E', 'S', 'C', 'one', 'two', 'n1', 'n2', 'n3', 'n4']


class Pool:
    """names for one schema: mostly benign, hazards injected sparsely so that most schemas carry at most one"""

    def __init__(self, rng, hazard_rate):
        self.r = rng
        self.rate = hazard_rate
        self.hazards = []

    def pick(self, used, what):
        r = self.r
        for _ in range(50):
            if r.random() < self.rate:
                n = r.choice(TEMPLATE_IDENTS + KEYWORD_CASE)
                hazard = True
            else:
                n = r.choice(BENIGN)
                hazard = False
            key = n.lower() if what == 'type' else n
            if key not in used:
                used.add(key)
                if hazard:
                    self.hazards.append((what, n))
                return n
        k = 0
        while ('u%d' % k) in used:
            k += 1
        used.add('u%d' % k)
        return 'u%d' % k


def std_headers(hdr='messageHeader', dim='groupSizeEncoding', var='varDataEncoding', prim='uint16'):
    return [
        {'k': 'composite', 'name': hdr, 'elems': [{'k': 'type', 'name': n, 'prim': prim}
                                                  for n in ('blockLength', 'templateId', 'schemaId', 'version')]},
        {'k': 'composite', 'name': dim, 'elems': [{'k': 'type', 'name': 'blockLength', 'prim': prim},
                                                  {'k': 'type', 'name': 'numInGroup', 'prim': prim}]},
        {'k': 'composite', 'name': var, 'elems': [{'k': 'type', 'name': 'length', 'prim': 'uint32'},
                                                  {'k': 'type', 'name': 'varData', 'prim': 'uint8', 'length': 0}]},
    ]


def find(types, name):
    for t in types:
        if t['name'].lower() == name.lower():
            return t
    return None


# ------------------------------------------------------------------ (a) name-clash stream

def clash_schema(rng, hazard_rate=0.04):
    """small schema whose names come from the clash pool"""
    pool = Pool(rng, hazard_rate)
    feat = {}

    def hit(k):
        feat[k] = feat.get(k, 0) + 1
    tused = set()
    hdr = pool.pick(tused, 'type') if rng.random() < 0.15 else 'messageHeader'
    tused.add(hdr.lower())
    dim = pool.pick(tused, 'type') if rng.random() < 0.15 else 'groupSizeEncoding'
    tused.add(dim.lower())
    var = pool.pick(tused, 'type') if rng.random() < 0.15 else 'varDataEncoding'
    tused.add(var.lower())
    types = std_headers(hdr, dim, var)
    fieldable = []

    def member_name(used, what, owner):
        # entity named like its owner (the mangling trigger) with some probability
        if rng.random() < 0.12 and owner not in used:
            used.add(owner)
            hit('clash.member_like_owner')
            return owner
        return pool.pick(used, what)

    def gen_inline(depth, owner, used):
        c = rng.random()
        n = member_name(used, 'element', owner)
        if c < 0.4:
            e = {'k': 'type', 'name': n, 'prim': rng.choice(['uint8', 'int32', 'char', 'uint64', 'double'])}
            if rng.random() < 0.2:
                e['presence'] = 'optional'
            elif rng.random() < 0.15:
                e.update({'presence': 'constant', 'const': '7', 'prim': 'uint8'})
            elif e['prim'] in ('uint8', 'char') and rng.random() < 0.25:
                e['length'] = rng.choice([0, 3])
            return e
        if c < 0.55:
            vu = set()
            return {'k': 'enum', 'name': n, 'enc': 'uint8',
                    'values': [{'name': member_name(vu, 'enumerator', n), 'value': str(i + 1)} for i in range(rng.randint(1, 3))]}
        if c < 0.7:
            vu = set()
            return {'k': 'set', 'name': n, 'enc': 'uint8',
                    'choices': [{'name': member_name(vu, 'choice', n), 'index': i} for i in range(rng.randint(1, 3))]}
        if c < 0.85 and depth < 2:
            vu = set()
            return {'k': 'composite', 'name': n,
                    'elems': [gen_inline(depth + 1, n, vu) for _ in range(rng.randint(1, 3))]}
        if fieldable:
            return {'k': 'ref', 'name': n, 'type': rng.choice(fieldable)}
        return {'k': 'type', 'name': n, 'prim': 'uint16'}

    for _ in range(rng.randint(2, 6)):
        n = pool.pick(tused, 'type')
        c = rng.random()
        if c < 0.3:
            t = {'k': 'type', 'name': n, 'prim': rng.choice(S.PRIMS)}
            r2 = rng.random()
            if r2 < 0.2:
                t['presence'] = 'optional'
            elif r2 < 0.3 and t['prim'] in S.SINGLE_BYTE:
                t['length'] = rng.choice([0, 2, 5])
            elif r2 < 0.4:
                t.update({'prim': 'uint16', 'presence': 'constant', 'const': '9'})
            elif r2 < 0.5:
                t.update({'prim': 'char', 'presence': 'constant', 'const': 'ab', 'length': 2})
            hit('type')
        elif c < 0.5:
            vu = set()
            t = {'k': 'enum', 'name': n, 'enc': rng.choice(['uint8', 'char', 'int32']), 'values': []}
            for i in range(rng.randint(1, 4)):
                t['values'].append({'name': member_name(vu, 'enumerator', n),
                                    'value': chr(65 + i) if t['enc'] == 'char' else str(i)})
            hit('enum')
        elif c < 0.65:
            vu = set()
            t = {'k': 'set', 'name': n, 'enc': rng.choice(S.UNSIGNED),
                 'choices': [{'name': member_name(vu, 'choice', n), 'index': i} for i in range(rng.randint(1, 4))]}
            hit('set')
        else:
            vu = set()
            t = {'k': 'composite', 'name': n, 'elems': [gen_inline(0, n, vu) for _ in range(rng.randint(1, 4))]}
            hit('composite')
        types.append(t)
        fieldable.append(n)

    def gen_level(depth, owner, path):
        used = set()
        lvl = {'fields': [], 'groups': [], 'datas': []}
        for _ in range(rng.randint(0, 3)):
            n = member_name(used, 'field', owner)
            ty = rng.choice(fieldable + ['uint32', 'char', 'int64']) if rng.random() < 0.7 else rng.choice(S.PRIMS)
            f = {'name': n, 'id': rng.randint(1, 1000), 'type': ty}
            t = find(types, ty)
            if t is not None and t['k'] == 'enum' and rng.random() < 0.2:
                f.update({'presence': 'constant', 'valueRef': '%s.%s' % (t['name'], t['values'][0]['name'])})
                hit('field.const_enum')
            lvl['fields'].append(f)
        if depth < 3:
            for _ in range(rng.choice([0, 0, 1, 1, 2, 3] if depth < 2 else [0, 0, 1])):
                # path concatenation patterns: a / b_c_d, a_b / c_d, a_b_c / d
                if rng.random() < 0.5:
                    n = rng.choice(['a', 'a_b', 'a_b_c', 'b', 'b_c', 'b_c_d', 'c_d', 'c', 'd', 'g'])
                    if n in used:
                        n = member_name(used, 'group', owner)
                    used.add(n)
                else:
                    n = member_name(used, 'group', owner)
                g = gen_level(depth + 1, n, path + [n])
                g.update({'name': n, 'id': rng.randint(1, 1000), 'dim': dim})
                lvl['groups'].append(g)
                hit('group.depth%d' % (depth + 1))
        for _ in range(rng.choice([0, 0, 0, 1, 2])):
            lvl['datas'].append({'name': member_name(used, 'data', owner), 'id': rng.randint(1, 1000), 'type': var})
            hit('data')
        return lvl

    msgs = []
    mused = set()
    for i in range(rng.randint(1, 3)):
        n = pool.pick(mused, 'message')
        m = gen_level(0, n, [])
        m.update({'name': n, 'id': i + 1})
        msgs.append(m)
    sch = {'package': 'ns', 'id': rng.randint(0, 60000), 'version': rng.randint(0, 9), 'headerType': hdr,
           'byteOrder': rng.choice(['littleEndian', 'bigEndian']), 'types': types, 'messages': msgs}
    if hdr == 'messageHeader' and rng.random() < 0.5:
        del sch['headerType']
    for k, _ in pool.hazards:
        hit('hazard.' + k)
    return sch, feat


def path_clash_schema(rng, force=None):
    """the three-way `size_bytes` parameter-name clash family: groups whose paths concatenate equally;
    `force` = (number of ways, inside a group?) for the fixed probes"""
    parts = ['a', 'b', 'c', 'd']
    cuts = rng.sample([1, 2, 3], rng.choice([2, 3, 3]))
    if force:
        cuts = [1, 2, 3][:force[0]]
    lvl_groups = []
    for cut in sorted(cuts):
        top = '_'.join(parts[:cut])
        inner = '_'.join(parts[cut:])
        lvl_groups.append({'name': top, 'id': cut, 'dim': 'groupSizeEncoding', 'fields': [], 'datas': [],
                           'groups': [{'name': inner, 'id': 10 + cut, 'dim': 'groupSizeEncoding',
                                       'fields': [{'name': 'x', 'id': 1, 'type': 'uint8'}], 'groups': [], 'datas': []}]})
    inside_group = rng.random() < 0.4
    if force:
        inside_group = force[1]
    if inside_group:
        lvl_groups = [{'name': 'outer', 'id': 99, 'dim': 'groupSizeEncoding', 'fields': [], 'datas': [],
                       'groups': lvl_groups}]
    return {'package': 'ns', 'id': 1, 'version': 0, 'byteOrder': 'littleEndian', 'types': std_headers(),
            'messages': [{'name': 'M', 'id': 1, 'fields': [], 'groups': lvl_groups, 'datas': []}]}, \
        {'pathclash.%d_way%s' % (len(cuts), '_in_group' if inside_group else ''): 1}


# ------------------------------------------------------------------ (a') exhaustive small scope: one identifier, one position

def base_schema():
    """one entity of every kind; every name below is a `position` of the sweep"""
    types = std_headers() + [
        {'k': 'type', 'name': 'Ts', 'prim': 'uint32'},
        {'k': 'type', 'name': 'To', 'prim': 'int16', 'presence': 'optional'},
        {'k': 'type', 'name': 'Ta', 'prim': 'char', 'length': 4},
        {'k': 'type', 'name': 'Tk', 'prim': 'uint16', 'presence': 'constant', 'const': '9'},
        {'k': 'type', 'name': 'Tks', 'prim': 'char', 'presence': 'constant', 'const': 'abc', 'length': 3},
        {'k': 'enum', 'name': 'En', 'enc': 'uint8', 'values': [{'name': 'Ev1', 'value': '1'}, {'name': 'Ev2', 'value': '2'}]},
        {'k': 'set', 'name': 'St', 'enc': 'uint8', 'choices': [{'name': 'Sc1', 'index': 0}, {'name': 'Sc2', 'index': 1}]},
        {'k': 'composite', 'name': 'Co2', 'elems': [{'k': 'type', 'name': 'c2_t', 'prim': 'uint8'}]},
        {'k': 'composite', 'name': 'Co', 'elems': [
            {'k': 'type', 'name': 'ce_t', 'prim': 'uint32'},
            {'k': 'type', 'name': 'ce_k', 'prim': 'uint8', 'presence': 'constant', 'const': '3'},
            {'k': 'type', 'name': 'ce_a', 'prim': 'uint8', 'length': 2},
            {'k': 'enum', 'name': 'ce_e', 'enc': 'char', 'values': [{'name': 'cev', 'value': 'A'}]},
            {'k': 'set', 'name': 'ce_s', 'enc': 'uint16', 'choices': [{'name': 'cec', 'index': 3}]},
            {'k': 'composite', 'name': 'ce_c', 'elems': [{'k': 'type', 'name': 'cc_t', 'prim': 'int8'}]},
            {'k': 'ref', 'name': 'ce_r', 'type': 'Ts'},
            {'k': 'ref', 'name': 'ce_rc', 'type': 'Co2'},
            {'k': 'ref', 'name': 'ce_re', 'type': 'En'}]},
    ]
    dim, var = 'groupSizeEncoding', 'varDataEncoding'
    msgs = [{'name': 'Ms', 'id': 1, 'fields': [
        {'name': 'f_p', 'id': 1, 'type': 'uint32'}, {'name': 'f_t', 'id': 2, 'type': 'Ts'},
        {'name': 'f_o', 'id': 3, 'type': 'To'}, {'name': 'f_a', 'id': 4, 'type': 'Ta'},
        {'name': 'f_k', 'id': 5, 'type': 'Tk'}, {'name': 'f_e', 'id': 6, 'type': 'En'},
        {'name': 'f_s', 'id': 7, 'type': 'St'}, {'name': 'f_c', 'id': 8, 'type': 'Co'},
        {'name': 'f_ke', 'id': 9, 'type': 'En', 'presence': 'constant', 'valueRef': 'En.Ev1'}],
        'groups': [
            {'name': 'Gr', 'id': 10, 'dim': dim, 'fields': [{'name': 'g_f', 'id': 11, 'type': 'uint8'}],
             'groups': [{'name': 'Gn', 'id': 12, 'dim': dim, 'fields': [{'name': 'n_f', 'id': 13, 'type': 'Ts'}],
                         'groups': [], 'datas': [{'name': 'n_d', 'id': 14, 'type': var}]}],
             'datas': [{'name': 'g_d', 'id': 15, 'type': var}]},
            {'name': 'Gr2', 'id': 16, 'dim': dim, 'fields': [{'name': 'g2_k', 'id': 17, 'type': 'Tk'}], 'groups': [],
             'datas': []},
            {'name': 'Gr3', 'id': 18, 'dim': dim, 'fields': [{'name': 'g3_f', 'id': 19, 'type': 'uint16'}], 'groups': [],
             'datas': []}],
        'datas': [{'name': 'Da', 'id': 20, 'type': var}, {'name': 'Db', 'id': 21, 'type': var}]},
        {'name': 'Ms2', 'id': 2, 'fields': [{'name': 'm2_f', 'id': 1, 'type': 'uint8'}], 'groups': [], 'datas': []}]
    return {'package': 'ns', 'id': 1, 'version': 0, 'byteOrder': 'littleEndian', 'types': types, 'messages': msgs}


POSITIONS = ['Ts', 'To', 'Ta', 'Tk', 'Tks', 'En', 'Ev1', 'St', 'Sc1', 'Co2', 'c2_t', 'Co', 'ce_t', 'ce_k', 'ce_a', 'ce_e',
             'cev', 'ce_s', 'cec', 'ce_c', 'cc_t', 'ce_r', 'ce_rc', 'ce_re', 'Ms', 'f_p', 'f_t', 'f_o', 'f_a', 'f_k', 'f_e',
             'f_s', 'f_c', 'f_ke', 'Gr', 'g_f', 'Gn', 'n_f', 'n_d', 'g_d', 'Gr2', 'g2_k', 'Gr3', 'g3_f', 'Da', 'Db', 'Ms2',
             'm2_f', 'messageHeader', 'groupSizeEncoding', 'varDataEncoding']


def rename(obj, old, new):
    """replace the name `old` (declaration and every reference) by `new`"""
    if isinstance(obj, dict):
        out = {}
        for k, v in obj.items():
            if k in ('name', 'type', 'enc', 'dim', 'headerType') and v == old:
                out[k] = new
            elif k == 'valueRef' and isinstance(v, str):
                a, _, b = v.partition('.')
                out[k] = '%s.%s' % (new if a == old else a, new if b == old else b)
            else:
                out[k] = rename(v, old, new)
        return out
    if isinstance(obj, list):
        return [rename(x, old, new) for x in obj]
    return obj


def respell_references(sch, rng, p=0.5):
    """SBE type lookup is case-insensitive: respell some references to declared public types (`type` of fields, refs
    and data, `encodingType`, `dimensionType`, `headerType`, the enum part of `valueRef`) in another letter case than
    the declaration.  Generated code must keep using the DECLARED name (file names of includes, namespaces, tags).
    Returns the number of respelled references."""
    declared = {t['name'] for t in sch['types']}
    count = [0]

    def variant(name):
        cands = [v for v in (name.swapcase(), name.upper(), name.lower(), name[:1].swapcase() + name[1:]) if v != name]
        return rng.choice(cands) if cands else name

    def walk(o):
        if isinstance(o, dict):
            for k in ('type', 'enc', 'dim'):
                if isinstance(o.get(k), str) and o[k] in declared and rng.random() < p:
                    o[k] = variant(o[k])
                    count[0] += 1
            if isinstance(o.get('valueRef'), str):
                a, _, b = o['valueRef'].partition('.')
                if a in declared and rng.random() < p:
                    o['valueRef'] = variant(a) + '.' + b
                    count[0] += 1
            for v in list(o.values()):
                walk(v)
        elif isinstance(o, list):
            for x in o:
                walk(x)
    walk(sch['types'])
    walk(sch['messages'])
    hdr = sch.get('headerType', 'messageHeader')
    if hdr in declared and rng.random() < p:
        sch['headerType'] = variant(hdr)
        count[0] += 1
    return count[0]


def sweep_schema(ident, position):
    sch = rename(base_schema(), position, ident)
    if position == 'messageHeader':
        sch['headerType'] = ident
    return sch


# ------------------------------------------------------------------ (a'') adversarial names

def adversarial_bases():
    """schemas in which every naming decision of names_generator.hpp is taken both ways: public types, types defined
    inside composites, messages and groups that must be mangled (a member named like the entity, a member named
    like the group's entry class, an inline type met twice) next to ones that keep their names"""
    dim = 'groupSizeEncoding'
    types_a = std_headers() + [
        {'k': 'enum', 'name': 'Side', 'enc': 'uint8', 'values': [{'name': 'Side', 'value': '1'}, {'name': 'Buy', 'value': '2'}]},
        {'k': 'composite', 'name': 'Px', 'elems': [{'k': 'type', 'name': 'Px', 'prim': 'uint8'},
                                                   {'k': 'type', 'name': 'mant', 'prim': 'int32'}]},
        {'k': 'composite', 'name': 'Qx', 'elems': [{'k': 'type', 'name': 'mant', 'prim': 'uint8'},
                                                   {'k': 'composite', 'name': 'in', 'elems': [
                                                       {'k': 'type', 'name': 'deep', 'prim': 'uint16'}]}]},
    ]
    msgs_a = [
        {'name': 'Ord', 'id': 1, 'fields': [{'name': 'Ord', 'id': 1, 'type': 'uint8'}, {'name': 'side', 'id': 2, 'type': 'Side'}],
         'groups': [
             {'name': 'legs', 'id': 10, 'dim': dim, 'fields': [{'name': 'legs', 'id': 11, 'type': 'uint8'}],
              'groups': [{'name': 'sub', 'id': 12, 'dim': dim, 'fields': [{'name': 'x', 'id': 13, 'type': 'uint8'}],
                          'groups': [], 'datas': []}], 'datas': []},
             {'name': 'fills', 'id': 14, 'dim': dim, 'fields': [{'name': 'fills_entry', 'id': 15, 'type': 'uint16'}],
              'groups': [], 'datas': []}],
         'datas': []},
        {'name': 'Quote', 'id': 2, 'fields': [{'name': 'q', 'id': 1, 'type': 'uint8'}, {'name': 'qx', 'id': 2, 'type': 'Qx'}],
         'groups': [{'name': 'lvl', 'id': 10, 'dim': dim, 'fields': [{'name': 'p', 'id': 11, 'type': 'Px'}],
                     'groups': [], 'datas': []}],
         'datas': []}]
    a = {'package': 'ns', 'id': 1, 'version': 0, 'byteOrder': 'littleEndian', 'types': types_a, 'messages': msgs_a}
    # a second, smaller family: the group that must be mangled is nested, its nested group is mangled as well
    msgs_b = [
        {'name': 'Top', 'id': 1, 'fields': [{'name': 'a', 'id': 1, 'type': 'uint8'}],
         'groups': [{'name': 'outer', 'id': 10, 'dim': dim, 'fields': [{'name': 'o', 'id': 11, 'type': 'uint8'}],
                     'groups': [{'name': 'legs', 'id': 12, 'dim': dim, 'fields': [{'name': 'legs', 'id': 13, 'type': 'uint8'}],
                                 'groups': [{'name': 'inner', 'id': 14, 'dim': dim,
                                             'fields': [{'name': 'inner_entry', 'id': 15, 'type': 'uint8'}], 'groups': [],
                                             'datas': []}],
                                 'datas': []}],
                     'datas': []}],
         'datas': []},
        {'name': 'Other', 'id': 2, 'fields': [{'name': 'b', 'id': 1, 'type': 'uint8'}], 'groups': [], 'datas': []}]
    b = {'package': 'ns', 'id': 1, 'version': 0, 'byteOrder': 'littleEndian', 'types': std_headers(), 'messages': msgs_b}
    # the tag containers `S::schema::types` / `S::schema::messages` are renamed when a type / message has that name
    c = {'package': 'ns', 'id': 1, 'version': 0, 'byteOrder': 'littleEndian',
         'types': std_headers() + [{'k': 'type', 'name': 'types', 'prim': 'uint8'}],
         'messages': [{'name': 'messages', 'id': 1, 'fields': [{'name': 't', 'id': 1, 'type': 'types'}], 'groups': [],
                       'datas': []}]}
    return [('A', a), ('B', b), ('C', c)]


def parse_chosen(field):
    """`names=` of the model's answer -> [{'kind': T|I|M|G, 'name', 'impl', 'entry'}]"""
    out = []
    for x in (field or '').split(','):
        f = x.split(':')
        if len(f) >= 3:
            out.append({'kind': f[0], 'name': f[1], 'impl': f[2], 'entry': f[3] if len(f) > 3 else ''})
    return out


def next_counter(name):
    m = re.match(r'^(.*)_(\d+)$', name)
    if m:
        return '%s_%d' % (m.group(1), int(m.group(2)) + 1)
    return None


def adversarial_candidates(chosen):
    """{'types': [(name, hot)], 'messages': [(name, hot)]}: the class names the generator chose, their `_entry`
    forms, the next counter values and the `_0` forms; `hot` = literally a class name chosen for a mangled entity,
    a group or an entry class"""
    out = {'types': {}, 'messages': {}}

    def add(dom, n, hot):
        if n and re.match(r'^[A-Za-z_]\w*$', n):
            out[dom][n] = out[dom].get(n, False) or hot
    for c in chosen:
        dom = 'types' if c['kind'] in 'TI' or (c['kind'] == 'C' and c['name'] == 'types') else 'messages'
        mangled = c['impl'] != c['name']
        if c['kind'] == 'C':
            if mangled:
                out[dom][c['impl']] = 'container'
                add(dom, next_counter(c['impl']), False)
            continue
        names = [c['impl']] + ([c['entry']] if c['entry'] else [])
        for n in names:
            add(dom, n, mangled or c['kind'] == 'G')
            add(dom, n + '_entry', False)
            add(dom, n + '_0', False)
            add(dom, n + '_0_entry', False)
            add(dom, next_counter(n), False)
        add(dom, c['name'] + '_0', False)
        add(dom, c['name'] + '_1', False)
        add(dom, c['name'] + '_0_entry', False)
        add(dom, c['name'] + '_entry_0', False)
        if c['kind'] == 'G' and mangled:
            nx = next_counter(c['impl'])
            add(dom, nx + '_entry' if nx else None, False)
    return {d: sorted(v.items()) for d, v in out.items()}


ADV_TYPE_POSITIONS = ['inline', 'type', 'enum', 'set', 'composite', 'inline-composite']
ADV_MESSAGE_POSITIONS = ['group-same', 'group-other', 'message', 'group-nested', 'group-deep']


def adversarial_schema(base, name, position, order):
    """`base` plus one entity called `name` at `position`, declared before / after the entities of the base;
    None when the name is taken at that level"""
    import copy
    s = copy.deepcopy(base)
    dim = 'groupSizeEncoding'

    def put(lst, x):
        if order == 'before':
            lst.insert(0, x)
        else:
            lst.append(x)

    def level_names(lvl):
        return {x['name'] for k in ('fields', 'groups', 'datas') for x in lvl.get(k, [])}
    if position in ADV_TYPE_POSITIONS:
        public = {t['name'].lower() for t in s['types']}
        if position in ('type', 'enum', 'set', 'composite'):
            if name.lower() in public:
                return None
            t = {'type': {'k': 'type', 'name': name, 'prim': 'uint16'},
                 'enum': {'k': 'enum', 'name': name, 'enc': 'uint8', 'values': [{'name': 'adv_v', 'value': '1'}]},
                 'set': {'k': 'set', 'name': name, 'enc': 'uint8', 'choices': [{'name': 'adv_c', 'index': 0}]},
                 'composite': {'k': 'composite', 'name': name, 'elems': [{'k': 'type', 'name': 'adv_e', 'prim': 'uint8'}]},
                 }[position]
        else:
            if 'adv_holder' in public or name == 'adv_e':
                return None
            el = {'k': 'type', 'name': name, 'prim': 'uint16'} if position == 'inline' else \
                {'k': 'composite', 'name': name, 'elems': [{'k': 'type', 'name': 'adv_e', 'prim': 'uint8'}]}
            t = {'k': 'composite', 'name': 'adv_holder', 'elems': [el]}
        put(s['types'], t)
        # use it, so that a message header includes it
        s['messages'][-1]['fields'].append({'name': 'adv_f', 'id': 77, 'type': t['name']})
        return s
    g = {'name': name, 'id': 90, 'dim': dim, 'fields': [{'name': 'adv_f', 'id': 91, 'type': 'uint8'}], 'groups': [],
         'datas': []}
    if position == 'message':
        if name in {m['name'] for m in s['messages']}:
            return None
        put(s['messages'], {'name': name, 'id': 90, 'fields': [{'name': 'adv_f', 'id': 1, 'type': 'uint8'}],
                            'groups': [], 'datas': []})
        return s
    first, last = s['messages'][0], s['messages'][-1]
    if position == 'group-same':
        lvl = first
    elif position == 'group-other':
        lvl = last
    elif position == 'group-nested':
        if not first['groups']:
            return None
        lvl = first['groups'][0]
    else:
        # below the innermost last group of the last message that has groups
        host = last if last['groups'] else first
        if not host['groups']:
            return None
        lvl = host['groups'][-1]
        while lvl['groups']:
            lvl = lvl['groups'][-1]
    if name in level_names(lvl) or name == 'adv_f':
        return None
    put(lvl['groups'], g)
    return s


def adversarial_schemas(bases_with_chosen, rng, budget, thorough):
    """([(schema, feature key)], counts).  Priority 0: a class name chosen for a group, an entry class or a mangled
    entity, given to a later group of the same / another message (mangled names also to an earlier sibling
    group), resp. to a type defined inside another composite; priority 1: those names at every position in both
    orders; priority 2: `_entry` / counter / `_0` forms and cross-namespace uses.  quick: priority 0 of every base; thorough: priorities 0 and 1; both filled up to
    `budget` with a sample of the rest.  (`schema->types` is an unordered map: the order of types is not the
    generator's order, so `before` says nothing new for types.)"""
    prio = {0: [], 1: [], 2: []}
    for bi, (label, base, chosen) in enumerate(bases_with_chosen):
        cands = adversarial_candidates(chosen)
        for dom, positions, other in (('types', ADV_TYPE_POSITIONS, ADV_MESSAGE_POSITIONS),
                                      ('messages', ADV_MESSAGE_POSITIONS, ADV_TYPE_POSITIONS)):
            for name, is_hot in cands[dom]:
                if bi > 0 and dom == 'types' and is_hot != 'container':
                    continue        # the later bases have the standard composites only
                for order in ('after', 'before'):
                    for pi, pos in enumerate(positions):
                        sch = adversarial_schema(base, name, pos, order)
                        if sch is None:
                            continue
                        key = 'adv.%s.%s.%s' % (label, pos, order)
                        counter = bool(re.search(r'_\d+(_entry)?$', name))
                        if not is_hot:
                            p = 2
                        elif is_hot == 'container':
                            p = 0 if order == 'after' and pos in ('type', 'message') else 2
                        elif bi > 0:
                            p = 0 if (dom == 'messages' and order == 'after' and pi == 1 and counter) else 1
                        elif dom == 'messages' and order == 'after' and pi < 2:
                            p = 0
                        elif dom == 'messages' and order == 'before' and pi == 0 and counter:
                            p = 0
                        elif dom == 'types' and order == 'after' and pi == 0:
                            p = 0
                        else:
                            p = 1
                        prio[p].append((sch, key))
                    if is_hot:
                        # an entity of the other namespace family named like it (must be harmless)
                        sch = adversarial_schema(base, name, other[0], order)
                        if sch is not None:
                            prio[2].append((sch, 'adv.%s.cross.%s' % (label, order)))
    out = list(prio[0])
    rest = prio[2]
    if thorough:
        out += prio[1]
    else:
        rest = prio[1] + prio[2]
    out += rng.sample(rest, min(max(0, budget - len(out)), len(rest)))
    return out, {'adv.priority0': len(prio[0]), 'adv.priority1': len(prio[1]), 'adv.pool': len(prio[2])}


# ------------------------------------------------------------------ (b) literal boundary stream

INT_RANGE = {'char': (-128, 127), 'int8': (-128, 127), 'uint8': (0, 255), 'int16': (-32768, 32767),
             'uint16': (0, 65535), 'int32': (-2 ** 31, 2 ** 31 - 1), 'uint32': (0, 2 ** 32 - 1),
             'int64': (-2 ** 63, 2 ** 63 - 1), 'uint64': (0, 2 ** 64 - 1)}

TEXTS = ['plain', 'say "hi"', 'back\\slash', 'trailing\\', "it's", 'tab\there', 'line1\nline2', 'what??/', '??=', 'café',
         '日本', 'a%sb{}', '/* c */', '// x', '\\n', '\\x41', '"', '\\"', 'R"(x)"', 'percent %', 'nul\\0', '']


def int_boundaries(p):
    lo, hi = INT_RANGE[p]
    xs = {lo, lo + 1, hi, hi - 1, 0 if lo <= 0 else lo, 1, 7, 8, 9, 10, 100}
    return sorted(x for x in xs if lo <= x <= hi)


def int_text(rng, v):
    """decimal spelling; sometimes with leading zeros (from_chars accepts them, C++ reads them as octal)"""
    s = str(v)
    if rng.random() < 0.06:
        s = ('-0' + s[1:]) if s.startswith('-') else ('0' + s)
    return s


FLOAT_TEXTS = {
    'float': ['0', '1', '-1', '1.5', '.5', '5.', '1e10', '1E+5', '-2.5e-3', '16777216', '16777217', '33554433',
              '3000000000', '4294967295', '4294967296', '9223372036854775807', '18446744073709551615',
              '18446744073709551616', '340282346638528859811704183484516925440', '3.4028234e38', '3.4028235e38',
              '1.17549436e-38', 'NaN', 'INF', '-INF', '+INF', '+1.5', '0.1', '123456789', '08', '010', '1e0', '00'],
    'double': ['0', '1', '-1', '1.5', '.5', '5.', '1e10', '1e308', '-1.7976931348623157e308', '2.2250738585072014e-308',
               '9007199254740992', '9007199254740993', '18014398509481985', '9223372036854775807',
               '9223372036854775808', '18446744073709551615', '18446744073709551616', '36893488147419103232', 'NaN',
               'INF', '-INF', '+INF', '+2', '0.1', '09', '0123', '1E5', '16777217'],
}


SAFE_FLOAT = {
    'float': ['0', '1', '-1', '1.5', '.5', '5.', '1e10', '1E+5', '-2.5e-3', '16777216', '3000000000', '4294967296',
              '9223372036854775808', '3.4028234e38', '3.4028235e38', '1.17549436e-38', 'NaN', 'INF', '-INF', '+INF', '+1.5',
              '0.1', '08.5', '1e0', '-0.0', '123456.789e3'],
    'double': ['0', '1', '-1', '1.5', '.5', '5.', '1e10', '1e308', '-1.7976931348623157e308', '2.2250738585072014e-308',
               '9007199254740992', '4611686018427387904', '9223372036854775808', 'NaN', 'INF', '-INF', '+INF', '+2', '0.1',
               '09.25', '1E5', '16777217', '123456789012345678'],
}
UNSAFE_FLOAT = {
    'float': ['16777217', '33554433', '4294967295', '9223372036854775807', '08', '09', '010', '00', '0123456789'],
    'double': ['9007199254740993', '18014398509481985', '9223372036854775807', '09', '08', '0123', '007'],
}
HAZARDS = ['text', 'leading-zero', 'float-text', 'header-narrow', 'header-float', 'char-literal', 'string-constant',
           'duplicate-value', 'valueref-include', 'huge-numbers', 'package-text', 'trigraph']
SPECIAL_TEXTS = ['say "hi"', 'trailing\\', 'line1\nline2', 'R"(x)"', '"', '\\"', 'a"b', 'x\\', 'tab\there and "quote"']
BENIGN_TEXTS = ['plain', 'café', '日本', 'a%sb{}', '/* c */', '// x', 'percent %', "it's", 'tab\there', 'a?b', '<&>', '{0}',
                'semi;colon', '#define X', '??=', '']
VALUE_CHANGING_TEXTS = ['back\\slash', '\\n', '\\x41', 'nul\\0', 'a\\tb']
TRIGRAPH_TEXTS = ['what??/', 'a??/', 'x ??/']


def literal_schema(rng, hazard_rate=0.5):
    """boundary values that are well-formed C++ everywhere, plus at most ONE injected hazard (returned in `feat`)"""
    feat = {}

    def hit(k):
        feat[k] = feat.get(k, 0) + 1
    hazard = rng.choice(HAZARDS) if rng.random() < hazard_rate else None
    hit('hazard.' + (hazard or 'none'))
    used = [False]

    def inject(kind, p=0.5):
        """True once per schema when the chosen hazard is `kind`"""
        if hazard == kind and not used[0] and rng.random() < p:
            used[0] = True
            hit('injected.' + kind)
            return True
        return False

    def text(rate=0.3):
        if inject('text', 0.3):
            return rng.choice(SPECIAL_TEXTS)
        if inject('trigraph', 0.3):
            return rng.choice(TRIGRAPH_TEXTS)
        if rng.random() < rate:
            hit('text.benign')
            return rng.choice(BENIGN_TEXTS + (VALUE_CHANGING_TEXTS if rng.random() < 0.2 else []))
        return None

    def deco(d, semantic=False):
        t = text()
        if t is not None:
            d['desc'] = t
        if semantic:
            t = text(0.1)
            if t is not None:
                d['semanticType'] = t
        if rng.random() < 0.2:
            d['since'] = rng.choice([0, 1, 2 ** 32, 2 ** 63, 2 ** 64 - 1])
            if rng.random() < 0.5:
                d['deprecated'] = rng.choice([0, 7, 2 ** 64 - 1])
        return d

    widths = {'uint8': 255, 'uint16': 65535, 'uint32': 2 ** 32 - 1, 'uint64': 2 ** 64 - 1, 'int8': 127, 'int16': 32767,
              'int32': 2 ** 31 - 1, 'int64': 2 ** 63 - 1, 'char': 127, 'float': 2 ** 24, 'double': 2 ** 53}
    hp = {}
    for n in ('blockLength', 'templateId', 'schemaId', 'version', 'gBlockLength', 'numInGroup', 'length', 'numGroups',
              'numVarDataFields'):
        hp[n] = rng.choice(S.UNSIGNED + ['uint16'] * 3 + (['int8', 'int16', 'int32', 'int64', 'char'] if rng.random() < 0.2 else []))
    if hazard == 'header-float':
        which = rng.choice(['blockLength', 'gBlockLength', 'numInGroup', 'length', 'templateId', 'schemaId', 'version'])
        hp[which] = rng.choice(['float', 'double'])
        hit('injected.header-float.' + which)
    for k, v in hp.items():
        hit('hdr.%s.%s' % (k, v))
    hdr_elems = [{'k': 'type', 'name': n, 'prim': hp[n]} for n in ('blockLength', 'templateId', 'schemaId', 'version')]
    dim_elems = [{'k': 'type', 'name': 'blockLength', 'prim': hp['gBlockLength']},
                 {'k': 'type', 'name': 'numInGroup', 'prim': hp['numInGroup']}]
    counters = rng.random() < 0.3
    if counters:
        hdr_elems.append({'k': 'type', 'name': 'numGroups', 'prim': hp['numGroups']})
        hdr_elems.append({'k': 'type', 'name': 'numVarDataFields', 'prim': hp['numVarDataFields']})
        dim_elems.append({'k': 'type', 'name': 'numGroups', 'prim': hp['numGroups']})
        dim_elems.append({'k': 'type', 'name': 'numVarDataFields', 'prim': hp['numVarDataFields']})
        hit('hdr.counters')
    types = [{'k': 'composite', 'name': 'messageHeader', 'elems': hdr_elems},
             {'k': 'composite', 'name': 'groupSizeEncoding', 'elems': dim_elems},
             {'k': 'composite', 'name': 'varDataEncoding', 'elems': [
                 {'k': 'type', 'name': 'length', 'prim': hp['length']},
                 {'k': 'type', 'name': 'varData', 'prim': rng.choice(S.SINGLE_BYTE), 'length': 0}]}]
    fieldable = []
    n = [0]

    def name(p):
        n[0] += 1
        return '%s%d' % (p, n[0])

    def int_value(p):
        v = str(rng.choice(int_boundaries(p)))
        if inject('leading-zero', 0.4):
            v = ('-0' + v[1:]) if v.startswith('-') else ('0' + v)
        return v

    def float_value(p):
        if inject('float-text', 0.5):
            return rng.choice(UNSAFE_FLOAT[p])
        return rng.choice(SAFE_FLOAT[p])

    def scalar_type(nm):
        p = rng.choice(S.PRIMS)
        t = {'k': 'type', 'name': nm, 'prim': p}
        if rng.random() < 0.5:
            t['presence'] = 'optional'
        attrs = ['min', 'max'] + (['null'] if t.get('presence') == 'optional' else [])
        for a in attrs:
            if rng.random() < 0.6:
                t[a] = float_value(p) if p in ('float', 'double') else int_value(p)
                hit('lit.%s.%s' % (a, p))
        if rng.random() < 0.15:
            ce = text(1.0)
            if ce is not None:
                t['charEnc'] = ce
        return deco(t, True)

    def const_type(nm):
        p = rng.choice(S.PRIMS)
        t = {'k': 'type', 'name': nm, 'prim': p, 'presence': 'constant'}
        if p == 'char':
            c = rng.random()
            if c < 0.5:
                pool = [chr(x) for x in range(0x21, 0x7f) if chr(x) not in "'\\"]
                t['const'] = rng.choice(["'", '\\']) if inject('char-literal', 0.6) else rng.choice(pool)
                hit('const.char1')
            else:
                if inject('string-constant', 0.6):
                    t['const'] = rng.choice(['a"b', 'ab\\', '"x', 'q\\"'])
                    t['length'] = len(t['const'])
                else:
                    pool = [chr(x) for x in range(0x20, 0x7f) if chr(x) not in '"\\?']
                    t['const'] = (''.join(rng.choice(pool) for _ in range(rng.randint(2, 6))).strip() + 'zz')[:6]
                    t['length'] = len(t['const']) + rng.choice([0, 0, 1, 3])
                hit('const.string')
        elif p in ('float', 'double'):
            t['const'] = float_value(p)
            hit('const.' + p)
        else:
            t['const'] = int_value(p)
            hit('const.' + p)
        return deco(t)

    def enum_type(nm):
        enc = rng.choice(S.INTEGRAL)
        e = {'k': 'enum', 'name': nm, 'enc': enc, 'values': []}
        if rng.random() < 0.2 and enc != 'char':
            tn = name('ET')
            types.append({'k': 'type', 'name': tn, 'prim': enc})
            e['enc'] = tn
            hit('enum.named_encoding')
        dup = inject('duplicate-value', 0.7)
        if enc == 'char':
            pool = [chr(c) for c in range(0x21, 0x7f) if chr(c) not in "'\\"]
            chars = rng.sample(pool, rng.randint(1, 4))
            if inject('char-literal', 0.5):
                chars.append(rng.choice(["'", '\\']))
            if dup:
                chars.append(chars[0])
            for i, ch in enumerate(chars):
                e['values'].append(deco({'name': 'v%d' % i, 'value': ch}))
            hit('enum.char')
        else:
            vals = [str(v) for v in rng.sample(int_boundaries(enc), min(rng.randint(1, 4), len(int_boundaries(enc))))]
            if dup:
                vals.append(vals[0] if rng.random() < 0.5 or vals[0].startswith('-') else '00' + vals[0])
            elif inject('leading-zero', 0.3):
                vals[0] = ('-0' + vals[0][1:]) if vals[0].startswith('-') else ('0' + vals[0])
            for i, v in enumerate(vals):
                e['values'].append(deco({'name': 'v%d' % i, 'value': v}))
            hit('enum.' + enc)
        return deco(e)

    for _ in range(rng.randint(2, 5)):
        c = rng.random()
        nm = name('T')
        if c < 0.45:
            t = scalar_type(nm)
        elif c < 0.7:
            t = const_type(nm)
        elif c < 0.9:
            t = enum_type(nm)
        else:
            w = rng.choice(S.UNSIGNED)
            bits = S.PRIM_SIZE[w] * 8
            t = deco({'k': 'set', 'name': nm, 'enc': w,
                      'choices': [deco({'name': 'c%d' % i, 'index': i}) for i in sorted({0, bits - 1, rng.randrange(bits)})]})
        types.append(t)
        fieldable.append(nm)
    # a composite with inline constants (the only place where types_compiler emits constants itself) and offsets
    if rng.random() < 0.7:
        elems = []
        off = 0
        for _ in range(rng.randint(1, 3)):
            c = rng.random()
            if c < 0.4:
                elems.append(const_type(name('k')))
            elif c < 0.7:
                e = scalar_type(name('m'))
                if rng.random() < 0.3:
                    off += rng.choice([0, 1, 2 ** 16, 2 ** 32]) if hazard != 'huge-numbers' else 2 ** 62
                    e['offset'] = off
                    hit('offset.custom')
                off += S.PRIM_SIZE[e['prim']]
                elems.append(e)
            else:
                consts = [t for t in types if t['k'] == 'type' and t.get('presence') == 'constant']
                if consts:
                    elems.append({'k': 'ref', 'name': name('r'), 'type': rng.choice(consts)['name']})
                    hit('composite.ref_to_constant')
        if not any(e['k'] == 'type' and e.get('presence') != 'constant' for e in elems):
            elems.append({'k': 'type', 'name': name('m'), 'prim': 'uint8'})
        types.append(deco({'k': 'composite', 'name': name('C'), 'elems': elems}, True))
        fieldable.append(types[-1]['name'])

    def fits(member, v):
        return v <= widths[hp[member]]

    def level(depth, bl_member):
        lvl = {'fields': [], 'groups': [], 'datas': []}
        cur = 0
        for _ in range(rng.randint(0, 3)):
            ty = rng.choice(fieldable)
            f = deco({'name': name('f'), 'id': rng.choice([1, 255, 65535]), 'type': ty})
            t = find(types, ty)
            const = t['k'] == 'type' and t.get('presence') == 'constant'
            if not const and rng.random() < 0.15:
                cur += rng.choice([0, 3, 40]) if hazard != 'huge-numbers' else rng.choice([70000, 2 ** 32, 2 ** 62])
                f['offset'] = cur
                hit('field.custom_offset')
            if not const:
                cur += 1 if t['k'] in ('enum', 'set') and t.get('enc') in ('char', 'uint8', 'int8') else 16
            lvl['fields'].append(f)
        # constant fields with valueRef
        enums = [t for t in types if t['k'] == 'enum' and t['values']]
        if enums and rng.random() < 0.4:
            e = rng.choice(enums)
            v = e['values'][0]
            lvl['fields'].append({'name': name('kf'), 'id': 7, 'type': e['name'], 'presence': 'constant',
                                  'valueRef': '%s.%s' % (e['name'], v['name'])})
            hit('field.const_enum')
        if enums and inject('valueref-include', 0.6):
            e = rng.choice(enums)
            v = e['values'][0]
            encp = e['enc'] if e['enc'] in S.PRIM_SIZE else find(types, e['enc'])['prim']
            lvl['fields'].append({'name': name('kp'), 'id': 7, 'type': encp, 'presence': 'constant',
                                  'valueRef': '%s.%s' % (e['name'], v['name'])})
            hit('field.const_prim_valueRef')
        if rng.random() < 0.3:
            cands = [b for b in (cur, cur + 1, 255, 32767, 65535, 2 ** 31 - 1) if b >= cur and fits(bl_member, b)]
            if hazard == 'huge-numbers':
                cands = [max(cur, 2 ** 40)]
            if cands:
                lvl['blockLength'] = rng.choice(cands)
                hit('level.custom_blockLength')
        if depth < 2:
            for _ in range(rng.choice([0, 0, 1, 2])):
                g = level(depth + 1, 'gBlockLength')
                g.update(deco({'name': name('g'), 'id': rng.choice([1, 65535]), 'dim': 'groupSizeEncoding'}, True))
                lvl['groups'].append(g)
        for _ in range(rng.choice([0, 0, 1, 2])):
            lvl['datas'].append(deco({'name': name('d'), 'id': 3, 'type': 'varDataEncoding'}))
        return lvl

    def id_for(member, cands):
        ok = [c for c in cands if fits(member, c)]
        if inject('header-narrow', 0.4):
            bad = [c for c in cands if not fits(member, c)]
            if bad:
                return rng.choice(bad)
        return rng.choice(ok or [1])

    big = [0, 1, 127, 128, 255, 256, 32767, 32768, 65535, 65536, 2 ** 31 - 1, 2 ** 31, 2 ** 32 - 1]
    msgs = []
    ids = set()
    for i in range(rng.randint(1, 2)):
        m = level(0, 'blockLength')
        mid = id_for('templateId', big)
        while mid in ids:
            mid += 1
        ids.add(mid)
        m.update(deco({'name': name('M'), 'id': mid}, True))
        msgs.append(m)
    sch = {'package': 'ns', 'id': id_for('schemaId', big), 'version': id_for('version', big + [2 ** 40, 2 ** 64 - 1]),
           'byteOrder': rng.choice(['littleEndian', 'bigEndian']), 'types': types, 'messages': msgs}
    t = text()
    if t is not None:
        sch['desc'] = t
    t = text(0.15)
    if t is not None:
        sch['semanticVersion'] = t
    if hazard == 'package-text' or rng.random() < 0.1:
        # package is free text when the schema name is given on the command line
        sch['packageText'] = rng.choice(SPECIAL_TEXTS) if inject('package-text', 0.7) else rng.choice(BENIGN_TEXTS[:8] + ['com.example.sbe'])
        sch['schemaName'] = 'ns'
        hit('package.free_text')
    return sch, feat


def literal_probes():
    """one small schema per literal / include / header-type class (fixed list, part of every run)"""
    def mini(hdr_prim=None, dim=None, var_len=None, extra_types=(), fields=(), groups=(), datas=(), hdr_extra=(), **kw):
        types = std_headers()
        types[0]['elems'] += list(hdr_extra)
        for e in types[0]['elems']:
            if hdr_prim and e['name'] in hdr_prim:
                e['prim'] = hdr_prim[e['name']]
        for e in types[1]['elems']:
            if dim and e['name'] in dim:
                e['prim'] = dim[e['name']]
        if var_len:
            types[2]['elems'][0]['prim'] = var_len
        types += list(extra_types)
        m = {'name': 'M', 'id': kw.pop('mid', 1), 'fields': list(fields), 'groups': list(groups), 'datas': list(datas)}
        if 'mbl' in kw:
            m['blockLength'] = kw.pop('mbl')
        s = {'package': 'ns', 'id': 1, 'version': 0, 'byteOrder': 'littleEndian', 'types': types, 'messages': [m]}
        s.update(kw)
        return s
    g1 = {'name': 'g', 'id': 2, 'dim': 'groupSizeEncoding', 'fields': [{'name': 'x', 'id': 1, 'type': 'uint8'}], 'groups': [], 'datas': []}
    d1 = {'name': 'd', 'id': 3, 'type': 'varDataEncoding'}
    x8 = [{'name': 'x', 'id': 1, 'type': 'uint8'}]
    en = {'k': 'enum', 'name': 'E', 'enc': 'uint8', 'values': [{'name': 'A', 'value': '1'}]}

    def ty(**kw):
        return dict({'k': 'type', 'name': 'F'}, **kw)

    def kfield(t):
        return dict(extra_types=[t], fields=[{'name': 'k', 'id': 1, 'type': t['name']}])
    out = [
        mini(hdr_prim={'blockLength': 'float'}, fields=x8), mini(hdr_prim={'templateId': 'double'}),
        mini(hdr_prim={'blockLength': 'char'}, fields=x8), mini(hdr_prim={'blockLength': 'int8'}, fields=x8),
        mini(dim={'blockLength': 'float'}, groups=[g1]), mini(dim={'numInGroup': 'float'}, groups=[g1]),
        mini(dim={'numInGroup': 'char'}, groups=[g1]), mini(dim={'numInGroup': 'int64'}, groups=[g1]),
        mini(var_len='float', datas=[d1]), mini(var_len='double', datas=[d1]), mini(var_len='char', datas=[d1]),
        mini(mid=70000), mini(id=70000), mini(version=70000), mini(version=2 ** 64 - 1, hdr_prim={'version': 'uint64'}),
        mini(mbl=70000), mini(hdr_prim={'blockLength': 'float'}, mbl=16777217), mini(hdr_prim={'blockLength': 'float'}, mbl=16777216),
        mini(hdr_prim={'templateId': 'char'}, mid=128), mini(hdr_prim={'templateId': 'int8'}, mid=127),
        mini(extra_types=[en], fields=[{'name': 'k', 'id': 1, 'type': 'uint8', 'presence': 'constant', 'valueRef': 'E.A'}]),
        mini(extra_types=[en, ty(name='K', prim='uint8', presence='constant', valueRef='E.A')], fields=[{'name': 'k', 'id': 1, 'type': 'K'}]),
        mini(extra_types=[en, {'k': 'composite', 'name': 'C', 'elems': [ty(name='K', prim='uint8', presence='constant', valueRef='E.A'),
                                                                     ty(name='z', prim='uint8')]}], fields=[{'name': 'c', 'id': 1, 'type': 'C'}]),
        mini(extra_types=[en], fields=[{'name': 'e', 'id': 1, 'type': 'E'},
                                       {'name': 'k', 'id': 2, 'type': 'uint8', 'presence': 'constant', 'valueRef': 'E.A'}]),
        mini(extra_types=[{'k': 'enum', 'name': 'E', 'enc': 'uint8', 'values': [{'name': 'A', 'value': '1'}, {'name': 'B', 'value': '1'}]}]),
        mini(extra_types=[{'k': 'enum', 'name': 'E', 'enc': 'uint8', 'values': [{'name': 'A', 'value': '1'}, {'name': 'B', 'value': '01'}]}]),
        mini(extra_types=[{'k': 'enum', 'name': 'E', 'enc': 'char', 'values': [{'name': 'A', 'value': 'x'}, {'name': 'B', 'value': 'x'}]}]),
        # c7e26c2: the same value written differently, and an enum defined inside a composite
        mini(extra_types=[{'k': 'enum', 'name': 'E', 'enc': 'int8', 'values': [{'name': 'A', 'value': '-0'}, {'name': 'B', 'value': '0'}]}]),
        mini(extra_types=[{'k': 'enum', 'name': 'E', 'enc': 'uint16', 'values': [{'name': 'A', 'value': '0'}, {'name': 'B', 'value': '7'},
                                                                                  {'name': 'C', 'value': '007'}]}]),
        mini(extra_types=[{'k': 'enum', 'name': 'E', 'enc': 'int8', 'values': [{'name': 'A', 'value': '-1'}, {'name': 'B', 'value': '1'},
                                                                                {'name': 'C', 'value': '10'}, {'name': 'D', 'value': '010'}]}]),
        mini(extra_types=[{'k': 'composite', 'name': 'C', 'elems': [
            {'k': 'enum', 'name': 'E', 'enc': 'uint8', 'values': [{'name': 'A', 'value': '2'}, {'name': 'B', 'value': '2'}]}]}],
            fields=[{'name': 'c', 'id': 1, 'type': 'C'}]),
        # bf3e3ae / ceb9ad3: the optional counters
        mini(hdr_extra=[{'k': 'type', 'name': 'numGroups', 'prim': 'float'}, {'k': 'type', 'name': 'numVarDataFields', 'prim': 'uint8'}],
             groups=[g1]),
        mini(hdr_extra=[{'k': 'type', 'name': 'numGroups', 'prim': 'uint8'}, {'k': 'type', 'name': 'numVarDataFields', 'prim': 'uint8'}],
             groups=[g1], datas=[d1]),
        mini(dim={'blockLength': 'uint8'}, groups=[dict(g1, blockLength=300)]),
        mini(dim={'blockLength': 'int8'}, groups=[dict(g1, blockLength=128)]),
        mini(desc='say "hi"'), mini(desc='back\\slash'), mini(desc='trailing\\'), mini(desc='l1\nl2'), mini(desc='t\tt'),
        mini(desc='what??/'), mini(desc='a??/b'), mini(desc='café 日本'), mini(desc='R"(x)"'), mini(semanticVersion='1"2'),
        dict(mini(), packageText='p"q', schemaName='ns'), dict(mini(), packageText='com.example', schemaName='ns'),
        mini(extra_types=[ty(name='K', prim='char', presence='constant', const="'"),
                          {'k': 'composite', 'name': 'C', 'elems': [{'k': 'ref', 'name': 'r', 'type': 'K'}, ty(name='z', prim='uint8')]}]),
        mini(**kfield(ty(name='K', prim='char', presence='constant', const="'"))),
        mini(extra_types=[ty(name='K', prim='char', presence='constant', const="'")]),
        mini(**kfield(ty(name='K', prim='char', presence='constant', const='\\'))),
        mini(**kfield(ty(name='K', prim='char', presence='constant', const='"'))),
        mini(**kfield(ty(name='K', prim='char', presence='constant', const='a"b', length=3))),
        mini(**kfield(ty(name='K', prim='char', presence='constant', const='ab\\', length=5))),
        mini(**kfield(ty(name='K', prim='char', presence='constant', const='ab\\', length=3))),
        mini(extra_types=[{'k': 'enum', 'name': 'E', 'enc': 'char', 'values': [{'name': 'A', 'value': "'"}]}]),
        mini(extra_types=[{'k': 'enum', 'name': 'E', 'enc': 'char', 'values': [{'name': 'A', 'value': '\\'}]}]),
        mini(extra_types=[{'k': 'enum', 'name': 'E', 'enc': 'char', 'values': [{'name': 'A', 'value': '"'}]}]),
    ]
    for p, v in (('float', '16777217'), ('float', '16777216'), ('float', '3000000000'), ('float', '9223372036854775808'),
                 ('float', '0.1'), ('float', '3.4028235e38'), ('float', '+1.5'), ('float', '.5'), ('float', '08'), ('float', '010'),
                 ('float', '08.5'), ('double', '9007199254740993'), ('double', '9007199254740992'), ('float', 'NaN'),
                 ('float', '-INF'), ('int32', '08'), ('int32', '07'), ('int32', '-09'), ('int64', '-9223372036854775808'),
                 ('uint64', '18446744073709551615'), ('char', '-128'), ('uint8', '0255'), ('int8', '-0128')):
        out.append(mini(extra_types=[ty(prim=p, min=v)]))
        out.append(mini(**kfield(ty(prim=p, presence='constant', const=v))))
    # a float constant whose value is an enumerator that does not convert exactly (`float{to_underlying(E::X)}`)
    big = {'k': 'enum', 'name': 'E', 'enc': 'int32', 'values': [{'name': 'A', 'value': '16777217'}, {'name': 'B', 'value': '16777216'}]}
    out.append(mini(extra_types=[big], fields=[{'name': 'k', 'id': 1, 'type': 'float', 'presence': 'constant', 'valueRef': 'E.A'}]))
    out.append(mini(extra_types=[big], fields=[{'name': 'k', 'id': 1, 'type': 'float', 'presence': 'constant', 'valueRef': 'E.B'}]))
    out.append(mini(extra_types=[ty(prim='float', presence='optional', min='-INF', max='INF', null='NaN')]))
    out.append(mini(extra_types=[{'k': 'composite', 'name': 'C', 'elems': [ty(name='z', prim='uint8', offset=2 ** 63)]}],
                    fields=[{'name': 'c', 'id': 1, 'type': 'C'}]))
    out.append(mini(fields=[{'name': 'x', 'id': 1, 'type': 'uint8', 'offset': 2 ** 63}]))
    out.append(mini(hdr_prim={'blockLength': 'uint64'}, fields=[{'name': 'x', 'id': 1, 'type': 'uint8', 'offset': 2 ** 63}]))
    return out


# ------------------------------------------------------------------ rendering (XML, S-expression)

def to_xml(sch):
    s = dict(sch)
    if 'packageText' in s:
        s['package'] = s['packageText']
    return S.to_xml(s)


def normalise(sch):
    """what the parser fills in: `length` of a constant `char` type without the attribute is the length of its value"""
    import copy
    s = copy.deepcopy(sch)

    def fix(e):
        if e['k'] == 'type' and e.get('presence') == 'constant' and e.get('prim') == 'char' and e.get('length') is None \
                and e.get('const') is not None:
            e['length'] = len(e['const'].encode('utf-8'))
        for x in e.get('elems', []):
            fix(x)
    for t in s['types']:
        fix(t)
    return s


def to_sexp(sch):
    s = normalise(sch)
    s['package'] = sch.get('schemaName', sch['package'])
    base = S.to_sexp(s)
    extra = ''
    if 'packageText' in sch:
        extra += ' (packageText x%s)' % sch['packageText'].encode('utf-8').hex()
    if 'schemaName' in sch:
        extra += ' (schemaName %s)' % sch['schemaName']
    if extra:
        assert base.startswith('(schema')
        base = '(schema' + extra + base[len('(schema'):]
    return base


def schema_name(sch):
    return sch.get('schemaName', sch['package'])


def sbeppc_args(sch):
    return ['--schema-name', sch['schemaName']] if 'schemaName' in sch else []


# ------------------------------------------------------------------ (c) translation units

PRELUDE = r'''
// generated by vlib/c07gen.py: names every schema entity under its unmodified name
namespace tu
{
template<typename T>
void use(const T&)
{
}

struct enum_visitor
{
    template<typename E, typename Tag>
    void on_enum_value(E, Tag)
    {
        use(::sbepp::enum_value_traits<Tag>::name());
    }
    template<typename E>
    void on_enum_value(E, ::sbepp::unknown_enum_value_tag)
    {
    }
};

struct set_visitor
{
    template<typename Tag>
    void on_set_choice(const bool, Tag)
    {
        use(::sbepp::set_choice_traits<Tag>::name());
    }
    void operator()(const bool, const char*)
    {
    }
};

template<bool B, typename R = void>
using en = typename ::std::enable_if<B, R>::type;

struct visitor
{
    template<typename M, typename Cursor, typename Tag>
    void on_message(M m, Cursor& c, Tag)
    {
        use(::sbepp::message_traits<Tag>::name());
        ::sbepp::visit_children(m, c, *this);
    }
    template<typename G, typename Cursor, typename Tag>
    bool on_group(G g, Cursor& c, Tag)
    {
        use(::sbepp::group_traits<Tag>::name());
        ::sbepp::visit_children(g, c, *this);
        return false;
    }
    template<typename E, typename Cursor>
    bool on_entry(E e, Cursor& c)
    {
        ::sbepp::visit_children(e, c, *this);
        return false;
    }
    template<typename D, typename Tag>
    bool on_data(D d, Tag)
    {
        use(::sbepp::data_traits<Tag>::name());
        use(d.size());
        return false;
    }
    template<typename F>
    en< ::sbepp::is_composite<F>::value> deep(F f)
    {
        ::sbepp::visit_children(f, *this);
    }
    template<typename F>
    en< ::sbepp::is_enum<F>::value> deep(F f)
    {
        enum_visitor v;
        ::sbepp::visit(f, v);
    }
    template<typename F>
    en< ::sbepp::is_set<F>::value> deep(F f)
    {
        set_visitor v;
        ::sbepp::visit(f, v);
        ::sbepp::visit_set(f, v);
    }
    template<typename F>
    en<!::sbepp::is_composite<F>::value && !::sbepp::is_enum<F>::value && !::sbepp::is_set<F>::value> deep(F f)
    {
        use(f);
    }
    template<typename F, typename Tag>
    bool on_field(F f, Tag)
    {
        use(::sbepp::field_traits<Tag>::name());
        deep(f);
        return false;
    }
    template<typename F, typename Tag>
    bool on_type(F f, Tag)
    {
        use(::sbepp::type_traits<Tag>::name());
        use(f);
        return false;
    }
    template<typename F, typename Tag>
    bool on_enum(F f, Tag)
    {
        use(::sbepp::enum_traits<Tag>::name());
        deep(f);
        return false;
    }
    template<typename F, typename Tag>
    bool on_set(F f, Tag)
    {
        use(::sbepp::set_traits<Tag>::name());
        deep(f);
        return false;
    }
    template<typename F, typename Tag>
    bool on_composite(F f, Tag)
    {
        use(::sbepp::composite_traits<Tag>::name());
        deep(f);
        return false;
    }
};
} // namespace tu
'''


class TU:
    """emits the touch-everything translation unit of one schema"""

    def __init__(self, sch):
        self.s = sch
        self.ns = schema_name(sch)
        self.types = sch['types']
        self.L = []
        self.n = 0
        self.entities = 0

    def var(self, p='x'):
        self.n += 1
        return '%s%d_' % (p, self.n)

    def emit(self, line, ind=1):
        self.L.append('    ' * ind + line)

    def use(self, expr, ind=1):
        self.emit('tu::use(%s);' % expr, ind)

    # ---- traits
    def common_traits(self, tr, e, has_desc=True):
        self.use('%s::name()' % tr)
        if has_desc:
            self.use('%s::description()' % tr)
        self.use('%s::since_version()' % tr)
        if e.get('deprecated') is not None:
            self.use('%s::deprecated()' % tr)

    def kind_of(self, name):
        """kind of a field/ref target: ('prim', p) | ('type'|'array'|'const'|'enum'|'set'|'composite', def)"""
        if name in S.PRIM_SIZE:
            return 'prim', name
        t = find(self.types, name)
        if t is None:
            return 'missing', None
        if t['k'] == 'type':
            if t.get('presence') == 'constant':
                return 'const', t
            if t.get('length', 1) != 1:
                return 'array', t
            return 'type', t
        return t['k'], t

    def elem_traits(self, e, tag, in_composite):
        """traits of a type-like entity whose tag is `tag`; recursion into composites"""
        self.entities += 1
        k = e['k']
        if k == 'ref':
            tk, target = self.kind_of(e['type'])
            tname = {'type': 'type_traits', 'array': 'type_traits', 'const': 'type_traits', 'enum': 'enum_traits',
                     'set': 'set_traits', 'composite': 'composite_traits'}.get(tk)
            if tname is None:
                return
            tr = '::sbepp::%s<%s>' % (tname, tag)
            self.common_traits(tr, e, has_desc=True)
            if tk != 'const':
                self.use('%s::offset()' % tr)
            # (tags nested in the referred type are reachable through the ref tag by inheritance; that path is not
            # a documented one and is not exercised: `C::r::r` names a constructor when the referred type has a
            # member called like the ref)
            return
        if k == 'type':
            tr = '::sbepp::type_traits<%s>' % tag
            self.common_traits(tr, e)
            for fn in ('presence', 'length', 'semantic_type', 'character_encoding'):
                self.use('%s::%s()' % (tr, fn))
            self.emit('{ %s::primitive_type p_{}; tu::use(p_); }' % tr)
            const = e.get('presence') == 'constant'
            length = e.get('length', 1)
            if e.get('offset') is not None or (in_composite and not const):
                self.use('%s::offset()' % tr)
            if const:
                self.use('sizeof(%s::value_type)' % tr)
            elif length != 1:
                self.use('sizeof(%s::value_type<char>)' % tr)
            else:
                self.use('%s::min_value()' % tr)
                self.use('%s::max_value()' % tr)
                if e.get('presence') == 'optional':
                    self.use('%s::null_value()' % tr)
                v = self.var('v')
                self.emit('{ %s::value_type %s{}; tu::use(%s.value()); tu::use(%s.in_range()); tu::use(%s == %s); '
                          'static_assert(::std::is_same< ::sbepp::traits_tag_t<%s::value_type>, %s>::value, "traits_tag"); }'
                          % (tr, v, v, v, v, v, tr, tag))
            return
        if k == 'enum':
            tr = '::sbepp::enum_traits<%s>' % tag
            self.common_traits(tr, e)
            self.emit('{ %s::encoding_type p_{}; tu::use(p_); }' % tr)
            self.use('sizeof(%s::value_tags)' % tr)
            if e.get('offset') is not None or in_composite:
                self.use('%s::offset()' % tr)
            self.emit('static_assert(::std::is_same< ::sbepp::traits_tag_t<%s::value_type>, %s>::value, "traits_tag");' % (tr, tag))
            for v in e['values']:
                vt = '::sbepp::enum_value_traits<%s::%s>' % (tag, v['name'])
                self.common_traits(vt, v)
                self.use('%s::value()' % vt)
                self.emit('{ tu::enum_visitor ev_; ::sbepp::visit(%s::value_type::%s, ev_); '
                          'tu::use(::sbepp::to_underlying(%s::value_type::%s)); }' % (tr, v['name'], tr, v['name']))
                self.entities += 1
            return
        if k == 'set':
            tr = '::sbepp::set_traits<%s>' % tag
            self.common_traits(tr, e)
            self.emit('{ %s::encoding_type p_{}; tu::use(p_); }' % tr)
            self.use('sizeof(%s::choice_tags)' % tr)
            if e.get('offset') is not None or in_composite:
                self.use('%s::offset()' % tr)
            s = self.var('s')
            self.emit('{ %s::value_type %s{};' % (tr, s))
            for c in e['choices']:
                ct = '::sbepp::set_choice_traits<%s::%s>' % (tag, c['name'])
                self.common_traits(ct, c)
                self.use('%s::index()' % ct)
                self.emit('  tu::use(%s.%s()); %s.%s(true); tu::use(::sbepp::get_by_tag<%s::%s>(%s)); '
                          '::sbepp::set_by_tag<%s::%s>(%s, false);'
                          % (s, c['name'], s, c['name'], tag, c['name'], s, tag, c['name'], s))
                self.entities += 1
            self.emit('  tu::set_visitor sv_; ::sbepp::visit(%s, sv_); ::sbepp::visit_set(%s, sv_); tu::use(*%s); }' % (s, s, s))
            return
        if k == 'composite':
            tr = '::sbepp::composite_traits<%s>' % tag
            self.common_traits(tr, e)
            self.use('%s::semantic_type()' % tr)
            self.use('%s::size_bytes()' % tr)
            self.use('sizeof(%s::element_tags)' % tr)
            self.use('sizeof(%s::value_type<char>)' % tr)
            if e.get('offset') is not None or in_composite:
                self.use('%s::offset()' % tr)
            self.emit('static_assert(::std::is_same< ::sbepp::traits_tag_t<%s::value_type<char>>, %s>::value, "traits_tag");' % (tr, tag))
            for x in e['elems']:
                self.elem_traits(x, '%s::%s' % (tag, x['name']), True)

    # ---- accessors
    def access_value(self, view, name, kind, tag, cursor=None):
        """member `name` of `view` (a composite / message / entry view) of the given kind"""
        call = '%s.%s()' % (view, name)
        if kind in ('prim', 'type', 'enum', 'set'):
            self.emit('tu::use(%s); %s.%s(%s); tu::use(::sbepp::get_by_tag<%s>(%s)); ::sbepp::set_by_tag<%s>(%s, %s);'
                      % (call, view, name, call, tag, view, tag, view, call))
            self.emit('tu::use(c%s.%s()); tu::use(::sbepp::get_by_tag<%s>(c%s));' % (view, name, tag, view))
        elif kind == 'const':
            self.emit('tu::use(%s); tu::use(::sbepp::get_by_tag<%s>(%s));' % (call, tag, view))
        elif kind == 'array':
            self.emit('tu::use(%s.size()); tu::use(::sbepp::get_by_tag<%s>(%s).size()); tu::use(c%s.%s().size());'
                      % (call, tag, view, view, name))

    def composite_access(self, view, c, tag, depth=0):
        """all element accessors of composite definition `c` through view `view` (and const view `c<view>`)"""
        self.emit('tu::use(::sbepp::size_bytes(%s)); { tu::visitor vv_; ::sbepp::visit(%s, vv_); ::sbepp::visit_children(%s, vv_); }'
                  % (view, view, view))
        for x in c['elems']:
            etag = '%s::%s' % (tag, x['name'])
            k = x['k']
            if k == 'ref':
                tk, target = self.kind_of(x['type'])
            elif k == 'type':
                tk = 'const' if x.get('presence') == 'constant' else ('array' if x.get('length', 1) != 1 else 'type')
                target = x
            else:
                tk, target = k, x
            if tk == 'composite':
                sub = self.var('cv')
                self.emit('{ auto %s = %s.%s(); auto c%s = c%s.%s(); tu::use(::sbepp::get_by_tag<%s>(%s));'
                          % (sub, view, x['name'], sub, view, x['name'], etag, view))
                if depth < 4:
                    # a ref's own tag only inherits the element tags of the referred composite (`C::r::x` is not a
                    # documented path and names a constructor when `x == r`): use the referred type's tag
                    self.composite_access(sub, target, ('::%s::schema::types::%s' % (self.ns, target['name']))
                                          if k == 'ref' else etag, depth + 1)
                self.emit('}')
            elif tk != 'missing':
                self.access_value(view, x['name'], tk, etag)

    def level_access(self, view, lvl, tag, depth):
        """normal, by-tag and cursor accessors of one level through `view`; cursor `cur` is in scope"""
        for f in lvl.get('fields', []):
            self.entities += 1
            ftag = '%s::%s' % (tag, f['name'])
            tk, target = self.kind_of(f['type'])
            const = f.get('presence') == 'constant' or tk == 'const'
            tr = '::sbepp::field_traits<%s>' % ftag
            self.common_traits(tr, f)
            self.use('%s::id()' % tr)
            self.use('%s::presence()' % tr)
            if const:
                self.emit('tu::use(%s.%s()); tu::use(::sbepp::get_by_tag<%s>(%s)); tu::use(sizeof(%s::value_type));'
                          % (view, f['name'], ftag, view, tr))
                continue
            self.use('%s::offset()' % tr)
            self.use('sizeof(%s::value_type_tag)' % tr)
            if tk in ('prim', 'type', 'enum', 'set'):
                self.use('sizeof(%s::value_type)' % tr)
                self.access_value(view, f['name'], tk, ftag)
                self.emit('tu::use(%s.%s(cur)); %s.%s(%s.%s(), ::sbepp::cursor_ops::dont_move(cur)); tu::use(c%s.%s(ccur));'
                          % (view, f['name'], view, f['name'], view, f['name'], view, f['name']))
            elif tk == 'array':
                self.use('sizeof(%s::value_type<char>)' % tr)
                self.access_value(view, f['name'], tk, ftag)
                self.emit('tu::use(%s.%s(cur).size()); tu::use(c%s.%s(ccur).size());' % (view, f['name'], view, f['name']))
            elif tk == 'composite':
                self.use('sizeof(%s::value_type<char>)' % tr)
                sub = self.var('fv')
                self.emit('{ auto %s = %s.%s(); auto c%s = c%s.%s(); tu::use(::sbepp::get_by_tag<%s>(%s)); tu::use(%s.%s(cur)); tu::use(c%s.%s(ccur));'
                          % (sub, view, f['name'], sub, view, f['name'], ftag, view, view, f['name'], view, f['name']))
                self.composite_access(sub, target, '::%s::schema::types::%s' % (self.ns, target['name']))
                self.emit('}')
        for g in lvl.get('groups', []):
            self.entities += 1
            gtag = '%s::%s' % (tag, g['name'])
            tr = '::sbepp::group_traits<%s>' % gtag
            self.common_traits(tr, g)
            for fn in ('id', 'block_length', 'semantic_type'):
                self.use('%s::%s()' % (tr, fn))
            for al in ('value_type<char>', 'dimension_type<char>', 'entry_type<char>', 'dimension_type_tag', 'field_tags',
                       'group_tags', 'data_tags'):
                self.use('sizeof(%s::%s)' % (tr, al))
            nparams, has_data = size_params(g)
            args = ', '.join(['1'] * (nparams + 1) + (['0'] if has_data else []))
            self.use('%s::size_bytes(%s)' % (tr, args))
            gv, ev = self.var('g'), self.var('e')
            self.emit('{ auto %s = %s.%s(); auto c%s = c%s.%s(); tu::use(::sbepp::get_by_tag<%s>(%s).size());'
                      % (gv, view, g['name'], gv, view, g['name'], gtag, view))
            self.emit('  static_assert(::std::is_same< ::sbepp::traits_tag_t<decltype(%s)>, %s>::value, "traits_tag");' % (gv, gtag))
            self.emit('  tu::use(::sbepp::fill_group_header(%s, 1)); tu::use(::sbepp::get_header(%s)); tu::use(::sbepp::size_bytes(%s)); '
                      'tu::use(%s.size()); %s.resize(1); tu::use(%s.begin() != %s.end()); tu::use(c%s.size());'
                      % (gv, gv, gv, gv, gv, gv, gv, gv))
            self.emit('  for(auto %s : %s) { auto c%s = *c%s.begin(); auto cur = ::sbepp::init_cursor(%s); auto ccur = ::sbepp::init_const_cursor(c%s); tu::use(::sbepp::size_bytes(%s));'
                      % (ev, gv, ev, gv, ev, ev, ev))
            if depth < 6:
                self.level_access(ev, g, gtag, depth + 1)
            self.emit('  }')
            self.emit('  { auto %s = %s.%s(cur); for(auto %s : %s.cursor_range(cur)) { tu::use(%s); } tu::use(c%s.%s(ccur).size()); }'
                      % (gv + 'c', view, g['name'], ev, gv + 'c', ev, view, g['name']))
            self.emit('}')
        for d in lvl.get('datas', []):
            self.entities += 1
            dtag = '%s::%s' % (tag, d['name'])
            tr = '::sbepp::data_traits<%s>' % dtag
            self.common_traits(tr, d)
            self.use('%s::id()' % tr)
            self.use('%s::size_bytes(1)' % tr)
            self.use('sizeof(%s::value_type<char>)' % tr)
            self.use('sizeof(%s::length_type)' % tr)
            self.use('sizeof(%s::length_type_tag)' % tr)
            self.emit('tu::use(%s.%s().size()); %s.%s().push_back({}); tu::use(::sbepp::get_by_tag<%s>(%s).size()); '
                      'tu::use(%s.%s(cur).size()); tu::use(c%s.%s().size()); tu::use(c%s.%s(ccur).size());'
                      % (view, d['name'], view, d['name'], dtag, view, view, d['name'], view, d['name'], view, d['name']))

    def build(self):
        ns = self.ns
        L = self.L
        L.append('#include <%s/%s.hpp>' % (ns, ns))
        L.append('#include <type_traits>')
        L.append(PRELUDE)
        L.append('void touch_schema()')
        L.append('{')
        st = '::sbepp::schema_traits< ::%s::schema>' % ns
        for fn in ('package', 'id', 'version', 'semantic_version', 'byte_order', 'description'):
            self.use('%s::%s()' % (st, fn))
        for al in ('header_type<char>', 'header_type_tag', 'type_tags', 'message_tags'):
            self.use('sizeof(%s::%s)' % (st, al))
        L.append('}')
        for i, t in enumerate(self.types):
            L.append('')
            L.append('void touch_type_%d(char* buf, ::std::size_t n)' % i)
            L.append('{')
            self.emit('(void)buf; (void)n;')
            tag = '::%s::schema::types::%s' % (ns, t['name'])
            pub = '::%s::types::%s' % (ns, t['name'])
            self.elem_traits(t, tag, False)
            if t['k'] == 'composite':
                v = self.var('cv')
                self.emit('auto %s = ::sbepp::make_view< %s>(buf, n); auto c%s = ::sbepp::make_const_view< %s>(buf, n);' % (v, pub, v, pub))
                self.emit('static_assert(::std::is_same<decltype(%s), ::sbepp::composite_traits<%s>::value_type<char>>::value, "public type");' % (v, tag))
                self.composite_access(v, t, tag)
            elif t['k'] == 'type':
                if t.get('presence') == 'constant':
                    self.emit('static_assert(::std::is_same< %s, ::sbepp::type_traits<%s>::value_type>::value, "public type");' % (pub, tag))
                elif t.get('length', 1) != 1:
                    self.emit('{ %s<char> a_{}; tu::use(a_.size()); }' % pub)
                else:
                    self.emit('{ %s v_{}; tu::use(v_.value()); tu::use(%s::min_value()); tu::use(%s::max_value()); }' % (pub, pub, pub))
                    if t.get('presence') == 'optional':
                        self.emit('{ %s v_{}; tu::use(v_.has_value()); tu::use(%s::null_value()); }' % (pub, pub))
            elif t['k'] == 'enum':
                for v in t['values']:
                    self.use('%s::%s' % (pub, v['name']))
            elif t['k'] == 'set':
                self.emit('{ %s s_{}; tu::use(*s_);' % pub)
                for c in t['choices']:
                    self.emit('  tu::use(s_.%s());' % c['name'])
                self.emit('}')
            L.append('}')
        for i, m in enumerate(self.s['messages']):
            self.entities += 1
            L.append('')
            L.append('void touch_message_%d(char* buf, ::std::size_t n)' % i)
            L.append('{')
            tag = '::%s::schema::messages::%s' % (ns, m['name'])
            pub = '::%s::messages::%s' % (ns, m['name'])
            tr = '::sbepp::message_traits<%s>' % tag
            self.common_traits(tr, m)
            for fn in ('id', 'block_length', 'semantic_type'):
                self.use('%s::%s()' % (tr, fn))
            for al in ('value_type<char>', 'schema_tag', 'field_tags', 'group_tags', 'data_tags'):
                self.use('sizeof(%s::%s)' % (tr, al))
            nparams, has_data = size_params(m)
            self.use('%s::size_bytes(%s)' % (tr, ', '.join(['1'] * nparams + (['0'] if has_data else []))))
            self.emit('auto m = ::sbepp::make_view< %s>(buf, n); auto cm = ::sbepp::make_const_view< %s>(buf, n);' % (pub, pub))
            self.emit('static_assert(::std::is_same<decltype(m), %s::value_type<char>>::value, "public type");' % tr)
            self.emit('static_assert(::std::is_same< ::sbepp::traits_tag_t<decltype(m)>, %s>::value, "traits_tag");' % tag)
            self.emit('tu::use(::sbepp::fill_message_header(m)); tu::use(::sbepp::get_header(m)); tu::use(::sbepp::size_bytes(m)); '
                      'tu::use(::sbepp::size_bytes_checked(m, n)); tu::use(::sbepp::addressof(m));')
            self.emit('auto cur = ::sbepp::init_cursor(m); auto ccur = ::sbepp::init_const_cursor(cm); (void)cur; (void)ccur;')
            self.level_access('m', m, tag, 0)
            self.emit('{ tu::visitor vv_; auto vc_ = ::sbepp::init_cursor(m); ::sbepp::visit(m, vc_, vv_); '
                      'auto vc2_ = ::sbepp::init_const_cursor(cm); ::sbepp::visit(cm, vc2_, vv_); tu::use(::sbepp::size_bytes(m, vc_)); }')
            L.append('}')
        L.append('')
        L.append('int main()')
        L.append('{')
        L.append('    char buf[64] = {};')
        L.append('    touch_schema();')
        for i in range(len(self.types)):
            L.append('    touch_type_%d(buf, sizeof(buf));' % i)
        for i in range(len(self.s['messages'])):
            L.append('    touch_message_%d(buf, sizeof(buf));' % i)
        L.append('    return 0;')
        L.append('}')
        return '\n'.join(L) + '\n'


def size_params(level):
    """(number of numInGroup parameters below `level`, has data anywhere below/at)"""
    n = 0
    has_data = bool(level.get('datas'))
    for g in level.get('groups', []):
        k, d = size_params(g)
        n += 1 + k
        has_data = has_data or d
    return n, has_data


def touch_tu(sch):
    t = TU(sch)
    src = t.build()
    return src, t.entities


def generated_headers(gen_dir, ns):
    """every header sbeppc wrote, relative to gen_dir"""
    out = []
    root = os.path.join(gen_dir, ns)
    for d, _, fs in os.walk(root):
        for f in sorted(fs):
            if f.endswith('.hpp'):
                out.append(os.path.relpath(os.path.join(d, f), gen_dir))
    return sorted(out)


def header_alone_tu(rel):
    return '#include "%s"\nint main() { return 0; }\n' % rel


# ------------------------------------------------------------------ minimisation

def shrink_candidates(sch):
    """schemas with one member / type / message / attribute removed (smaller first)"""
    import copy

    def without(path_fn):
        s = copy.deepcopy(sch)
        try:
            path_fn(s)
        except (IndexError, KeyError):
            return None
        return s
    out = []
    for i in range(len(sch['messages'])):
        if len(sch['messages']) > 1:
            out.append(without(lambda s, i=i: s['messages'].pop(i)))

    def levels(lvl, acc, getter):
        acc.append(getter)
        for gi in range(len(lvl.get('groups', []))):
            levels(lvl['groups'][gi], acc, lambda s, g=getter, gi=gi: g(s)['groups'][gi])
    getters = []
    for mi, m in enumerate(sch['messages']):
        levels(m, getters, lambda s, mi=mi: s['messages'][mi])
    for g in getters:
        lvl = g(sch)
        for key in ('groups', 'datas', 'fields'):
            for i in range(len(lvl.get(key, []))):
                out.append(without(lambda s, g=g, key=key, i=i: g(s)[key].pop(i)))
        if lvl.get('blockLength') is not None:
            out.append(without(lambda s, g=g: g(s).pop('blockLength')))
    for i in range(len(sch['types'])):
        out.append(without(lambda s, i=i: s['types'].pop(i)))
        t = sch['types'][i]
        for key, sub in (('elems', 'elems'), ('values', 'values'), ('choices', 'choices')):
            for j in range(len(t.get(key, []))):
                if len(t[key]) > 1:
                    out.append(without(lambda s, i=i, key=key, j=j: s['types'][i][key].pop(j)))
        for a in ('desc', 'semanticType', 'min', 'max', 'null', 'offset', 'charEnc'):
            if t.get(a) is not None:
                out.append(without(lambda s, i=i, a=a: s['types'][i].pop(a)))
    for a in ('desc', 'semanticVersion'):
        if sch.get(a) is not None:
            out.append(without(lambda s, a=a: s.pop(a)))
    return [s for s in out if s is not None]
