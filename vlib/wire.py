"""Layer R for schema-dependent properties: value trees, generated C++
drivers (one per generated schema) and their comparison with the Lean model
and specification."""
import json
import os
import random
import shutil
import subprocess

from . import core, schema as S, sbeppc


def put(bo, w, v):
    b = [(v >> (8 * i)) & 255 for i in range(w)]
    return b if bo == 'little' else b[::-1]


def hexs(bs):
    return ''.join('%02x' % b for b in bs)


# ------------------------------------------------------------------ value trees

def rand_bytes(rng, n):
    return [rng.randrange(256) for _ in range(n)]


def enum_raw_values(sch):
    """{lower-cased enum type name or ('inline', id) ...}: raw wire values of the valid values of every enum of the
    schema, found by walking the schema dict: {message name: node}, node = {'leaves': {leaf path tuple: [raw values]},
    'groups': {group name: node}}.  Used to put VALID enum values into reference images (random bytes almost never
    are one), so that decoding/visiting an enum reaches the value-tag branches and not only `unknown`."""
    types = {t['name'].lower(): t for t in sch['types']}

    def deref(e):
        for _ in range(16):
            if e.get('k') == 'ref':
                e = types.get(e['type'].lower(), {})
            else:
                break
        return e

    def prim_of(enc):
        for _ in range(16):
            if enc in S.PRIM_SIZE:
                return enc
            t = types.get(enc.lower())
            if not t:
                return None
            enc = t.get('prim') or t.get('enc')
        return None

    def raws(e):
        p = prim_of(e['enc'])
        if p is None:
            return []
        w = S.PRIM_SIZE[p]
        out = []
        for v in e['values']:
            x = v['value']
            if p == 'char':
                out.append(ord(str(x)[0]))
            else:
                out.append(int(x) % (256 ** w))
        return out

    def walk_elem(e, path, acc):
        e = deref(e)
        if e.get('k') == 'enum':
            acc[tuple(path)] = raws(e)
        elif e.get('k') == 'composite':
            for x in e['elems']:
                walk_elem(x, path + [x['name']], acc)

    def level(lv):
        node = {'leaves': {}, 'groups': {}}
        for f in lv['fields']:
            t = types.get(f['type'].lower())
            if t:
                walk_elem(t, [f['name']], node['leaves'])
        for g in lv['groups']:
            node['groups'][g['name']] = level(g)
        return node
    return {m['name']: level(m) for m in sch['messages']}


def gen_level_value(rng, bo, level, wbl, depth, sizes, enums=None):
    """value tree of one level: raw block of `wbl` bytes, groups, datas"""
    v = {'block': rand_bytes(rng, wbl), 'groups': [], 'datas': []}
    if enums:
        for lf in level['leaves']:
            vals = enums['leaves'].get(tuple(lf['path']))
            if vals and lf['off'] + lf['size'] <= wbl and rng.random() < 0.7:
                v['block'][lf['off']:lf['off'] + lf['size']] = put(bo, lf['size'], rng.choice(vals))
    # floats: avoid signalling-NaN patterns being "quieted" by x87-free code: none on x86-64 SSE; keep raw
    for g in level['groups']:
        dim = g['dim']
        glevel = g['level']
        maxbl = 256 ** dim['blSize'] - 1
        ext = rng.choice(sizes['ext'])
        ebl = min(glevel['blockLen'] + ext, maxbl)
        n = rng.choice(sizes['counts'])
        n = min(n, 256 ** dim['numSize'] - 1)
        hdr = rand_bytes(rng, dim['size'])
        hdr[dim['blOff']:dim['blOff'] + dim['blSize']] = put(bo, dim['blSize'], ebl)
        hdr[dim['numOff']:dim['numOff'] + dim['numSize']] = put(bo, dim['numSize'], n)
        genums = enums['groups'].get(g['name']) if enums else None
        entries = [gen_level_value(rng, bo, glevel, ebl, depth + 1, sizes, genums) for _ in range(n)]
        v['groups'].append({'hdr': hdr, 'entries': entries})
    for d in level['datas']:
        n = rng.choice(sizes['data'])
        n = min(n, 256 ** d['lenSize'] - 1)
        v['datas'].append(rand_bytes(rng, n))
    return v


def gen_message_value(rng, bo, msg, schema_id, version, ext_ok=True, sizes=None):
    # extensions: mostly small; one in ten crosses 255 so that a wire blockLength does not fit a one-byte type
    sizes = sizes or {'ext': [0, 0, 0, 1, 1, 7, 7, 8, 8, 300] if ext_ok else [0], 'counts': [0, 1, 2, 3],
                      'data': [0, 1, 2, 5, 9]}
    if not ext_ok:
        sizes = dict(sizes, ext=[0])
    level = msg['level']
    hl = {tuple(l['path']): l for l in msg['hdrLeaves']}
    bll = hl[('blockLength',)]
    ext = rng.choice(sizes['ext'])
    wbl = min(level['blockLen'] + ext, 256 ** bll['size'] - 1)
    hdr = rand_bytes(rng, msg['hdrSize'])
    hdr[bll['off']:bll['off'] + bll['size']] = put(bo, bll['size'], wbl)
    root = gen_level_value(rng, bo, level, wbl, 0, sizes, msg.get('_enums'))
    return {'hdr': hdr, 'root': root}


def lval_sexp(v):
    gs = ' '.join('(gv (hdr x%s) (entries %s))' % (hexs(g['hdr']), ' '.join(lval_sexp(e) for e in g['entries']))
                  for g in v['groups'])
    ds = ' '.join('x' + hexs(d) for d in v['datas'])
    return '(lv (block x%s) (groups %s) (datas %s))' % (hexs(v['block']), gs, ds)


def mval_sexp(v):
    return '(msg (hdr x%s) (root %s))' % (hexs(v['hdr']), lval_sexp(v['root']))


def fits(msg):
    """blockLength values must fit their header members (otherwise the generated
    header does not even compile: a C07 matter, not judged here)"""
    hl = {tuple(l['path']): l for l in msg['hdrLeaves']}
    if ('blockLength',) not in hl or msg['level']['blockLen'] >= 256 ** hl[('blockLength',)]['size']:
        return False

    def lv(level):
        for g in level['groups']:
            if g['level']['blockLen'] >= 256 ** g['dim']['blSize']:
                return False
            if not lv(g['level']):
                return False
        return True
    return lv(msg['level'])


def std_data_headers(msg):
    def lv(level):
        return all(d['lenOff'] == 0 and d['hdrSize'] == d['lenSize'] for d in level['datas']) and \
            all(lv(g['level']) for g in level['groups'])
    return lv(msg['level'])


# ------------------------------------------------------------------ script tokens (encode)

def encode_tokens(bo, level, v):
    """flatten a value tree into the token stream the generated encoder consumes"""
    toks = []
    for lf in level['leaves']:
        bs = v['block'][lf['off']:lf['off'] + lf['size']]
        if lf['kind'] == 'array':
            toks.append('a' + hexs(bs))
        else:
            n = int.from_bytes(bytes(bs), 'little' if bo == 'little' else 'big')
            toks.append('%x' % n)
    for g, gv in zip(level['groups'], v['groups']):
        toks.append('%d' % len(gv['entries']))
        for e in gv['entries']:
            toks += encode_tokens(bo, g['level'], e)
    for d, dv in zip(level['datas'], v['datas']):
        toks.append('a' + hexs(dv))
    return toks


# ------------------------------------------------------------------ C++ driver generation

def cpp_path(var, path, first_call=None):
    """accessor chain for a leaf path; `first_call` replaces the first accessor call
    (cursor variants)"""
    out = var
    for i, p in enumerate(path):
        if i == 0 and first_call is not None:
            out = first_call
        else:
            out += '.%s()' % p
    return out


def group_fields(leaves):
    """group consecutive leaves by their first path element (= the field)"""
    out = []
    for lf in leaves:
        if out and out[-1][0] == lf['path'][0]:
            out[-1][1].append(lf)
        else:
            out.append((lf['path'][0], [lf]))
    return out


def gen_level_code(level, var, mode, ind, uid, tag=None):
    """mode: 'ra' decode random access | 'cur' decode with cursor | 'enc' encode random access |
    'enccur' encode with cursor. Emits C++ statements operating on view `var`,
    prefix string `pfx`, cursor `c`, token queue `tq`."""
    L = []
    use_c = mode in ('cur', 'enccur')
    enc = mode in ('enc', 'enccur', 'enctag')
    by_tag = mode == 'enctag' and tag is not None
    for fname, lfs in group_fields(level['leaves']):
        single = len(lfs) == 1 and len(lfs[0]['path']) == 1
        if single and lfs[0]['kind'] != 'array':
            lf = lfs[0]
            if enc:
                if by_tag:
                    L.append('%s{ using T = decltype(%s.%s()); sbepp::set_by_tag<%s::%s>(%s, gd::make<T>(tq.num())); }' % (
                        ind, var, fname, tag, fname, var))
                elif use_c:
                    L.append('%s{ using T = decltype(%s.%s()); %s.%s(gd::make<T>(tq.num()), c); }' % (ind, var, fname, var, fname))
                else:
                    L.append('%s{ using T = decltype(%s.%s()); %s.%s(gd::make<T>(tq.num())); }' % (ind, var, fname, var, fname))
            else:
                call = '%s.%s(c)' % (var, fname) if use_c else '%s.%s()' % (var, fname)
                if mode == 'cur' and tag is not None:
                    # get_by_tag with a cursor behaves exactly like the named cursor accessor: same value, and the
                    # caller's cursor ends at the same position (checked on a copy of the cursor taken before the call)
                    L.append('%s{ auto c2 = c; const auto bt = gd::bits_of(sbepp::get_by_tag<%s::%s>(%s, c2)); '
                             'const auto nm = gd::bits_of(%s); gd::obs(out, pfx + "%s", nm); '
                             'if(bt != nm || c2.pointer() != c.pointer()) out.push_back("BYTAG-CURSOR-MISMATCH:" + pfx + "%s"); }' % (
                                 ind, tag, fname, var, call, fname, fname))
                    continue
                L.append('%sgd::obs(out, pfx + "%s", gd::bits_of(%s));' % (ind, fname, call))
                if mode == 'ra' and tag is not None:
                    L.append('%sif(gd::bits_of(sbepp::get_by_tag<%s::%s>(%s)) != gd::bits_of(%s.%s())) out.push_back("BYTAG-MISMATCH:" + pfx + "%s");' % (
                        ind, tag, fname, var, var, fname, fname))
        else:
            fv = 'fv%d' % next(uid)
            call = '%s.%s(c)' % (var, fname) if use_c else '%s.%s()' % (var, fname)
            if by_tag:
                call = 'sbepp::get_by_tag<%s::%s>(%s)' % (tag, fname, var)
            if mode == 'cur' and tag is not None:
                L.append('%s{ auto c2 = c; auto bt_ = sbepp::get_by_tag<%s::%s>(%s, c2); auto %s = %s; '
                         'if(sbepp::addressof(bt_) != sbepp::addressof(%s) || c2.pointer() != c.pointer()) '
                         'out.push_back("BYTAG-CURSOR-MISMATCH:" + pfx + "%s");' % (ind, tag, fname, var, fv, call, fv, fname))
            else:
                L.append('%s{ auto %s = %s;' % (ind, fv, call))
            if mode == 'ra' and tag is not None:
                L.append('%s  if(sbepp::addressof(sbepp::get_by_tag<%s::%s>(%s)) != sbepp::addressof(%s)) out.push_back("BYTAG-MISMATCH:" + pfx + "%s");' % (
                    ind, tag, fname, var, fv, fname))
            for lf in lfs:
                expr = cpp_path(fv, lf['path'][1:]) if len(lf['path']) > 1 else fv
                pstr = '.'.join(lf['path'])
                if lf['kind'] == 'array':
                    if enc:
                        L.append('%s  gd::set_arr(%s, tq.bytes());' % (ind, expr))
                    else:
                        L.append('%s  gd::obs_arr(out, pfx + "%s", %s);' % (ind, pstr, expr))
                else:
                    if enc:
                        setter = cpp_path(fv, lf['path'][1:-1]) if len(lf['path']) > 2 else fv
                        L.append('%s  { using T = decltype(%s); %s.%s(gd::make<T>(tq.num())); }' % (
                            ind, expr, setter, lf['path'][-1]))
                    else:
                        L.append('%s  gd::obs(out, pfx + "%s", gd::bits_of(%s));' % (ind, pstr, expr))
            L.append('%s}' % ind)
    for g in level['groups']:
        gv = 'g%d' % next(uid)
        ev = 'e%d' % next(uid)
        iv = 'i%d' % next(uid)
        call = '%s.%s(c)' % (var, g['name']) if use_c else '%s.%s()' % (var, g['name'])
        if by_tag:
            call = 'sbepp::get_by_tag<%s::%s>(%s)' % (tag, g['name'], var)
        if mode == 'cur' and tag is not None:
            L.append('%s{ auto c2 = c; auto bt_ = sbepp::get_by_tag<%s::%s>(%s, c2); auto %s = %s; '
                     'if(sbepp::addressof(bt_) != sbepp::addressof(%s) || c2.pointer() != c.pointer()) '
                     'out.push_back("BYTAG-CURSOR-MISMATCH:" + pfx + "%s");' % (ind, tag, g['name'], var, gv, call, gv, g['name']))
        else:
            L.append('%s{ auto %s = %s;' % (ind, gv, call))
        if mode == 'ra' and tag is not None:
            L.append('%s  if(sbepp::addressof(sbepp::get_by_tag<%s::%s>(%s)) != sbepp::addressof(%s)) out.push_back("BYTAG-MISMATCH:" + pfx + "%s");' % (
                ind, tag, g['name'], var, gv, g['name']))
        if enc:
            L.append('%s  { using NT = typename decltype(%s)::sbe_size_type; auto gh = sbepp::fill_group_header(%s, NT{static_cast<typename NT::value_type>(tq.num())}); if(sbepp::addressof(gh) != sbepp::addressof(%s)) { gd::bad_header_view = true; } }' % (ind, gv, gv, gv))
        else:
            if use_c:
                L.append('%s  out.push_back(pfx + "%s:n=" + std::to_string(static_cast<unsigned long long>(%s.size())));' % (ind, g['name'], gv))
            else:
                L.append('%s  out.push_back(pfx + "%s:n=" + std::to_string(static_cast<unsigned long long>(%s.size())) + ",sz=" + std::to_string(sbepp::size_bytes(%s)));' % (ind, g['name'], gv, gv))
        L.append('%s  std::size_t %s = 0;' % (ind, iv))
        rng = '%s.cursor_range(c)' % gv if use_c else gv
        L.append('%s  for(auto %s : %s) {' % (ind, ev, rng))
        L.append('%s    std::string pfx_save = pfx; pfx = pfx + "%s[" + std::to_string(%s) + "]";' % (ind, g['name'], iv))
        if not enc and not use_c:
            L.append('%s    out.push_back(pfx + ":sz=" + std::to_string(sbepp::size_bytes(%s)));' % (ind, ev))
        L.append('%s    pfx += ".";' % ind)
        L += gen_level_code(g['level'], ev, mode, ind + '    ', uid, (tag + '::' + g['name']) if tag else None)
        L.append('%s    pfx = pfx_save; %s++;' % (ind, iv))
        L.append('%s  }' % ind)
        L.append('%s}' % ind)
    for d in level['datas']:
        dv = 'd%d' % next(uid)
        call = '%s.%s(c)' % (var, d['name']) if use_c else '%s.%s()' % (var, d['name'])
        if by_tag:
            call = 'sbepp::get_by_tag<%s::%s>(%s)' % (tag, d['name'], var)
        if enc and use_c:
            # write through a non-moving cursor first, then advance
            L.append('%s{ auto %s = %s.%s(sbepp::cursor_ops::dont_move(c)); gd::set_data(%s, tq.bytes()); %s.%s(c); }' % (
                ind, dv, var, d['name'], dv, var, d['name']))
        elif enc:
            L.append('%s{ auto %s = %s; gd::set_data(%s, tq.bytes()); }' % (ind, dv, call, dv))
        elif mode == 'cur' and tag is not None:
            L.append('%s{ auto c2 = c; auto bt_ = sbepp::get_by_tag<%s::%s>(%s, c2); auto %s = %s; '
                     'if(sbepp::addressof(bt_) != sbepp::addressof(%s) || c2.pointer() != c.pointer()) '
                     'out.push_back("BYTAG-CURSOR-MISMATCH:" + pfx + "%s"); gd::obs_data(out, pfx + "%s", %s, false); }' % (
                         ind, tag, d['name'], var, dv, call, dv, d['name'], d['name'], dv))
        else:
            L.append('%s{ auto %s = %s; gd::obs_data(out, pfx + "%s", %s, %s); }' % (
                ind, dv, call, d['name'], dv, 'false' if use_c else 'true'))
    return L


CPP_UINT = {'uint8': 'std::uint8_t', 'uint16': 'std::uint16_t', 'uint32': 'std::uint32_t', 'uint64': 'std::uint64_t'}


def trait_param_types(level):
    """parameter types of message_traits::size_bytes: one numInGroup type per group in
    pre-order, then std::size_t if any data member exists anywhere"""
    out = []
    has_data = [False]

    def walk(lv):
        if lv['datas']:
            has_data[0] = True
        for g in lv['groups']:
            out.append(CPP_UINT.get(g['dim']['numPrim'], 'std::uint64_t'))
            walk(g['level'])
    walk(level)
    if has_data[0]:
        out.append('std::size_t')
    return out


def counter():
    n = 0
    while True:
        n += 1
        yield n


def gen_driver(pkg, layout):
    """C++ source of the driver for all messages of one schema"""
    src = ['#define SBEPP_ENABLE_ASSERTS_WITH_HANDLER', '#include <%s/%s.hpp>' % (pkg, pkg), '#include "gen_driver.hpp"',
           '#include "c19_visitor.hpp"', '']
    names = []
    for m in layout['messages']:
        if 'error' in m:
            continue
        n = m['name']
        names.append(n)
        cls = '::%s::messages::%s' % (pkg, n)
        uid = counter()
        for mode in ('ra', 'cur'):
            extra = ', const std::vector<std::uint64_t>& targs' if mode == 'ra' else ''
            src.append('static void dec_%s_%s(%s<char> m, std::vector<std::string>& out, gd::span buf%s) {' % (mode, n, cls, extra))
            src.append('  std::string pfx; (void)buf;')
            src.append('  { auto h = sbepp::get_header(m);')
            for lf in m['hdrLeaves']:
                if lf['kind'] == 'array':
                    src.append('    gd::obs_arr(out, "h.%s", %s);' % ('.'.join(lf['path']), cpp_path('h', lf['path'])))
                else:
                    src.append('    gd::obs(out, "h.%s", gd::bits_of(%s));' % ('.'.join(lf['path']), cpp_path('h', lf['path'])))
            src.append('  }')
            if mode == 'cur':
                src.append('  auto c = sbepp::init_cursor(m);')
            src += gen_level_code(m['level'], 'm', mode, '  ', uid, '::%s::schema::messages::%s' % (pkg, n))
            if mode == 'cur':
                src.append('  out.push_back("size=" + std::to_string(sbepp::size_bytes(m, c)));')
                src.append('  out.push_back("cursor=" + std::to_string(c.pointer() - buf.p));')
            else:
                src.append('  out.push_back("size=" + std::to_string(sbepp::size_bytes(m)));')
                ptypes = trait_param_types(m['level'])
                src.append('  if(targs.size() == %d) {' % len(ptypes))
                args = ', '.join('static_cast<%s>(targs[%d])' % (t, i) for i, t in enumerate(ptypes))
                src.append('    out.push_back("trait=" + std::to_string(::sbepp::message_traits<::%s::schema::messages::%s>::size_bytes(%s)));' % (pkg, n, args))
                src.append('  }')
            src.append('}')
        for mode in ('enc', 'enccur', 'enctag'):
            src.append('static std::size_t %s_%s(%s<char> m, gd::tokens& tq, gd::span buf) {' % (mode, n, cls))
            src.append('  std::string pfx; (void)buf;')
            src.append('  { auto mh = sbepp::fill_message_header(m); if(sbepp::addressof(mh) != sbepp::addressof(m)) { gd::bad_header_view = true; } }')
            if mode == 'enccur':
                src.append('  auto c = sbepp::init_cursor(m);')
            src += gen_level_code(m['level'], 'm', mode, '  ', uid, '::%s::schema::messages::%s' % (pkg, n))
            if mode == 'enccur':
                src.append('  return static_cast<std::size_t>(c.pointer() - buf.p);')
            else:
                src.append('  return sbepp::size_bytes(m);')
            src.append('}')
    src.append('int main() { return gd::main_loop({')
    for n in names:
        cls = '::%s::messages::%s' % (pkg, n)
        src.append('  {"%s", gd::entry{'
                   '[](gd::span b, std::vector<std::string>& o, const std::vector<std::uint64_t>& a){ dec_ra_%s(sbepp::make_view<%s>(b.p, b.n), o, b, a); },'
                   '[](gd::span b, std::vector<std::string>& o){ dec_cur_%s(sbepp::make_view<%s>(b.p, b.n), o, b); },'
                   '[](gd::span b, gd::tokens& t){ return enc_%s(sbepp::make_view<%s>(b.p, b.n), t, b); },'
                   '[](gd::span b, gd::tokens& t){ return enccur_%s(sbepp::make_view<%s>(b.p, b.n), t, b); },'
                   '[](gd::span b, long k, std::vector<std::string>& o, bool& s, long& c){ c19::run(sbepp::make_view<%s>(b.p, b.n), b, k, o, s, c); },'
                   '[](gd::span b, gd::tokens& t){ return enctag_%s(sbepp::make_view<%s>(b.p, b.n), t, b); }}},' % (
                       n, n, cls, n, cls, n, cls, n, cls, cls, n, cls))
    src.append('}); }')
    return '\n'.join(src) + '\n'


# ------------------------------------------------------------------ per-schema pipeline

class SchemaCase:
    """one generated schema compiled by the real sbeppc, with its driver"""

    def __init__(self, chk, idx, sch, workdir):
        self.chk = chk
        self.idx = idx
        self.s = sch
        self.dir = os.path.join(workdir, 'case%d' % idx)
        os.makedirs(self.dir, exist_ok=True)
        self.xml = os.path.join(self.dir, 'schema.xml')
        open(self.xml, 'w').write(S.to_xml(sch))
        self.sexp = S.to_sexp(sch)
        self._layout = None
        self.rc = None
        self.out = ''

    @property
    def layout(self):
        return self._layout

    @layout.setter
    def layout(self, lay):
        # attach the raw valid values of every enum leaf (see enum_raw_values) to the message layouts
        if isinstance(lay, dict) and isinstance(lay.get('messages'), list):
            tab = enum_raw_values(self.s)
            for m in lay['messages']:
                if isinstance(m, dict) and 'name' in m:
                    m['_enums'] = tab.get(m['name'])
        self._layout = lay

    def compile_schema(self, exe):
        self.rc, self.out = sbeppc.run(exe, self.xml, os.path.join(self.dir, 'gen'))
        return self.rc

    def build_driver(self, cxx, std):
        src = os.path.join(self.dir, 'driver.cpp')
        if not os.path.exists(src):
            tmp = src + '.%d.%s%s' % (os.getpid(), cxx, std)
            open(tmp, 'w').write(gen_driver(self.s['package'], self.layout))
            os.replace(tmp, src)
        exe = os.path.join(self.dir, 'driver-%s-%s' % (cxx.replace('+', 'p'), std))
        cmd = [cxx, '-std=' + std, '-O0', '-g0', '-w', '-fsanitize=undefined', '-fsanitize-undefined-trap-on-error',
               '-I' + os.path.join(self.dir, 'gen'),
               '-I' + os.path.join(core.REPO, 'sbepp/src'), '-I' + os.path.join(core.VERIF, 'harness'), src, '-o', exe]
        rc, log = core.sh(cmd, timeout=600)
        return (exe if rc == 0 else None), log
